/-
Model of the structural (graph) queries of `chempy/reactionsystem.py`
(`ReactionSystem.__init__`, `split`, `categorize_substances`, `identify_equilibria`,
`substance_participation`, `per_reaction_effect_on_substance`, `subset`, `concatenate`,
`__add__`, `__iadd__`, `__eq__`, `as_per_substance_array/dict`, `as_substance_index`,
`per_substance_varied`, `upper_conc_bounds`) and of the `Reaction` accessors they use
(`chempy/chemistry.py`: `keys`, `net_stoich`, `all_reac_stoich`, `all_prod_stoich`, `__eq__`).
Import-free (core Lean only).

Python semantics mirrored
* A `Reaction` holds four `OrderedDict`s (`reac`, `prod`, `inact_reac`, `inact_prod`); they are association
  lists `String → Nat` here (keys unique = dict invariant; the order is the dict's insertion order and is
  observable through `OrderedDict.__eq__`, which is order sensitive).  `d.get(k, 0)` is `Stoich.get`.
  A key with coefficient 0 is still a key (`Reaction.keys()`), exactly as in the code.
* Python `set`s of substance keys (`Reaction.keys()`, the `gs` of `split`) are lists read **up to
  membership**: no modelled function observes anything but `k in s` / `s & t` non-empty.
* `ReactionSystem.substances` is an `OrderedDict` key → `Substance`: an association list in insertion order.
* Exceptions are explicit error values; nothing is totalised.
* A member of a system may be an `Equilibrium` (`isEq`; its `param` is a scalar/None, or the pair `(kf, kb)` = `(param, paramB)`).
  All accessors are inherited, `__eq__` does not look at the class. `categorize_substances` expands equilibria with
  `as_reactions()` (no arguments: needs the pair; the two `Reaction(...)` calls run the default Reaction checks, of which
  `any_effect` can fail for `Nat` coefficients).
* Not modelled: `check_balance` (C05), `missing_substances_from_keys` (iterates a Python `set` of `str`, i.e. in
  hash-randomised order), units, numpy float dtypes (`upper_conc_bounds` is modelled for exact arithmetic = `dtype=object`;
  with the default `float64` a ZERO atom count gives inf/nan + RuntimeWarning instead of ZeroDivisionError: outside the model).
-/

namespace ChemModel.RSysGraph

/-! ### Reactions -/

abbrev Stoich := List (String × Nat)

/-- `d.get(k, 0)` on an (Ordered)dict of stoichiometric coefficients -/
def Stoich.get (s : Stoich) (k : String) : Nat :=
  match s.lookup k with
  | some v => v
  | none => 0

/-- `chempy.chemistry.Reaction` restricted to what the structural queries read.
    `param`: `None` or an integer (only compared for equality); `name`: `None` or a string.
    `paramB = some kb` (with `param = some kf`): the parameter is the tuple `(kf, kb)`; `isEq`: instance of `Equilibrium`. -/
structure Rxn where
  reac : Stoich
  prod : Stoich
  inactReac : Stoich := []
  inactProd : Stoich := []
  param : Option Int := none
  name : Option String := none
  paramB : Option Int := none
  isEq : Bool := false
deriving DecidableEq, Repr, Inhabited

/-- `Reaction.keys()` (chemistry.py:647-655): a set; here the chained key lists, read up to membership -/
def Rxn.keys (r : Rxn) : List String :=
  r.reac.map (·.1) ++ r.prod.map (·.1) ++ r.inactReac.map (·.1) ++ r.inactProd.map (·.1)

/-- one entry of `Reaction.all_reac_stoich` (chemistry.py:667-671) -/
def Rxn.allReac (r : Rxn) (k : String) : Nat := r.reac.get k + r.inactReac.get k

/-- one entry of `Reaction.all_prod_stoich` (chemistry.py:677-681) -/
def Rxn.allProd (r : Rxn) (k : String) : Nat := r.prod.get k + r.inactProd.get k

/-- one entry of `Reaction.net_stoich` (chemistry.py:657-665), same order of the four terms -/
def Rxn.net (r : Rxn) (k : String) : Int :=
  (r.prod.get k : Int) - (r.reac.get k : Int) + (r.inactProd.get k : Int) - (r.inactReac.get k : Int)

/-- `Reaction.__eq__` (chemistry.py:622-630): `_cmp_attr = (reac, prod, param, inact_reac, inact_prod)`;
    `name` is NOT compared; `OrderedDict != OrderedDict` is order sensitive = list inequality -/
def Rxn.pyEq (a b : Rxn) : Bool :=
  a.reac == b.reac && a.prod == b.prod && (a.param == b.param && a.paramB == b.paramB) &&
  a.inactReac == b.inactReac && a.inactProd == b.inactProd

/-- the comparison used by `concatenate._pred` (`cmp_attrs = reac inact_reac prod inact_prod`, no `param`) -/
def Rxn.sameStoich (a b : Rxn) : Bool :=
  a.reac == b.reac && a.inactReac == b.inactReac && a.prod == b.prod && a.inactProd == b.inactProd

/-- `Reaction.check_any_effect` (chemistry.py:554-563): `any(self.net_stoich(self.keys()))` -/
def Rxn.anyEffect (r : Rxn) : Bool := r.keys.any fun k => r.net k != 0

inductive ExpandErr where
  | rateNeeded   -- `kf, kb = self.param` fails (param is no pair): ValueError "Exactly one rate needs to be provided"
  | noEffect     -- `Reaction(...)` default check `any_effect`: ValueError "The net stoichiometry change of all species are zero."
deriving DecidableEq, Repr

/-- `Equilibrium.as_reactions()` without arguments (chemistry.py:1048-1116): forward `Reaction(reac, prod, kf, inact_reac,
    inact_prod, name=self.name)`, backward `Reaction(prod, reac, kb, inact_prod, inact_reac, name=None)`; both are plain
    `Reaction`s built with the DEFAULT checks (`all_positive`, `all_integral` hold for `Nat`; `consistent_units`: no units). -/
def Rxn.asReactions (r : Rxn) : Except ExpandErr (Rxn × Rxn) :=
  match r.param, r.paramB with
  | some kf, some kb =>
    if r.anyEffect then
      .ok ({ reac := r.reac, prod := r.prod, inactReac := r.inactReac, inactProd := r.inactProd, param := some kf, name := r.name },
           { reac := r.prod, prod := r.reac, inactReac := r.inactProd, inactProd := r.inactReac, param := some kb, name := none })
    else .error .noEffect
  | _, _ => .error .rateNeeded

/-- lines 190-195 of `categorize_substances`: equilibria are replaced by their forward and backward reaction, plain reactions
    (no `as_reactions`: AttributeError) are kept -/
def expand : List Rxn → Except ExpandErr (List Rxn)
  | [] => .ok []
  | r :: t =>
    if r.isEq then
      match r.asReactions with
      | .error e => .error e
      | .ok (f, b) => match expand t with
        | .error e => .error e
        | .ok l => .ok (f :: b :: l)
    else match expand t with
      | .error e => .error e
      | .ok l => .ok (r :: l)

/-! ### Substances and systems -/

/-- `Substance.composition`: atomic number (0 = net charge) → count -/
abbrev Comp := List (Nat × Int)

/-- `Substance` restricted to `name` and `composition` (the other `attrs` are `None` / `{}` in the harness) -/
structure Subst where
  name : String
  comp : Option Comp := none
deriving DecidableEq, Repr, Inhabited

abbrev ODict := List (String × Subst)

structure RSys where
  rxns : List Rxn
  substs : ODict
deriving DecidableEq, Repr, Inhabited

def RSys.keys (s : RSys) : List String := s.substs.map (·.1)
def RSys.nr (s : RSys) : Nat := s.rxns.length
def RSys.ns (s : RSys) : Nat := s.substs.length

/-- `od[k] = v` on an OrderedDict: an existing key keeps its position, a new key is appended -/
def odictSet (k : String) (v : Subst) : ODict → ODict
  | [] => [(k, v)]
  | (k', v') :: t => if k' = k then (k', v) :: t else (k', v') :: odictSet k v t

/-- `od.update(items)` / `OrderedDict(chain(od.items(), items))` -/
def odictUpdate (od : ODict) (items : ODict) : ODict :=
  items.foldl (fun acc kv => odictSet kv.1 kv.2 acc) od

/-- `OrderedDict(items)` -/
def odictOf (items : ODict) : ODict := odictUpdate [] items

/-- `sort_substances_inplace` (reactionsystem.py:227-229): `sorted(items, key=lambda kv: kv[0])`
    (stable; `str` comparison is code-point lexicographic like Lean's `String` order) -/
def sortSubstances (od : ODict) : ODict := od.mergeSort (fun a b => decide (a.1 ≤ b.1))

/-! ### Constructor: substance ordering and checks (reactionsystem.py:65-124, 284-320) -/

/-- the `substances` argument of the constructor -/
inductive SubstArg where
  | none                              -- `None`: deduced from the reactions (a set → sorted)
  | names (l : List String)           -- list / tuple of keys: order kept
  | nameSet (l : List String)         -- a `set` of keys (given in any order): sorted
  | str (s : String)                  -- a string: `.split()` when it contains a blank, else ITERATED CHARACTER-WISE
  | substs (l : List Subst)           -- list / tuple of Substance instances: keyed by `.name`, order kept
  | odict (od : ODict)                -- an OrderedDict: taken as is (keys unique)
  | dict (od : ODict)                 -- a plain `dict` key → Substance: `OrderedDict(substances)` (line 102), SORTED by default
deriving Repr

inductive Check where
  | substanceKeys | duplicate | duplicateNames
deriving DecidableEq, Repr

/-- `check_substance_keys` (312-320) -/
def checkSubstanceKeys (s : RSys) : Bool :=
  s.rxns.all fun r => r.keys.all fun k => s.keys.contains k

/-- `check_duplicate` (284-296): some later reaction `==` an earlier one -/
def hasDuplicate : List Rxn → Bool
  | [] => false
  | r :: t => t.any (fun r2 => r.pyEq r2) || hasDuplicate t

def checkDuplicate (s : RSys) : Bool := !hasDuplicate s.rxns

/-- `check_duplicate_names` (298-310): `names_seen` scan, `None` names skipped -/
def dupNamesLoop (seen : List String) : List Rxn → Bool
  | [] => true
  | r :: t => match r.name with
    | none => dupNamesLoop seen t
    | some n => if seen.contains n then false else dupNamesLoop (n :: seen) t

def checkDuplicateNames (s : RSys) : Bool := dupNamesLoop [] s.rxns

def runCheck (s : RSys) : Check → Bool
  | .substanceKeys => checkSubstanceKeys s
  | .duplicate => checkDuplicate s
  | .duplicateNames => checkDuplicateNames s

/-- `for check in checks: getattr(self, 'check_' + check)(throw=True)`: the first failing check raises -/
def firstFailing (s : RSys) : List Check → Option Check
  | [] => none
  | c :: t => if runCheck s c then firstFailing s t else some c

def isBlank (c : Char) : Bool := c = ' ' || c = '\t' || c = '\n' || c = '\r' || c = '\x0b' || c = '\x0c'

/-- `str.split()` (whitespace runs separate, no empty fields), ASCII whitespace -/
def pySplitAux : List Char → List Char → List String
  | [], cur => if cur.isEmpty then [] else [String.ofList cur.reverse]
  | c :: t, cur =>
    if isBlank c then (if cur.isEmpty then pySplitAux t [] else String.ofList cur.reverse :: pySplitAux t [])
    else pySplitAux t (c :: cur)

def pySplit (s : String) : List String := pySplitAux s.toList []

/-- the union of the reactions' key sets, as a list (with repetitions) -/
def allKeys (rxns : List Rxn) : List String := rxns.flatMap Rxn.keys

/-- lines 77-106: the OrderedDict built from the `substances` argument, and the default of `sort_substances` -/
def substancesOf (rxns : List Rxn) : SubstArg → ODict × Bool
  | .none => (odictOf ((allKeys rxns).map fun k => (k, { name := k })), true)
  | .names l => (odictOf (l.map fun k => (k, { name := k })), false)
  | .nameSet l => (odictOf (l.map fun k => (k, { name := k })), true)
  | .str s =>
    let l := if s.toList.contains ' ' then pySplit s else s.toList.map fun c => String.ofList [c]
    (odictOf (l.map fun k => (k, { name := k })), false)
  | .substs l => (odictOf (l.map fun s => (s.name, s)), false)
  | .odict od => (od, false)
  | .dict od => (od, true)

/-- `ReactionSystem(rxns, substances, checks=checks, sort_substances=sort)`:
    `sort = none` is Python's `None` (default by type of `substances`). The checks run BEFORE sorting. -/
def RSys.make (rxns : List Rxn) (arg : SubstArg) (checks : List Check) (sort : Option Bool := none) :
    Except Check RSys :=
  let (od, dflt) := substancesOf rxns arg
  let s : RSys := ⟨rxns, od⟩
  match firstFailing s checks with
  | some c => .error c
  | none =>
    let doSort := match sort with | some b => b | none => dflt
    .ok (if doSort then ⟨rxns, sortSubstances od⟩ else s)

/-- lines 108-112, `missing_substances_from_keys=True`: every reaction key that is no substance yet gets `substance_factory(k)`.
    Python walks a `set` difference (hash order); the keys are appended here in first-occurrence order, which is faithful only when
    the order does not matter (sorting applies afterwards) or at most one key is missing — the harness generates nothing else. -/
def addMissing (od : ODict) (rxns : List Rxn) : ODict :=
  odictUpdate od (((allKeys rxns).filter fun k => !(od.map (·.1)).contains k).map fun k => (k, { name := k }))

inductive MakeErr where
  | check (c : Check)   -- explicit `checks`: the first failing one (in the order given)
  | anyCheck            -- default checks (`default_checks ^ dont_check`, a hash-ordered set): SOME check raised ValueError
  | bothGiven           -- line 117: "Cannot specify both checks and dont_check"
  | typeError           -- `set.union(*[])`: `missing_substances_from_keys=True` with no reactions
deriving DecidableEq, Repr

/-- the whole constructor: `ReactionSystem(rxns, substances, checks=checks, dont_check=dontCheck, sort_substances=sort,
    missing_substances_from_keys=missing)`. `checks = none` is Python's `None` (default checks; `balance` is outside the model
    and must be in `dont_check`, which then lists the modelled checks to skip). Order of events as in the code:
    substances, missing keys, the both-given refusal, the checks, sorting. -/
def RSys.makeFull (rxns : List Rxn) (arg : SubstArg) (checks : Option (List Check)) (dontCheck : Option (List Check))
    (sort : Option Bool) (missing : Bool) : Except MakeErr RSys :=
  if missing && rxns.isEmpty then .error .typeError else
  let od := if missing then addMissing (substancesOf rxns arg).1 rxns else (substancesOf rxns arg).1
  let s : RSys := ⟨rxns, od⟩
  let doSort := match sort with | some b => b | none => (substancesOf rxns arg).2
  let done : RSys := if doSort then ⟨rxns, sortSubstances od⟩ else s
  match checks, dontCheck with
  | some _, some _ => .error .bothGiven
  | some cs, none => match firstFailing s cs with
    | some c => .error (.check c)
    | none => .ok done
  | none, dc =>
    let skip := match dc with | some l => l | none => []
    if ([Check.substanceKeys, .duplicate, .duplicateNames].filter fun c => !skip.contains c).all (runCheck s) then .ok done
    else .error .anyCheck

/-- `as_substance_index(i: int)`: returned as it is (no bounds check) -/
def asSubstanceIndexInt (_s : RSys) (i : Int) : Int := i

/-! ### split (reactionsystem.py:126-163) -/

/-- `(gr, gs)`: list of reaction indices, set of substance keys -/
abbrev Group := List Nat × List String

/-- `groups[i][1] & groups[j][1]` is non-empty / `any(k in gs for k in rks)` -/
def shares (a b : List String) : Bool := a.any fun k => b.contains k

/-- lines 130-140: walk the groups, put reaction `i` (keys `rks`) into the FIRST group sharing a key
    (`gr.append(i); gs.update(rks)`); `none` = the for-else branch is taken -/
def place (i : Nat) (rks : List String) : List Group → Option (List Group)
  | [] => none
  | g :: t =>
    if shares rks g.2 then some ((g.1 ++ [i], g.2 ++ rks) :: t)
    else match place i rks t with
      | some t' => some (g :: t')
      | none => none

/-- body of the loop over `enumerate(self.rxns)` (129-142) -/
def greedyStep (groups : List Group) (i : Nat) (rks : List String) : List Group :=
  match place i rks groups with
  | some gs => gs
  | none => groups ++ [([i], rks)]

/-- the whole first loop, over the key sets of the reactions, starting at index `i` -/
def greedyFrom (i : Nat) (groups : List Group) : List (List String) → List Group
  | [] => groups
  | rks :: rest => greedyFrom (i + 1) (greedyStep groups i rks) rest

/-- lines 146-151, one execution of `for j in range(i + 1, len(groups))` for the current group `g = groups[i]`
    and `rest = groups[i+1:]`: the FIRST later group sharing a substance is fused into `g` and popped
    (`extend`, `update`, `pop(j)`, `break`); `none` = the for-else branch (`i += 1`). -/
def fuseFirst (g : Group) : List Group → Option (Group × List Group)
  | [] => none
  | h :: t =>
    if shares g.2 h.2 then some ((g.1 ++ h.1, g.2 ++ h.2), t)
    else match fuseFirst g t with
      | some (g', t') => some (g', h :: t')
      | none => none

theorem fuseFirst_length {g : Group} {rest : List Group} {g' : Group} {rest' : List Group}
    (h : fuseFirst g rest = some (g', rest')) : rest'.length + 1 = rest.length := by
  induction rest generalizing g' rest' with
  | nil => simp [fuseFirst] at h
  | cons x t ih =>
    unfold fuseFirst at h
    split at h
    · simp only [Option.some.injEq, Prod.mk.injEq] at h
      rw [← h.2]; rfl
    · split at h
      · rename_i g'' t'' heq
        simp only [Option.some.injEq, Prod.mk.injEq] at h
        rw [← h.2]
        simp only [List.length_cons]
        rw [ih heq]
      · simp at h

/-- the `while True` loop (144-155) as a zipper over `groups = done ++ g :: rest` with `i = done.length`:
    * a fusion happened → same `i`, scan again from `i + 1` (the list is one shorter);
    * for-else → `i += 1`; `if i >= len(groups): break`.
    Terminates because every iteration shortens `rest` (`len(groups) - i` strictly decreases). -/
def fuseLoop (done : List Group) (g : Group) (rest : List Group) : List Group :=
  match h : fuseFirst g rest with
  | some (g', rest') => fuseLoop done g' rest'
  | none =>
    match rest with
    | [] => done ++ [g]
    | g2 :: rest2 => fuseLoop (done ++ [g]) g2 rest2
termination_by rest.length
decreasing_by
  · have := fuseFirst_length h; omega
  · simp

/-- lines 144-155 including the degenerate start (`groups == []`: `i` becomes 1 ≥ 0, break) -/
def fuse : List Group → List Group
  | [] => []
  | g :: rest => fuseLoop [] g rest

/-- the groups computed by `split` for reactions with key sets `ks` -/
def splitGroups (ks : List (List String)) : List Group := fuse (greedyFrom 0 [] ks)

/-- `[self.rxns[ri] for ri in gr]`; an index out of range would be an IndexError (`none`) -/
def pick (rxns : List Rxn) : List Nat → Option (List Rxn)
  | [] => some []
  | i :: t => match rxns[i]?, pick rxns t with
    | some r, some l => some (r :: l)
    | _, _ => none

inductive SplitErr where
  | index               -- unreachable (see `split_no_index_error`)
  | check (c : Check)   -- the constructor of a sub-system raised
deriving Repr

/-- lines 156-163: one sub-system per group, substances filtered from `self.substances` IN ITS ORDER,
    constructed with `**kwargs` (here: `checks`); the list comprehension stops at the first raising constructor. -/
def buildGroups (s : RSys) (checks : List Check) : List Group → Except SplitErr (List (List Nat × RSys))
  | [] => .ok []
  | g :: t =>
    match pick s.rxns g.1 with
    | none => .error .index
    | some rx =>
      match RSys.make rx (.odict (s.substs.filter fun kv => g.2.contains kv.1)) checks with
      | .error c => .error (.check c)
      | .ok sub =>
        match buildGroups s checks t with
        | .error e => .error e
        | .ok l => .ok ((g.1, sub) :: l)

/-- `rsys.split(checks=checks)`; also returns each group's reaction indices (not observable on the Python
    objects except through the reactions themselves; used by the theorems) -/
def split (s : RSys) (checks : List Check) : Except SplitErr (List (List Nat × RSys)) :=
  buildGroups s checks (splitGroups (s.rxns.map Rxn.keys))

/-! ### categorize_substances (165-225), plain `Reaction`s -/

structure Categories where
  accumulated : List String
  depleted : List String
  unaffected : List String
  nonparticipating : List String
deriving DecidableEq, Repr

inductive Cat where
  | both | depleted | accumulated | unaffected | nonparticipating
deriving DecidableEq, Repr

/-- lines 204-219 for one substance key -/
def categoryOf (rxns : List Rxn) (k : String) : Cat :=
  let inR := rxns.any fun r => decide ((r.allProd k : Int) - (r.allReac k : Int) < 0)
  let inP := rxns.any fun r => decide ((r.allProd k : Int) - (r.allReac k : Int) > 0)
  if inR && inP then .both
  else if inR then .depleted
  else if inP then .accumulated
  else if rxns.any fun r => decide (r.allProd k > 0) then .unaffected
  else .nonparticipating

inductive CatErr where
  | expand (e : ExpandErr)   -- `r.as_reactions()` raised ValueError (only AttributeError is caught)
  | check (c : Check)        -- the constructor of the irreversible system raised
deriving DecidableEq, Repr

/-- `categorize_substances(checks=checks)`: equilibria are expanded, then the irreversible system is constructed (its checks may
    raise); the sets are returned as lists in substance order. Coefficients are `Nat`, so the
    "Expected positive stoichiometric coefficients" branch cannot be taken.
    `_stoichs` reshapes to `(len(rxns), len(keys))`, so a system without reactions has `0 × ns` matrices and
    every `np.any(net[:, i] …)` over the empty column is False (all substances nonparticipating). -/
def categorize (s : RSys) (checks : List Check) : Except CatErr Categories :=
  match expand s.rxns with
  | .error e => .error (.expand e)
  | .ok irrev =>
  match RSys.make irrev (.odict s.substs) checks with
  | .error c => .error (.check c)
  | .ok irr =>
    let ks := irr.keys
    .ok { accumulated := ks.filter fun k => categoryOf irr.rxns k = .accumulated
          depleted := ks.filter fun k => categoryOf irr.rxns k = .depleted
          unaffected := ks.filter fun k => categoryOf irr.rxns k = .unaffected
          nonparticipating := ks.filter fun k => categoryOf irr.rxns k = .nonparticipating }

/-- `categorize_substances(checks=checks, missing_substances_from_keys=missing, sort_substances=…)`: the keyword arguments go to
    the constructor of the temporary irreversible system, which is built on a COPY of the receiver's substances (the receiver, and the
    dict it was built on, are never touched). With `missing`, every reaction key becomes a substance of the temporary system and is
    categorised too (no reactions: `set.union(*[])` TypeError). The result is four SETS, so neither the hash order in which missing keys
    are added nor `sort_substances` can be observed. -/
inductive CatKwErr where
  | cat (e : CatErr)
  | typeError
deriving DecidableEq, Repr

def categorizeKw (s : RSys) (checks : List Check) (missing : Bool) : Except CatKwErr Categories :=
  if !missing then
    match categorize s checks with
    | .ok c => .ok c
    | .error e => .error (.cat e)
  else
    match expand s.rxns with
    | .error e => .error (.cat (.expand e))
    | .ok irrev =>
      if irrev.isEmpty then .error .typeError
      else match categorize ⟨s.rxns, addMissing s.substs irrev⟩ checks with
        | .ok c => .ok c
        | .error e => .error (.cat e)

/-! #### the refusal of negative totals (line 199-200)

The stoichiometric coefficients of the model are `Nat`. Reactions built with `checks=()` may carry negative numbers; the only
modelled function with a branch for them is `categorize_substances`: "Expected positive stoichiometric coefficients" when a
TOTAL (active + inactive) reactant or product coefficient of a substance of the system is negative. -/

abbrev SStoich := List (String × Int)

def SStoich.get (s : SStoich) (k : String) : Int :=
  match s.lookup k with
  | some v => v
  | none => 0

structure SRxn where
  reac : SStoich
  prod : SStoich
  inactReac : SStoich
  inactProd : SStoich
  param : Option Int
  name : Option String
  paramB : Option Int
  isEq : Bool
deriving Repr

def SStoich.toStoich? (s : SStoich) : Option Stoich :=
  s.mapM fun kv => if 0 ≤ kv.2 then some (kv.1, kv.2.toNat) else none

def SRxn.toRxn? (r : SRxn) : Option Rxn :=
  match r.reac.toStoich?, r.prod.toStoich?, r.inactReac.toStoich?, r.inactProd.toStoich? with
  | some a, some b, some c, some d =>
    some { reac := a, prod := b, inactReac := c, inactProd := d, param := r.param, name := r.name, paramB := r.paramB, isEq := r.isEq }
  | _, _, _, _ => none

inductive SCatErr where
  | cat (e : CatErr)
  | negative      -- ValueError "Expected positive stoichiometric coefficients"
  | unmodelled    -- a negative coefficient together with equilibria / requested checks / non-negative totals: not generated
deriving DecidableEq, Repr

/-- `categorize_substances` for reactions whose coefficients may be negative: without a negative coefficient it is `categorize`;
    with one (plain reactions, `checks=()`) the code refuses as soon as some total over a substance of the system is negative. -/
def categorizeSigned (rxns : List SRxn) (substs : ODict) (checks : List Check) : Except SCatErr Categories :=
  match rxns.mapM SRxn.toRxn? with
  | some l => match categorize ⟨l, substs⟩ checks with
    | .ok c => .ok c
    | .error e => .error (.cat e)
  | none =>
    if rxns.any (·.isEq) || !checks.isEmpty then .error .unmodelled
    else if rxns.any fun r => (substs.map (·.1)).any fun k =>
        decide (r.reac.get k + r.inactReac.get k < 0) || decide (r.prod.get k + r.inactProd.get k < 0)
      then .error .negative
    else .error .unmodelled

/-! ### identify_equilibria (890-907) -/

/-- `rxn1.all_reac_stoich(S) == rxn2.all_prod_stoich(S) and rxn1.all_prod_stoich(S) == rxn2.all_reac_stoich(S)` -/
def isReverse (keys : List String) (r1 r2 : Rxn) : Bool :=
  keys.map r1.allReac == keys.map r2.allProd && keys.map r1.allProd == keys.map r2.allReac

/-- inner loop: first `ri2` (counting from `i`) that reverses `r1` -/
def firstReverse (keys : List String) (r1 : Rxn) (i : Nat) : List Rxn → Option Nat
  | [] => none
  | r2 :: t => if isReverse keys r1 r2 then some i else firstReverse keys r1 (i + 1) t

def identEqFrom (keys : List String) (i : Nat) : List Rxn → List (Nat × Nat)
  | [] => []
  | r1 :: t =>
    match firstReverse keys r1 (i + 1) t with
    | some j => (i, j) :: identEqFrom keys (i + 1) t
    | none => identEqFrom keys (i + 1) t

def identifyEquilibria (s : RSys) : List (Nat × Nat) := identEqFrom s.keys 0 s.rxns

/-! ### substance_participation (526-548), per_reaction_effect_on_substance (647-653) -/

def participationFrom (k : String) (i : Nat) : List Rxn → List Nat
  | [] => []
  | r :: t => if r.keys.contains k then i :: participationFrom k (i + 1) t else participationFrom k (i + 1) t

def substanceParticipation (s : RSys) (k : String) : List Nat := participationFrom k 0 s.rxns

def effectFrom (k : String) (i : Nat) : List Rxn → List (Nat × Int)
  | [] => []
  | r :: t => if r.net k ≠ 0 then (i, r.net k) :: effectFrom k (i + 1) t else effectFrom k (i + 1) t

/-- the dict `{ri: n}` in insertion (= index) order -/
def perReactionEffectOnSubstance (s : RSys) (k : String) : List (Nat × Int) := effectFrom k 0 s.rxns

/-! ### subset (423-456), concatenate (458-491), __add__/__iadd__/__eq__ (493-520) -/

/-- `new_substances(coll)` -/
def newSubstances (s : RSys) (coll : List Rxn) : ODict :=
  s.substs.filter fun kv => coll.any fun r => r.keys.contains kv.1

/-- `rsys.subset(pred, checks)`; `yes` is constructed first -/
def subset (s : RSys) (pred : Rxn → Bool) (checks : List Check := []) : Except Check (RSys × RSys) :=
  let yes := s.rxns.filter pred
  let no := s.rxns.filter fun r => !pred r
  match RSys.make yes (.odict (newSubstances s yes)) checks with
  | .error c => .error c
  | .ok y =>
    match RSys.make no (.odict (newSubstances s no)) checks with
    | .error c => .error c
    | .ok n => .ok (y, n)

/-- `subset` for an ARBITRARY (possibly stateful) predicate: the loop `for r in self.rxns: yes.append(r) if pred(r) else no.append(r)`
    consults the predicate exactly once per reaction, in order; `answers` are those answers. A stateful predicate (a seen-set, a
    counter, an iterator of booleans) is therefore described by its answer list; a missing answer (`answers` too short) cannot occur. -/
def subsetAnswers (s : RSys) (answers : List Bool) (checks : List Check := []) : Except Check (RSys × RSys) :=
  let yes := ((s.rxns.zip answers).filter fun p => p.2).map (·.1)
  let no := ((s.rxns.zip answers).filter fun p => !p.2).map (·.1)
  match RSys.make yes (.odict (newSubstances s yes)) checks with
  | .error c => .error c
  | .ok y =>
    match RSys.make no (.odict (newSubstances s no)) checks with
    | .error c => .error c
    | .ok n => .ok (y, n)

/-- `self + other` (505-515): new OrderedDict from the chained items, `checks=()`, no sorting -/
def add (a b : RSys) : RSys := ⟨a.rxns ++ b.rxns, odictOf (a.substs ++ b.substs)⟩

/-- `self + [rxn, ...]` (the AttributeError branch: `substances = self.substances.copy()`) -/
def addRxns (a : RSys) (l : List Rxn) : RSys := ⟨a.rxns ++ l, odictOf a.substs⟩

/-- `self += other` (493-503): in-place `update` / `extend`, no checks at all -/
def iadd (a b : RSys) : RSys := ⟨a.rxns ++ b.rxns, odictUpdate a.substs b.substs⟩

def iaddRxns (a : RSys) (l : List Rxn) : RSys := ⟨a.rxns ++ l, a.substs⟩

/-- the right operand of `+` / `+=` as ANY iterable (list, tuple, generator, `filter`, `map`, `iter`, `reversed`, dict values, …):
    it is materialised ONCE (`list(other)`), then validated (`all(isinstance(r, Reaction) …)`: an item that is no Reaction — `none`
    here — makes the whole operation raise ValueError, `self` untouched), then used. The container type is not observable. -/
def addItems (a : RSys) (items : List (Option Rxn)) : Option RSys :=
  if items.all Option.isSome then some (addRxns a (items.filterMap id)) else none

def iaddItems (a : RSys) (items : List (Option Rxn)) : Option RSys :=
  if items.all Option.isSome then some (iaddRxns a (items.filterMap id)) else none

def listPyEq : List Rxn → List Rxn → Bool
  | [], [] => true
  | a :: s, b :: t => a.pyEq b && listPyEq s t
  | _, _ => false

/-- `__eq__` (517-520): `self.rxns == other.rxns and self.substances == other.substances`
    (list `==` through `Reaction.__eq__`; OrderedDict `==` is order sensitive) -/
def RSys.pyEq (a b : RSys) : Bool := listPyEq a.rxns b.rxns && a.substs == b.substs

/-- `_pred` of `concatenate`: True iff no reaction of the accumulated system has the same four dicts -/
def concatPred (acc : RSys) (r : Rxn) : Bool := !(acc.rxns.any fun rr => r.sameStoich rr)

/-- loop body of `concatenate`: `yes, no = rs.subset(_pred); rsys = rsys + yes; skipped += no`
    (`rsys + yes` builds a NEW system, `skipped` is the fresh `ReactionSystem([])` of this call) -/
def concatStep (st : RSys × RSys) (rs : RSys) : RSys × RSys :=
  match subset rs (concatPred st.1) [] with
  | .ok (y, n) => (add st.1 y, iadd st.2 n)
  | .error _ => st   -- unreachable: `checks=()` never raises

/-- `ReactionSystem.concatenate(rsystems)`; `none` for an empty iterable (`next` raises StopIteration).
    No argument is modified; for a one-element iterable the first result IS that element (same object),
    otherwise it is a new system. -/
def concatenate : List RSys → Option (RSys × RSys)
  | [] => none
  | first :: rest => some (rest.foldl concatStep (first, ⟨[], []⟩))

/-! ### per-substance containers (564-645) -/

inductive ContErr where
  | keyError | valueError
deriving DecidableEq, Repr

/-- `[cont[k] for k in substance_keys]` -/
def lookupAll {α : Type} (cont : List (String × α)) : List String → Option (List α)
  | [] => some []
  | k :: t => match cont.lookup k, lookupAll cont t with
    | some v, some l => some (v :: l)
    | _, _ => none

/-- `as_per_substance_array(cont: dict, raise_on_unk)`: values in substance order -/
def asPerSubstanceArrayDict {α : Type} (s : RSys) (cont : List (String × α)) (raiseOnUnk : Bool := false) :
    Except ContErr (List α) :=
  if raiseOnUnk && cont.any (fun kv => !s.keys.contains kv.1) then .error .keyError
  else match lookupAll cont s.keys with
    | none => .error .keyError
    | some l => .ok l     -- `len == ns` by construction

/-- the same for a `collections.defaultdict`: `cont[k]` CREATES a missing key with the default instead of raising
    (the documented way to call `upper_conc_bounds`); the `raise_on_unk` scan comes first -/
def asPerSubstanceArrayDefaultDict {α : Type} (s : RSys) (cont : List (String × α)) (dflt : α) (raiseOnUnk : Bool := false) :
    Except ContErr (List α) :=
  if raiseOnUnk && cont.any (fun kv => !s.keys.contains kv.1) then .error .keyError
  else asPerSubstanceArrayDict s
    (cont ++ (s.keys.filter fun k => !(cont.any fun kv => kv.1 == k)).map fun k => (k, dflt)) false

/-- `as_per_substance_array(cont: flat sequence)`: only the size check (list, tuple, deque, ndarray alike; one-shot iterators
    are not array_like: numpy wraps them into a 0-d object array — TypeError for the default float dtype) -/
def asPerSubstanceArrayList {α : Type} (s : RSys) (cont : List α) : Except ContErr (List α) :=
  if cont.length = s.ns then .ok cont else .error .valueError

/-- `as_per_substance_dict(arr)` = `dict(zip(keys, arr))` (silently truncating) -/
def asPerSubstanceDict {α : Type} (s : RSys) (arr : List α) : List (String × α) := s.keys.zip arr

/-- `as_substance_index(key: str)`: `list.index`, ValueError (`none`) when absent -/
def asSubstanceIndex (s : RSys) (k : String) : Option Nat :=
  let i := s.keys.findIdx (· == k)
  if i < s.keys.length then some i else none

/-- rows of `per_substance_varied(base, varied)[0].reshape(-1, ns)` (C order) for `varied` given as a dict in
    insertion order; `none` when a varied key is not a substance (`tuple.index` raises ValueError).
    Axis order = substance order of the varied keys. -/
def variedRows {α : Type} (base : List (String × α)) : List (String × List α) → List (List (String × α))
  | [] => [base]
  | (k, vals) :: t =>
    vals.flatMap fun v => (variedRows base t).map fun row => row.map fun kv => if kv.1 = k then (k, v) else kv

inductive VariedErr where
  | valueError   -- wrong size of `per_substance`, or `varied_keys.index(k)` for a `k` that is no substance
  | indexError   -- numpy "too many indices": `n_varied = len(varied)` counts unknown keys, the array does not
deriving DecidableEq, Repr

/-- the loop `for k, vals in varied.items()` (637-644) when `varied` holds a key that is no substance:
    which exception comes first -/
def variedFailure (keys : List String) : List (String × List α) → VariedErr
  | [] => .valueError   -- not reached (called only when an unknown key exists)
  | (k, vals) :: t =>
    if !keys.contains k then .valueError
    else if vals.isEmpty then variedFailure keys t
    else .indexError

def perSubstanceVaried {α : Type} (s : RSys) (base : List α) (varied : List (String × List α)) :
    Except VariedErr (List (List α) × List String) :=
  if base.length ≠ s.ns then .error .valueError
  else if varied.any (fun kv => !s.keys.contains kv.1) then .error (variedFailure s.keys varied)
  else
    let vkeys := s.keys.filter fun k => varied.any fun kv => kv.1 == k
    let ordered := vkeys.filterMap fun k => (varied.lookup k).map fun v => (k, v)
    .ok ((variedRows (s.keys.zip base) ordered).map (fun row => row.map (·.2)), vkeys)

/-! ### upper_conc_bounds (776-832), exact over `Rat` -/

inductive BoundErr where
  | container (e : ContErr)   -- from `as_per_substance_array`
  | attributeError            -- a substance without composition (`None.items()`)
  | zeroDivision              -- a composition entry (key ≠ 0) with coefficient 0
deriving DecidableEq, Repr

/-- contribution of one substance to `composition_conc[k]` (816-820): `coeff * conc` for its entry with key `k`,
    unless `k in skip_keys` -/
def compContribution (skip : List Nat) (k : Nat) (conc : Rat) (comp : Comp) : Rat :=
  (comp.map fun kv => if kv.1 = k ∧ ¬ skip.contains kv.1 then (kv.2 : Rat) * conc else 0).sum

/-- `composition_conc[k]` after the first loop (a `defaultdict(float)`: 0 when never touched) -/
def elementTotal (skip : List Nat) (cs : List (Rat × Comp)) (k : Nat) : Rat :=
  (cs.map fun p => compContribution skip k p.1 p.2).sum

/-- lines 823-827: `composition_conc[comp_nr] / coeff` for every entry with `comp_nr != 0` (hard-coded 0,
    NOT `skip_keys`) -/
def chooseFrom (total : Nat → Rat) : Comp → Except BoundErr (List Rat)
  | [] => .ok []
  | (k, v) :: t =>
    if k = 0 then chooseFrom total t
    else if v = 0 then .error .zeroDivision
    else match chooseFrom total t with
      | .error e => .error e
      | .ok l => .ok (total k / (v : Rat) :: l)

/-- Python's `min` over a non-empty list: keeps the first of equal candidates -/
def minOf (x : Rat) : List Rat → Rat
  | [] => x
  | y :: t => minOf (if y < x then y else x) t

/-- lines 828-831: `inf` (`none`) for an empty candidate list -/
def boundOf (l : List Rat) : Option Rat :=
  match l with
  | [] => none
  | x :: t => some (minOf x t)

def allComps : List Subst → Option (List Comp)
  | [] => some []
  | s :: t => match s.comp, allComps t with
    | some c, some l => some (c :: l)
    | _, _ => none

def boundsLoop (total : Nat → Rat) : List Comp → Except BoundErr (List (Option Rat))
  | [] => .ok []
  | c :: t => match chooseFrom total c with
    | .error e => .error e
    | .ok l => match boundsLoop total t with
      | .error e => .error e
      | .ok bs => .ok (boundOf l :: bs)

/-- `upper_conc_bounds(init_concs: flat sequence, skip_keys=skip)` -/
def upperConcBounds (s : RSys) (init : List Rat) (skip : List Nat := [0]) :
    Except BoundErr (List (Option Rat)) :=
  match asPerSubstanceArrayList s init with
  | .error e => .error (.container e)
  | .ok concs =>
    match allComps (s.substs.map (·.2)) with
    | none => .error .attributeError
    | some comps => boundsLoop (elementTotal skip (concs.zip comps)) comps

/-! ### histories of add / iadd / subset / split / concatenate over a store of systems -/

/-- predicates on reactions offered to the driver (the theorems quantify over every `Rxn → Bool`) -/
inductive Pred where
  | hasKey (k : String)
  | orderLe (n : Nat)          -- `sum(r.reac.values()) <= n`
  | named                      -- `r.name is not None`
  | paramEven                  -- `r.param is not None and r.param % 2 == 0`
  | not (p : Pred)
deriving Repr

def Pred.eval : Pred → Rxn → Bool
  | .hasKey k, r => r.keys.contains k
  | .orderLe n, r => decide ((r.reac.map (·.2)).sum ≤ n)
  | .named, r => r.name.isSome
  | .paramEven, r => match r.param with | some p => decide (p % 2 = 0) | none => false
  | .not p, r => !(p.eval r)

inductive HOp where
  | add (i j : Nat)              -- store.append(store[i] + store[j])
  | iadd (i j : Nat)             -- store[i] += store[j]
  | subset (i : Nat) (p : Pred)  -- store.extend(store[i].subset(p))
  | split (i : Nat)              -- store.extend(store[i].split(checks=()))
  | query (i : Nat)              -- store[i].categorize_substances(checks=(), missing_substances_from_keys=…, sort_substances=…): a
                                 -- query; whatever it returns or raises, the store is left as it is
  | concat (is : List Nat)       -- a, b = concatenate([store[k] for k in is]); store.append(a) unless len(is) == 1 (then a IS store[is[0]]); store.append(b)
deriving Repr

inductive HErr where
  | index | split | empty
deriving Repr

def getAll (store : List RSys) : List Nat → Option (List RSys)
  | [] => some []
  | i :: t => match store[i]?, getAll store t with
    | some s, some l => some (s :: l)
    | _, _ => none

def runOp (store : List RSys) : HOp → Except HErr (List RSys)
  | .add i j => match store[i]?, store[j]? with
    | some a, some b => .ok (store ++ [add a b])
    | _, _ => .error .index
  | .iadd i j => match store[i]?, store[j]? with
    | some a, some b => .ok (store.set i (iadd a b))
    | _, _ => .error .index
  | .subset i p => match store[i]? with
    | some a => match subset a p.eval [] with
      | .ok (y, n) => .ok (store ++ [y, n])
      | .error _ => .error .split
    | none => .error .index
  | .split i => match store[i]? with
    | some a => match split a [] with
      | .ok l => .ok (store ++ l.map (·.2))
      | .error _ => .error .split
    | none => .error .index
  | .query i => match store[i]? with
    | some _ => .ok store
    | none => .error .index
  | .concat is => match getAll store is with
    | some l => match concatenate l with
      | some (a, b) => .ok (if l.length = 1 then store ++ [b] else store ++ [a, b])
      | none => .error .empty
    | none => .error .index

def runHistory (store : List RSys) : List HOp → Except HErr (List RSys)
  | [] => .ok store
  | op :: t => match runOp store op with
    | .error e => .error e
    | .ok st => runHistory st t

end ChemModel.RSysGraph
