/-
Executable model of chempy's mass-action kinetics and balance checking (C03, C05; imported by C04, C06).

Mirrors (line numbers of the pinned tree):
* `chempy/chemistry.py`       Reaction.keys / net_stoich / all_*_stoich / active_*_stoich (643-683),
                              Reaction._violation, mass_balance_violation, charge_neutrality_violation (845-879),
                              Reaction.composition_violation (881-911), Reaction.rate_expr / rate (913-986),
                              Substance.composition_keys (217-227)
* `chempy/kinetics/rates.py`  MassAction.active_conc_prod / rate_coeff / __call__ (191-206)
* `chempy/reactionsystem.py`  check_balance (322-354), rates incl. CSTR term (655-705), _stoichs / net_stoichs … (707-727),
                              composition_balance_vectors (747-772), as_substance_index (599-604)
* `chempy/kinetics/ode.py`    law_of_mass_action_rates (41-87, plain-parameter branch), dCdt_list (90-111),
                              analytic_solver inside get_odesys.linear_dependencies (439-470)
* `chempy/util/stoich.py`     get_coeff_mtx (11-32)

Conventions
* `σ` is the type of dictionary keys (substance names and parameter names; `String` in the driver), `α` the number type
  (`Rat` in the driver, any commutative ring in the proofs).  Only core classes are used: `Add Sub Mul NatCast IntCast`
  (+ `Div` for the elimination formula, `DecidableEq α` where the code compares with `0`).
* A Python `dict`/`OrderedDict` is an association list in insertion order; the dictionary operations used by the code
  (`d.get(k, 0)`, `k in d`, `d[k] = v`, `d[k] = d[k] + v`) are `dget?/dgetD/dmem/dset/dacc` below.  A Python dict has unique keys;
  the functions are total on arbitrary lists (the first entry of a key wins) and the drivers reject duplicate keys.
* Stoichiometric coefficients are natural numbers: `Reaction.check_all_positive` / `check_all_integral` (default checks)
  reject anything else, and an exponent must be a natural number for `c ** ν` to stay inside a ring.
* The rate parameter is a plain number (the branch `MassAction([param])` of `rate_expr`); `Expr` parameters are C16's subject.
* Functions of the "dict path" take the variables as a total function `vars : σ → α`; the only way the Python code fails on
  well-formed numeric input is a `KeyError` for a missing variable — that guard is modelled by `missingVars` / `ratesDict`.
* Errors of the array path and of the composition helpers are explicit (`Err`), never defaulted.
-/
import ChemModel.Basic.Num

namespace ChemModel.Kinetics

/-! ## Python dictionaries as association lists -/
section Dict
variable {σ β : Type} [DecidableEq σ]

/-- `d.get(k)` → `None`/value (first entry of the key) -/
def dget? : List (σ × β) → σ → Option β
  | [], _ => none
  | (k, v) :: t, s => if k = s then some v else dget? t s

/-- `d.get(k, dflt)` -/
def dgetD (d : List (σ × β)) (k : σ) (dflt : β) : β :=
  match dget? d k with
  | some v => v
  | none => dflt

/-- `k in d` -/
def dmem (d : List (σ × β)) (k : σ) : Bool := (dget? d k).isSome

/-- `list(d.keys())` -/
def dkeys (d : List (σ × β)) : List σ := d.map Prod.fst

/-- `d[k] = v` (an existing key keeps its position) -/
def dset : List (σ × β) → σ → β → List (σ × β)
  | [], k, v => [(k, v)]
  | (k', v') :: t, k, v => if k' = k then (k', v) :: t else (k', v') :: dset t k v

/-- `if k not in d: d[k] = v` / `else: d[k] = d[k] + v`  (the accumulation of `ReactionSystem.rates`; written without `+=` since fix b24923c) -/
def dacc [Add β] : List (σ × β) → σ → β → List (σ × β)
  | [], k, v => [(k, v)]
  | (k', v') :: t, k, v => if k' = k then (k', v' + v) :: t else (k', v') :: dacc t k v

/-- `dict(pairs)` / a dict comprehension over `pairs` (later values overwrite, first position kept) -/
def dictOf (pairs : List (σ × β)) : List (σ × β) := pairs.foldl (fun d p => dset d p.1 p.2) []

/-- `keys.index(k)` (`None` = ValueError) -/
def indexOf? : List σ → σ → Option Nat
  | [], _ => none
  | k :: t, s => if k = s then some 0 else (indexOf? t s).map (· + 1)

/-- order-preserving removal of repeated keys (first occurrence kept) -/
def dedupKeys : List σ → List σ
  | [] => []
  | k :: t => k :: (dedupKeys t).filter (fun x => !(decide (x = k)))

end Dict

/-! ## Reactions -/

/-- `chempy.Reaction` restricted to what kinetics and balancing read: the four stoichiometry dictionaries and a plain
    rate parameter. -/
structure Reaction (σ α : Type) where
  reac : List (σ × Nat)
  prod : List (σ × Nat)
  inactReac : List (σ × Nat) := []
  inactProd : List (σ × Nat) := []
  param : α

section Stoich
variable {σ α : Type} [DecidableEq σ]

/-- the accumulation of `chempy.util.parsing._parse_multiplicity` (parsing.py:421-455) over the terms written on one side of
    a reaction string, each already split into (coefficient, key) — a bare `X` is `(1, X)`, `n X` / `n * X` is `(n, X)`:
    `if key not in result: result[key] = 0` / `result[key] += n`.  Repeated terms ADD UP.  (The text level — splitting on
    `" + "`, `"->"`, parentheses for inactive terms — is C12's `Model/ReactionText.lean`; here only the multiset semantics.) -/
def mergeTerms (terms : List (Nat × σ)) : List (σ × Nat) :=
  terms.foldl (fun d t => dacc d t.2 t.1) []

/-- the reaction denoted by the written terms of a reaction string: active / parenthesised (inactive) terms of the left and the
    right side, merged side by side and kind by kind as `to_reaction` does (parsing.py:538-560) -/
def reactionOfTerms (reac prod inactReac inactProd : List (Nat × σ)) (param : α) : Reaction σ α :=
  { reac := mergeTerms reac, prod := mergeTerms prod, inactReac := mergeTerms inactReac, inactProd := mergeTerms inactProd,
    param := param }

/-- `d.get(k, 0)` on a stoichiometry dictionary -/
def coef (d : List (σ × Nat)) (k : σ) : Nat := dgetD d k 0

/-- `Reaction.keys()` (chemistry.py:643-651): the *set* of keys of the four dictionaries.  A Python set has no
    specified order (it depends on the string hash seed); the model lists first occurrences in chain order and every
    statement about it is order-free. -/
def rxnKeys (r : Reaction σ α) : List σ :=
  dedupKeys (dkeys r.reac ++ dkeys r.prod ++ dkeys r.inactReac ++ dkeys r.inactProd)

/-- one component of `Reaction.net_stoich` (chemistry.py:655-663):
    `prod.get(k,0) - reac.get(k,0) + inact_prod.get(k,0) - inact_reac.get(k,0)` -/
def netStoich (r : Reaction σ α) (k : σ) : Int :=
  (coef r.prod k : Int) - (coef r.reac k : Int) + (coef r.inactProd k : Int) - (coef r.inactReac k : Int)

/-- `Reaction.net_stoich(substance_keys)` -/
def netStoichTuple (r : Reaction σ α) (keys : List σ) : List Int := keys.map (netStoich r)
/-- `Reaction.all_reac_stoich` (chemistry.py:665-669) -/
def allReacStoich (r : Reaction σ α) (keys : List σ) : List Int :=
  keys.map fun k => ((coef r.reac k + coef r.inactReac k : Nat) : Int)
/-- `Reaction.active_reac_stoich` (chemistry.py:671-673) -/
def activeReacStoich (r : Reaction σ α) (keys : List σ) : List Int := keys.map fun k => ((coef r.reac k : Nat) : Int)
/-- `Reaction.all_prod_stoich` (chemistry.py:675-679) -/
def allProdStoich (r : Reaction σ α) (keys : List σ) : List Int :=
  keys.map fun k => ((coef r.prod k + coef r.inactProd k : Nat) : Int)
/-- `Reaction.active_prod_stoich` (chemistry.py:681-683) -/
def activeProdStoich (r : Reaction σ α) (keys : List σ) : List Int := keys.map fun k => ((coef r.prod k : Nat) : Int)

/-- `ReactionSystem._stoichs(attr, keys)` (reactionsystem.py:707-727): one row per reaction -/
def netStoichs (rs : List (Reaction σ α)) (keys : List σ) : List (List Int) := rs.map (netStoichTuple · keys)
def allReacStoichs (rs : List (Reaction σ α)) (keys : List σ) : List (List Int) := rs.map (allReacStoich · keys)
def activeReacStoichs (rs : List (Reaction σ α)) (keys : List σ) : List (List Int) := rs.map (activeReacStoich · keys)
def allProdStoichs (rs : List (Reaction σ α)) (keys : List σ) : List (List Int) := rs.map (allProdStoich · keys)
def activeProdStoichs (rs : List (Reaction σ α)) (keys : List σ) : List (List Int) := rs.map (activeProdStoich · keys)

/-- `chempy.util.stoich.get_coeff_mtx(substances, stoichs)` (stoich.py:11-32): rows = substances, columns = (reac, prod)
    pairs of integer dictionaries, entry `prod.get(sb, 0) - reac.get(sb, 0)`. -/
def getCoeffMtx (substances : List σ) (stoichs : List (List (σ × Int) × List (σ × Int))) : List (List Int) :=
  substances.map fun sb => stoichs.map fun rp => dgetD rp.2 sb 0 - dgetD rp.1 sb 0

end Stoich

/-! ## Rates: the dictionary path (`Reaction.rate`, `ReactionSystem.rates`) -/
section Rates
variable {σ α : Type} [DecidableEq σ] [Add α] [Sub α] [Mul α] [NatCast α] [IntCast α]

/-- `MassAction.active_conc_prod` (rates.py:191-195): `result = 1; for k, v in reaction.reac.items(): result = result * variables[k] ** v` (no in-place arithmetic since fix b24923c).
    Only `reac` is read: inactive reactants and all products never enter. -/
def activeConcProd (vars : σ → α) (r : Reaction σ α) : α :=
  r.reac.foldl (fun acc kv => acc * Num.npow (vars kv.1) kv.2) ((1 : Nat) : α)

/-- `MassAction.__call__` (rates.py:201-206) with `rate_coeff` = the plain parameter: `k * active_conc_prod` -/
def massAction (vars : σ → α) (r : Reaction σ α) : α := r.param * activeConcProd vars r

/-- `Reaction.rate(variables, substance_keys=keys)` (chemistry.py:981-986):
    `{k: srat * v for k, v in zip(substance_keys, self.net_stoich(substance_keys))}` -/
def rxnRate (vars : σ → α) (r : Reaction σ α) (keys : List σ) : List (σ × α) :=
  dictOf (keys.map fun k => (k, massAction vars r * ((netStoich r k : Int) : α)))

/-- `Reaction.rate(..., ratex=x)` with `x` not an `Expr` (chemistry.py:986-987: `srat = ratex`): the given number takes the
    place of the evaluated rate expression, the rest is unchanged -/
def rxnRateOf (srat : α) (r : Reaction σ α) (keys : List σ) : List (σ × α) :=
  dictOf (keys.map fun k => (k, srat * ((netStoich r k : Int) : α)))

/-- the forms of `Reaction.param` that `Reaction.rate_expr` (chemistry.py:917-946) turns into a mass-action expression:
    a plain number or `MassAction([k])` (`const`), or a string / the quoted `'k'` of a reaction line (`key`): the rate
    constant is then `variables[name]` -/
inductive Param (σ α : Type) where
  | const (k : α)
  | key (name : σ)

/-- the rate constant a parameter denotes for a `variables` dict; `none` = `KeyError` -/
def resolveParam (vars : List (σ × α)) : Param σ α → Option α
  | .const k => some k
  | .key name => dget? vars name

/-- the `substance_keys` a reaction sees inside `ReactionSystem.rates`: the given ones, or `self.keys()` when `None` -/
def keysFor (keys? : Option (List σ)) (r : Reaction σ α) : List σ :=
  match keys? with
  | some ks => ks
  | none => rxnKeys r

/-- inner loop of `ReactionSystem.rates` (reactionsystem.py:689-695): merge one reaction's rate dict into `result` -/
def accumulate (result : List (σ × α)) (items : List (σ × α)) : List (σ × α) :=
  items.foldl (fun d kv => dacc d kv.1 kv.2) result

/-- `ReactionSystem.rates` without the CSTR block (reactionsystem.py:685-695) -/
def sysRatesNoFeed (vars : σ → α) (rs : List (Reaction σ α)) (keys? : Option (List σ)) : List (σ × α) :=
  rs.foldl (fun result r => accumulate result (rxnRate vars r (keysFor keys? r))) []

/-- `cstr_fr_fc = (fr_key, fc)`: key of the flow/volume ratio and the ordered dict substance key ↦ feed-concentration key -/
structure Cstr (σ : Type) where
  frKey : σ
  fc : List (σ × σ)

/-- the CSTR block (reactionsystem.py:696-701): `feed = variables[fr_key] * (variables[fck] - variables[sk])`,
    `result[sk] = result[sk] + feed if sk in result else feed` -/
def addFeed (vars : σ → α) (result : List (σ × α)) (cs : Cstr σ) : List (σ × α) :=
  cs.fc.foldl (fun d kv => dacc d kv.1 (vars cs.frKey * (vars kv.2 - vars kv.1))) result

/-- `ReactionSystem.rates(variables, substance_keys=keys?, cstr_fr_fc=cstr?)` (reactionsystem.py:655-702), as the
    insertion-ordered dictionary it returns.  Without CSTR and with `substance_keys=None` only substances occurring in
    some reaction get an entry (an absent key means a zero contribution, see `valueAt`). -/
def sysRates (vars : σ → α) (rs : List (Reaction σ α)) (keys? : Option (List σ)) (cstr? : Option (Cstr σ)) :
    List (σ × α) :=
  match cstr? with
  | none => sysRatesNoFeed vars rs keys?
  | some cs => addFeed vars (sysRatesNoFeed vars rs keys?) cs

/-- the default stirred-tank description built by `get_odesys(rsys, cstr=True)` (ode.py:197-201):
    `("feedratio", OrderedDict([(sk, "fc_" + sk) for sk in rsys.substances]))` — EVERY substance of the system is fed,
    whatever kind of object (`Substance`, `Species` of any phase, …) it is. -/
def defaultCstr (frKey : σ) (feedName : σ → σ) (substanceKeys : List σ) : Cstr σ :=
  { frKey := frKey, fc := substanceKeys.map fun sk => (sk, feedName sk) }

/-- `ReactionSystem.rates(..., ratexs=l)`: `for rxn, ratex in zip(self.rxns, ratexs)` — a `ratexs` list SHORTER than the
    reaction list silently drops the remaining reactions (surplus entries are ignored); entries `None` mean "the reaction's
    own rate expression" -/
def sysRatesRatexs (vars : σ → α) (rs : List (Reaction σ α)) (nRatexs : Nat) (keys? : Option (List σ))
    (cstr? : Option (Cstr σ)) : List (σ × α) :=
  sysRates vars (rs.take nRatexs) keys? cstr?

/-- reading of a rate dictionary as a function on substances: an absent key contributes zero -/
def valueAt (d : List (σ × α)) (s : σ) : α := dgetD d s ((0 : Nat) : α)

/-! ### the `KeyError` guard -/

/-- all keys looked up in `variables` while `ReactionSystem.rates` runs: every active reactant of every reaction
    (`variables[k] ** v`, also for `v = 0`), and under CSTR the flow key, each feed key and each fed substance -/
def neededVars (rs : List (Reaction σ α)) (cstr? : Option (Cstr σ)) : List σ :=
  (rs.map fun r => dkeys r.reac).flatten ++
    (match cstr? with
     | none => []
     | some cs => (cs.fc.map fun kv => [cs.frKey, kv.2, kv.1]).flatten)

/-- first needed variable missing from the `variables` dict, if any -/
def missingVars (vars : List (σ × α)) (needed : List σ) : Option σ := needed.find? fun k => !(dmem vars k)

/-- `ReactionSystem.rates` on a `variables` *dict*: `none` = `KeyError`. The default of `dgetD` is unreachable under the guard. -/
def ratesDict (vars : List (σ × α)) (rs : List (Reaction σ α)) (keys? : Option (List σ)) (cstr? : Option (Cstr σ)) :
    Option (List (σ × α)) :=
  match missingVars vars (neededVars rs cstr?) with
  | some _ => none
  | none => some (sysRates (fun k => dgetD vars k ((0 : Nat) : α)) rs keys? cstr?)

/-- `Reaction.rate` on a `variables` dict: `none` = `KeyError` -/
def rateDict (vars : List (σ × α)) (r : Reaction σ α) (keys : List σ) : Option (List (σ × α)) :=
  match missingVars vars (dkeys r.reac) with
  | some _ => none
  | none => some (rxnRate (fun k => dgetD vars k ((0 : Nat) : α)) r keys)

/-- `Reaction.rate` on a `variables` dict for a reaction whose `param` is given in one of the forms of `Param`
    (`rate_expr` + `MassAction.__call__`): the rate constant is resolved first (`variables[name]` for a named constant), then the
    ordinary rate dict is built with it; `none` = `KeyError` -/
def rateDictP (vars : List (σ × α)) (p : Param σ α) (r : Reaction σ α) (keys : List σ) : Option (List (σ × α)) :=
  match resolveParam vars p with
  | none => none
  | some k => rateDict vars { r with param := k } keys

end Rates

/-! ## Rates: the array path (`law_of_mass_action_rates`, `dCdt_list`) -/

/-- error classes of the modelled functions -/
inductive Err where
  /-- `list.index` of an unknown key, or `zip(*{}.items())` unpacking nothing -/
  | valueError
  /-- a sequence shorter than the system -/
  | indexError
  /-- `None.get` — a substance without composition -/
  | attributeError
  /-- `variables[k]` for a missing key -/
  | keyError
  /-- subscripting a generator (`rates[idx_r]` when `rates` is the generator returned by `law_of_mass_action_rates`) -/
  | typeError
  deriving DecidableEq, Repr

section ArrayPath
variable {σ α : Type} [DecidableEq σ] [Add α] [Mul α] [NatCast α] [IntCast α]

/-- body of the plain-parameter branch of `law_of_mass_action_rates` (ode.py:81-85):
    `for substance_key, coeff in rxn.reac.items(): s_idx = rsys.as_substance_index(substance_key); rate *= conc[s_idx] ** coeff` -/
def lawRateAux (conc : List α) (keys : List σ) : List (σ × Nat) → α → Except Err α
  | [], acc => .ok acc
  | (k, v) :: t, acc =>
    match indexOf? keys k with
    | none => .error .valueError
    | some i =>
      match conc[i]? with
      | none => .error .indexError
      | some x => lawRateAux conc keys t (acc * Num.npow x v)

/-- one yielded value: `rate = 1; …; yield rate * rxn.param` -/
def lawRate (conc : List α) (keys : List σ) (r : Reaction σ α) : Except Err α :=
  match lawRateAux conc keys r.reac ((1 : Nat) : α) with
  | .ok p => .ok (p * r.param)
  | .error e => .error e

/-- `list(law_of_mass_action_rates(conc, rsys))` for plain parameters; `keys = rsys.substances.keys()` -/
def lawOfMassActionRates (conc : List α) (keys : List σ) : List (Reaction σ α) → Except Err (List α)
  | [] => .ok []
  | r :: rs =>
    match lawRate conc keys r with
    | .error e => .error e
    | .ok x =>
      match lawOfMassActionRates conc keys rs with
      | .error e => .error e
      | .ok xs => .ok (x :: xs)

/-- which branch of `law_of_mass_action_rates` (ode.py:70-84) a reaction's `param` takes -/
inductive ParamKind where
  /-- not a `RateExpr`: `rate = 1; rate *= conc[idx] ** coeff; yield rate * param` -/
  | plain
  /-- a `MassAction` instance: `rxn.param(dict(chain(variables.items(), zip(rsys.substances.keys(), conc))), reaction=rxn)` -/
  | massAction
  /-- any other `RateExpr`: `raise ValueError("Not mass-action rate in reaction %d")` -/
  | otherRateExpr
  deriving DecidableEq, Repr

/-- the `MassAction` branch: concentrations are looked up BY KEY in `dict(zip(keys, conc))` (a reactant that is no substance,
    or lies beyond a short `conc`, is a `KeyError`); value `k * ∏ c^ν` -/
def lawRateMassAction [Sub α] (conc : List α) (keys : List σ) (r : Reaction σ α) : Except Err α :=
  let vars := dictOf (keys.zip conc)
  match missingVars vars (dkeys r.reac) with
  | some _ => .error .keyError
  | none => .ok (massAction (fun k => dgetD vars k ((0 : Nat) : α)) r)

/-- `list(law_of_mass_action_rates(conc, rsys, variables={}))` with the kind of every reaction's parameter; the generator
    yields in order, so the first failing reaction decides the exception -/
def lawOfMassActionRatesK [Sub α] (conc : List α) (keys : List σ) : List (Reaction σ α × ParamKind) → Except Err (List α)
  | [] => .ok []
  | (r, kind) :: rs =>
    let head : Except Err α := match kind with
      | .plain => lawRate conc keys r
      | .massAction => lawRateMassAction conc keys r
      | .otherRateExpr => .error .valueError
    match head with
    | .error e => .error e
    | .ok x =>
      match lawOfMassActionRatesK conc keys rs with
      | .error e => .error e
      | .ok xs => .ok (x :: xs)

/-- the same with the DEFAULT `variables=None`: since the fix "law_of_mass_action_rates works with its default variables=None"
    the `MassAction` branch reads `(variables or {}).items()`, i.e. it behaves exactly as with `variables={}` -/
def lawOfMassActionRatesDefaultVars [Sub α] (conc : List α) (keys : List σ) (rs : List (Reaction σ α × ParamKind)) :
    Except Err (List α) :=
  lawOfMassActionRatesK conc keys rs

/-- inner loop of `dCdt_list` for one substance (ode.py:107-110): `f[idx_s] += net_stoichs[idx_r, idx_s] * rates[idx_r]`
    for `idx_r in range(rsys.nr)`; `rates` shorter than the reaction list is an `IndexError`, surplus entries are ignored -/
def dCdtEntry (s : σ) : List (Reaction σ α) → List α → α → Except Err α
  | [], _, acc => .ok acc
  | _ :: _, [], _ => .error .indexError
  | r :: rs, x :: xs, acc => dCdtEntry s rs xs (acc + ((netStoich r s : Int) : α) * x)

/-- `dCdt_list(rsys, rates)` (ode.py:90-111), `f = [0] * ns`, one entry per substance in substance order -/
def dCdtList (keys : List σ) (rs : List (Reaction σ α)) (rates : List α) : Except Err (List α) :=
  match keys with
  | [] => .ok []
  | s :: t =>
    match dCdtEntry s rs rates ((0 : Nat) : α) with
    | .error e => .error e
    | .ok x =>
      match dCdtList t rs rates with
      | .error e => .error e
      | .ok xs => .ok (x :: xs)

/-- `dCdt_list(rsys, rates)` when `rates` is the GENERATOR returned by `law_of_mass_action_rates` (the literal expression
    `dCdt_list(rsys, law_of_mass_action_rates(c, rsys))`): `rates = list(rates)` first consumes it (an exception of the generator
    surfaces here), then the ordinary loop runs -/
def dCdtListOfGenerator (keys : List σ) (rs : List (Reaction σ α)) (rates : Except Err (List α)) : Except Err (List α) :=
  match rates with
  | .error e => .error e
  | .ok xs => dCdtList keys rs xs

end ArrayPath

/-! ## Compositions and balance (C05)

`α` is the number type of composition amounts, `ρ` the (irrelevant) type of the reactions' rate parameters. -/

/-- `Substance.composition`: dict from composition key (atomic number, `0` = charge) to amount -/
abbrev Comp (α : Type) := List (Int × α)

/-- the ordered dict `rsys.substances`, reduced to key ↦ `composition` (`none` = `None`) -/
abbrev Substances (σ α : Type) := List (σ × Option (Comp α))

section Balance
variable {σ α ρ : Type} [DecidableEq σ]

/-- insertion into a strictly increasing list without repetition (`keys.add(k)` followed by `sorted`) -/
def insertKey (k : Int) : List Int → List Int
  | [] => [k]
  | h :: t => if k < h then k :: h :: t else if k = h then h :: t else h :: insertKey k t

/-- body of the loop of `composition_keys` for one substance: `if s.composition is None: continue`, else add its keys -/
def addCompKeys (acc : List Int) (oc : Option (Comp α)) : List Int :=
  match oc with
  | none => acc
  | some c => c.foldl (fun a kv => insertKey kv.1 a) acc

/-- `Substance.composition_keys(substances)` (chemistry.py:217-227): sorted set of the keys of all compositions that
    are not `None` -/
def compositionKeys (subs : Substances σ α) : List Int :=
  subs.foldl (fun acc s => addCompKeys acc s.2) []

/-- body of the loop of `composition_keys(substances, skip_keys)` for one substance: `if k in skip_keys: continue` inside the
    loop over the composition -/
def addCompKeysSkipping (skip : List Int) (acc : List Int) (oc : Option (Comp α)) : List Int :=
  match oc with
  | none => acc
  | some c => c.foldl (fun a kv => if skip.contains kv.1 then a else insertKey kv.1 a) acc

/-- `Substance.composition_keys(substances, skip_keys)` -/
def compositionKeysSkipping (skip : List Int) (subs : Substances σ α) : List Int :=
  subs.foldl (fun acc s => addCompKeysSkipping skip acc s.2) []

/-- `True` when some substance has `composition is None` -/
def firstWithoutComposition : Substances σ α → Option σ
  | [] => none
  | (k, none) :: _ => some k
  | (_, some _) :: t => firstWithoutComposition t

variable [Add α] [Mul α] [NatCast α] [IntCast α]

/-- `substance.composition.get(key, 0)` for a substance known to have a composition -/
def compGet (c : Comp α) (key : Int) : α := dgetD c key ((0 : Nat) : α)

/-- accumulation of one entry of `net` in `composition_violation` (chemistry.py:904-906):
    `net[idx] += substance.composition.get(key, 0) * coeff` over `zip(values, self.net_stoich(keys))`;
    a `None` composition is an `AttributeError` -/
def violationEntry (r : Reaction σ ρ) (key : Int) : Substances σ α → α → Except Err α
  | [], acc => .ok acc
  | (_, none) :: _, _ => .error .attributeError
  | (s, some c) :: t, acc => violationEntry r key t (acc + compGet c key * ((netStoich r s : Int) : α))

/-- the list `net` for given composition keys -/
def violationList (r : Reaction σ ρ) (subs : Substances σ α) : List Int → Except Err (List α)
  | [] => .ok []
  | key :: t =>
    match violationEntry r key subs ((0 : Nat) : α) with
    | .error e => .error e
    | .ok x =>
      match violationList r subs t with
      | .error e => .error e
      | .ok xs => .ok (x :: xs)

/-- `Reaction.composition_violation(substances, composition_keys)` (chemistry.py:881-911) returning `(net, composition_keys)`.
    `ckeys? = none` ↔ `composition_keys in (None, True)`.  `keys, values = zip(*substances.items())` fails with a
    `ValueError` on an empty substance dict. -/
def compositionViolation (r : Reaction σ ρ) (subs : Substances σ α) (ckeys? : Option (List Int)) :
    Except Err (List α × List Int) :=
  match subs with
  | [] => .error .valueError
  | _ :: _ =>
    let ck := match ckeys? with
      | some ck => ck
      | none => compositionKeys subs
    match violationList r subs ck with
    | .error e => .error e
    | .ok net => .ok (net, ck)

/-- outcome of `ReactionSystem.check_balance(strict, throw=True)`; with `throw=False` everything but `ok` is `False` -/
inductive BalanceResult (σ α : Type) where
  /-- returns `True` -/
  | ok
  /-- `ValueError("No composition for …")` (strict only) -/
  | noComposition (s : σ)
  /-- `ValueError("Composition violation (key: net) in <reaction number idx>")` -/
  | violation (idx : Nat) (key : Int) (net : α)
  /-- an exception escaping from `composition_violation` -/
  | raised (e : Err)
  deriving DecidableEq

/-- first `(net, k)` of `zip(net, keys)` with `net != 0` -/
def firstViolation [DecidableEq α] : List α → List Int → Option (Int × α)
  | n :: ns, k :: ks => if n ≠ ((0 : Nat) : α) then some (k, n) else firstViolation ns ks
  | _, _ => none

/-- the loop over `self.rxns` of `check_balance` (reactionsystem.py:342-353), `idx` = position of the reaction -/
def checkRxns [DecidableEq α] (subs : Substances σ α) : List (Reaction σ ρ) → Nat → BalanceResult σ α
  | [], _ => .ok
  | r :: rs, idx =>
    match compositionViolation r subs none with
    | .error e => .raised e
    | .ok (net, ck) =>
      match firstViolation net ck with
      | some (k, n) => .violation idx k n
      | none => checkRxns subs rs (idx + 1)

/-- `ReactionSystem.check_balance(strict)` (reactionsystem.py:322-354): a substance without composition makes the
    non-strict check accept everything; otherwise the first reaction and first composition key (in sorted order) with
    a non-zero net amount is reported. -/
def checkBalance [DecidableEq α] (subs : Substances σ α) (rs : List (Reaction σ ρ)) (strict : Bool) : BalanceResult σ α :=
  match firstWithoutComposition subs with
  | some s => if strict then .noComposition s else .ok
  | none => checkRxns subs rs 0

/-- `ReactionSystem.check_substance_keys` (reactionsystem.py:312-320): every key of the four dictionaries of every reaction is a
    key of `self.substances` -/
def checkSubstanceKeys (subs : Substances σ α) (rs : List (Reaction σ ρ)) : Bool :=
  rs.all fun r => (dkeys r.reac ++ dkeys r.prod ++ dkeys r.inactReac ++ dkeys r.inactProd).all fun k => dmem subs k

/-- `ReactionSystem.__init__` with `checks=None` (reactionsystem.py:116-121): every check of `default_checks =
    {balance, substance_keys, duplicate, duplicate_names}` is run with `throw=True`, so construction succeeds iff all four
    pass (the iteration order of the Python set only decides WHICH `ValueError` is seen).  `check_duplicate` (equal reactions)
    and `check_duplicate_names` are not modelled here: their joint outcome is the parameter `dupOk`. -/
def constructorAccepts [DecidableEq α] (subs : Substances σ α) (rs : List (Reaction σ ρ)) (dupOk : Bool) : Bool :=
  checkSubstanceKeys subs rs && dupOk &&
    (match checkBalance subs rs false with
     | .ok => true
     | _ => false)

/-- the constructor with the documented options `checks=` / `dont_check=` (reactionsystem.py:116-121):
    `checks = self.default_checks ^ (dont_check or set())` resp. the given `checks`; each selected check is run with
    `throw=True`.  `doBalance` / `doKeys`: whether `balance` / `substance_keys` are among the selected checks; `dupOk`: joint
    outcome of the selected ones of `duplicate`, `duplicate_names` (not modelled).  The selection is a function of the
    arguments of THIS call only — the class attribute `default_checks` is read, never written. -/
def constructorChecks [DecidableEq α] (doBalance doKeys : Bool) (subs : Substances σ α) (rs : List (Reaction σ ρ))
    (dupOk : Bool) : Bool :=
  (!doKeys || checkSubstanceKeys subs rs) && dupOk &&
    (!doBalance ||
      (match checkBalance subs rs false with
       | .ok => true
       | _ => false))

/-- one row of `composition_balance_vectors`: `[s.composition.get(k, 0) for s in subs]` -/
def balanceRow (key : Int) : Substances σ α → Except Err (List α)
  | [] => .ok []
  | (_, none) :: _ => .error .attributeError
  | (_, some c) :: t =>
    match balanceRow key t with
    | .error e => .error e
    | .ok xs => .ok (compGet c key :: xs)

def balanceRows (subs : Substances σ α) : List Int → Except Err (List (List α))
  | [] => .ok []
  | key :: t =>
    match balanceRow key subs with
    | .error e => .error e
    | .ok row =>
      match balanceRows subs t with
      | .error e => .error e
      | .ok rows => .ok (row :: rows)

/-- `ReactionSystem.composition_balance_vectors()` (reactionsystem.py:747-772): rows = sorted composition keys,
    columns = substances in substance order -/
def compositionBalanceVectors (subs : Substances σ α) : Except Err (List (List α) × List Int) :=
  let ck := compositionKeys subs
  match balanceRows subs ck with
  | .error e => .error e
  | .ok rows => .ok (rows, ck)

/-- `Reaction._violation(substances, attr)` (chemistry.py:845-851) behind `mass_balance_violation` /
    `charge_neutrality_violation`: `net = 0.0; net += getattr(substance, attr) * coeff`; `attrs` lists the attribute
    value per substance in substance order -/
def attrViolation (r : Reaction σ ρ) (attrs : List (σ × α)) : α :=
  attrs.foldl (fun acc sa => acc + sa.2 * ((netStoich r sa.1 : Int) : α)) ((0 : Nat) : α)

end Balance

/-! ## Analytic elimination from linear invariants (`linear_dependencies`, ode.py, `analytic_solver`)

The repaired solver (fix 16e59b0) works on the reduced matrix `rA` of the composition vectors in two phases:
(1) for every pivot row `ri` it scans the columns for the first non-zero entry whose substance is allowed, makes that
column a pivot column of the *current* matrix (normalise row `ri`, clear the column in every other row) and records
`(ri, idx)`; (2) for every recorded pair it offers `y idx = y₀ idx − Σ_{di ≠ idx} rA[ri, di]·(y di − y₀ di)`.
`Matrix.rref` itself is sympy's (delegated); the model starts from its output. -/
section Elim
variable {σ α : Type} [DecidableEq σ]

/-- a matrix as the list of its rows -/
abbrev Mat (α : Type) := List (List α)

/-- `rA[i, j]` (reads outside the matrix do not occur: every loop of the solver runs over `range(rows)`, `range(ny)`) -/
def entry [NatCast α] (M : Mat α) (i j : Nat) : α :=
  match M[i]? with
  | none => ((0 : Nat) : α)
  | some row =>
    match row[j]? with
    | none => ((0 : Nat) : α)
    | some x => x

/-- `_preferred is None or key in _preferred` -/
def allowed (preferred? : Option (List σ)) (key : σ) : Bool :=
  match preferred? with
  | none => true
  | some p => decide (key ∈ p)

/-- the scan `for idx in range(odesys.ny)` of one row: first column with a non-zero entry whose substance is allowed;
    `fuel` = number of columns left to scan -/
def chooseIdx [DecidableEq α] [NatCast α] (row : Nat → α) (names : Nat → σ) (preferred? : Option (List σ)) :
    (idx fuel : Nat) → Option Nat
  | _, 0 => none
  | idx, fuel + 1 =>
    if row idx ≠ ((0 : Nat) : α) ∧ allowed preferred? (names idx) = true then some idx
    else chooseIdx row names preferred? (idx + 1) fuel

/-- entry `(rj, di)` after "make `idx` the pivot column of row `ri`":
    `rA[ri, :] = rA[ri, :] / rA[ri, idx]`, then for every other row with `rA[rj, idx] != 0`:
    `rA[rj, :] = rA[rj, :] - rA[rj, idx] * rA[ri, :]` -/
def pivotEntry [DecidableEq α] [Sub α] [Mul α] [Div α] [NatCast α] (M : Mat α) (ri idx rj di : Nat) : α :=
  if rj = ri then entry M ri di / entry M ri idx
  else if entry M rj idx ≠ ((0 : Nat) : α) then entry M rj di - entry M rj idx * (entry M ri di / entry M ri idx)
  else entry M rj di

/-- the matrix (`m` rows, `ny` columns) after the pivot step -/
def pivotOn [DecidableEq α] [Sub α] [Mul α] [Div α] [NatCast α] (m ny : Nat) (M : Mat α) (ri idx : Nat) : Mat α :=
  (List.range m).map fun rj => (List.range ny).map fun di => pivotEntry M ri idx rj di

/-- argument validation of `linear_dependencies(preferred)` (ode.py:426-435), `false` = `ValueError`:
    an empty list, a list at least as long as the substance list, or an unknown substance key -/
def checkPreferred (preferred? : Option (List σ)) (substanceKeys : List σ) : Bool :=
  match preferred? with
  | none => true
  | some p => !(p.isEmpty) && decide (p.length < substanceKeys.length) && p.all fun k => substanceKeys.contains k

/-- phase 1, the loop `for ri in range(len(pivots))` with the shrinking `_preferred` list. Returns the final matrix, the
    recorded pairs `(ri, idx)` and what is left of `_preferred` (non-empty ⇒ `ValueError`). -/
def elimLoop [DecidableEq α] [Sub α] [Mul α] [Div α] [NatCast α] (m ny : Nat) (names : Nat → σ) :
    (ri fuel : Nat) → Mat α → Option (List σ) → Mat α × List (Nat × Nat) × Option (List σ)
  | _, 0, M, pref => (M, [], pref)
  | ri, fuel + 1, M, pref =>
    match chooseIdx (entry M ri) names pref 0 ny with
    | none => elimLoop m ny names (ri + 1) fuel M pref
    | some idx =>
      let res := elimLoop m ny names (ri + 1) fuel (pivotOn m ny M ri idx) (pref.map fun p => p.erase (names idx))
      (res.1, (ri, idx) :: res.2.1, res.2.2)

/-- phase 1 for `npiv = len(pivots)` pivot rows -/
def elimPlan [DecidableEq α] [Sub α] [Mul α] [Div α] [NatCast α] (m ny : Nat) (names : Nat → σ) (npiv : Nat) (M : Mat α)
    (preferred? : Option (List σ)) : Mat α × List (Nat × Nat) × Option (List σ) :=
  elimLoop m ny names 0 npiv M preferred?

/-- phase 2, the offered expression evaluated:
    `y0[idx] - sum(rA[ri, di]*(y[di] - y0[di]) for di in range(ny) if di != idx)` -/
def elimExpr [Add α] [Sub α] [Mul α] [NatCast α] (row y0 y : Nat → α) (ny idx : Nat) : α :=
  y0 idx - ((List.range ny).filter (fun di => di ≠ idx)).foldl
    (fun acc di => acc + row di * (y di - y0 di)) ((0 : Nat) : α)

end Elim

end ChemModel.Kinetics
