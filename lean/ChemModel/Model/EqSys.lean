/-
Model of the equilibrium residual functions of chempy (property C07; imported by C08).

Mirrors, for `new_eq_params = True` (the `rref_equil` / `rref_preserv` options: see the last section — the row
reduction itself is external and enters as a parameter):

* chempy/_util.py          `prodpow`, `vec_dot_vec`, `mat_dot_vec`
* chempy/chemistry.py      `equilibrium_quotient`, `Reaction._xprecipitate_stoich`,
                           `precipitate_stoich`, `non_precipitate_stoich`, `has_precipitates`,
                           `Substance.composition_keys`
* chempy/reactionsystem.py `stoichs`, `composition_balance_vectors`, `upper_conc_bounds`
* chempy/equilibria.py     `eq_constants`, `equilibrium_quotients`, `stoichs_constants` (rref=False),
                           `composition_conservation`, `phase_transfer_reaction_idxs`, `non_precip_rids`
* chempy/_eqsys.py         `_NumSys._get_A_ks`, `_inits_and_eq_params`, `NumSysLin.f`, `NumSysSquare.f`,
                           `NumSysLinRel.f`, `NumSysLog.f`
* pyneqsys/symbolic.py     `linear_exprs` (rref=False branch; external, 2 lines)

Import-free (core Lean + Basic/Num).  Number-generic: instantiate `α` with `Rat` (exact driver),
`Float` (driver for `NumSysLog`) or `ℝ` (Proofs/EqSys.lean).

Python behaviour mirrored as it is:
* parameter layout `params = init_concs ++ eq_params` (`params[:ns]`, `params[ns:]`);
* `x ** n` for an int `n`: repeated multiplication, `1 / x**|n|` for `n < 0`; a zero base with a
  negative exponent raises `ZeroDivisionError` (Fraction and float alike) → `.error "ZeroDivisionError"`;
* the residual of reaction i is `q/k - 1 if k != 0 else q`;
* `reduce(add, map(mul, row, vec))` has no start value: an empty row raises `TypeError`
  (`vecDotVec = none`); `sum([...])` in `linear_exprs` starts from `0`;
* a reaction whose index is in `non_precip_rids` contributes the row `-precipitate_stoich` and the
  constant `small` (class attribute: 0 for Lin/LinRel, 1e-35 for Square, exp(-36) for Log);
* a system without reactions: `NumSysLin.f` (hence Square, LinRel) raises — ValueError (numpy cannot broadcast
  `bases ** exponents` with an empty 1-D exponent array) for ns ≥ 2, TypeError (`prodpow` gives the scalar 1,
  which `zip` cannot iterate) for ns ≤ 1; `NumSysLog.f` returns the conservation block;
* `precipitate_stoich` raises NotImplementedError for two solids; with no solid it returns
  `net[-1]` (Python negative index; IndexError on an empty system).

Outside the modelled domain (the model answers `.error "shape"` / the harness never sends them):
`len(yvec) ≠ ns` or `len(params) ≠ ns + nr` (numpy broadcasting / silent zip truncation decide
what happens in Python), reaction keys that are not substance keys (excluded by the constructor's
`check_substance_keys`), species with `composition = None`, non-integer stoichiometric
coefficients or composition counts, `new_eq_params = False`, sympy's row reduction itself, `NumSysLinTanh` (its `f` raises TypeError for every system whose
species have a composition: `min_` is called with one argument but defined with two).
-/
import ChemModel.Basic.Num

namespace ChemModel.EqSys

/-! ## Data: species, reactions, system -/

/-- a `dict` from substance key to (integer) coefficient, in insertion order -/
abbrev Dict := List (String × Int)

/-- `d.get(k, 0)` -/
def dget (d : Dict) (k : String) : Int :=
  match d.lookup k with
  | some v => v
  | none => 0

/-- `Species`: `composition` (key 0 = charge, key z = atomic number; insertion order) and `phase_idx` -/
structure Species where
  comp : List (Nat × Int)
  phaseIdx : Nat := 0

/-- `composition.get(k, 0)` -/
def cget (c : List (Nat × Int)) (k : Nat) : Int :=
  match c.lookup k with
  | some v => v
  | none => 0

/-- `Reaction` / `Equilibrium`: the four coefficient dicts (the constant `param` travels in `params`) -/
structure Rxn where
  reac : Dict
  prod : Dict
  inactReac : Dict := []
  inactProd : Dict := []

/-- `EqSystem`: `rxns` and the ordered dict `substances` -/
structure EqSystem where
  rxns : List Rxn
  substances : List (String × Species)

def EqSystem.ns (s : EqSystem) : Nat := s.substances.length
def EqSystem.nr (s : EqSystem) : Nat := s.rxns.length

/-! ## Stoichiometry (integers only) -/

/-- the expression `prod.get(k,0) + inact_prod.get(k,0) - reac.get(k,0) - inact_reac.get(k,0)`
    of `Reaction._xprecipitate_stoich` (equal to an entry of `net_stoich`) -/
def netCoeff (r : Rxn) (k : String) : Int :=
  dget r.prod k + dget r.inactProd k - dget r.reac k - dget r.inactReac k

/-- `Reaction.net_stoich(substances.keys())` -/
def netStoich (r : Rxn) (subs : List (String × Species)) : List Int :=
  subs.map fun kv => netCoeff r kv.1

/-- `Reaction._xprecipitate_stoich(substances, xor)`:
    `0 if xor ^ (phase_idx > 0) else <net coefficient>` per substance -/
def xprecipitateStoich (r : Rxn) (subs : List (String × Species)) (xor : Bool) : List Int :=
  subs.map fun kv => if Bool.xor xor (decide (0 < kv.2.phaseIdx)) then 0 else netCoeff r kv.1

/-- `Reaction.non_precipitate_stoich` -/
def nonPrecipitateStoich (r : Rxn) (subs : List (String × Species)) : List Int :=
  xprecipitateStoich r subs false

/-- (index, value) of the non-zero entries, counting from `i` -/
def nonzeroEntries : Nat → List Int → List (Nat × Int)
  | _, [] => []
  | i, x :: xs => if x ≠ 0 then (i, x) :: nonzeroEntries (i + 1) xs else nonzeroEntries (i + 1) xs

/-- `Reaction.precipitate_stoich(substances)` → `(net, net[found1], found1)`.
    Two non-zero entries: NotImplementedError.  None: `found1 = -1`, so `net[-1]` is the LAST
    entry (IndexError if there is no substance). -/
def precipitateStoich (r : Rxn) (subs : List (String × Species)) :
    Except String (List Int × Int × Int) :=
  let net := xprecipitateStoich r subs true
  match nonzeroEntries 0 net with
  | [] => match net.getLast? with
    | none => .error "IndexError"
    | some v => .ok (net, v, -1)
  | [(i, v)] => .ok (net, v, (i : Int))
  | _ => .error "NotImplementedError"

/-- keys of a reaction in the order of `chain(reac, prod, inact_reac, inact_prod)` -/
def rxnKeys (r : Rxn) : List String :=
  r.reac.map (·.1) ++ r.prod.map (·.1) ++ r.inactReac.map (·.1) ++ r.inactProd.map (·.1)

/-- `Reaction.has_precipitates(substances)`.  (A key missing from `substances` would raise KeyError
    in Python; `check_substance_keys` of the constructor excludes that.) -/
def hasPrecipitates (r : Rxn) (subs : List (String × Species)) : Bool :=
  (rxnKeys r).any fun k => match subs.lookup k with
    | some sp => decide (0 < sp.phaseIdx)
    | none => false

/-- indices (from `i`) of the reactions that involve another phase -/
def phaseTransferAux (subs : List (String × Species)) : Nat → List Rxn → List Nat
  | _, [] => []
  | i, r :: rs => if hasPrecipitates r subs then i :: phaseTransferAux subs (i + 1) rs
                  else phaseTransferAux subs (i + 1) rs

/-- `EqSystem.phase_transfer_reaction_idxs()` -/
def phaseTransferReactionIdxs (s : EqSystem) : List Nat := phaseTransferAux s.substances 0 s.rxns

/-- `EqSystem.non_precip_rids(precipitates)`:
    `[idx for idx, precip in zip(phase_transfer_reaction_idxs(), precipitates) if not precip]` -/
def nonPrecipRids (s : EqSystem) (precipitates : List Bool) : List Nat :=
  ((phaseTransferReactionIdxs s).zip precipitates).filterMap fun ip => if ip.2 then none else some ip.1

/-- one row of `ReactionSystem.stoichs(non_precip_rids)` -/
def stoichRow (s : EqSystem) (rids : List Nat) (i : Nat) (r : Rxn) : Except String (List Int) :=
  if rids.contains i then
    match precipitateStoich r s.substances with
    | .ok (net, _, _) => .ok (net.map fun x => -x)
    | .error e => .error e
  else .ok (nonPrecipitateStoich r s.substances)

def stoichsAux (s : EqSystem) (rids : List Nat) : Nat → List Rxn → Except String (List (List Int))
  | _, [] => .ok []
  | i, r :: rs =>
    match stoichRow s rids i r with
    | .error e => .error e
    | .ok row =>
      match stoichsAux s rids (i + 1) rs with
      | .error e => .error e
      | .ok rows => .ok (row :: rows)

/-- `ReactionSystem.stoichs(non_precip_rids)` — "conditional stoichiometries depending on
    precipitation status": row i is `-precipitate_stoich` when `i ∈ non_precip_rids`, else
    `non_precipitate_stoich` -/
def stoichs (s : EqSystem) (rids : List Nat) : Except String (List (List Int)) :=
  stoichsAux s rids 0 s.rxns

/-- `ReactionSystem.net_stoichs()` -/
def netStoichs (s : EqSystem) : List (List Int) := s.rxns.map fun r => netStoich r s.substances

/-! ## Composition (conservation) matrix -/

/-- insertion into a sorted duplicate-free list (`sorted(set(...))`) -/
def insertSorted (k : Nat) : List Nat → List Nat
  | [] => [k]
  | x :: xs => if k < x then k :: x :: xs else if k = x then x :: xs else x :: insertSorted k xs

/-- `Substance.composition_keys(substances)` (no `skip_keys`): sorted set of all composition keys -/
def compositionKeys (subs : List Species) : List Nat :=
  subs.foldl (fun acc sp => sp.comp.foldl (fun acc kv => insertSorted kv.1 acc) acc) []

/-- `Substance.composition_keys(substances, skip_keys)`: as above, keys in `skip_keys` left out.
    (A substance with `composition = None` is skipped by the Python; it contributes nothing, like an empty dict.) -/
def compositionKeysSkip (subs : List Species) (skip : List Nat) : List Nat :=
  subs.foldl (fun acc sp => sp.comp.foldl (fun acc kv => if skip.contains kv.1 then acc else insertSorted kv.1 acc) acc) []

/-- `ReactionSystem.composition_balance_vectors()` → `(B, comp_keys)`;
    `B[k][j] = substances[j].composition.get(comp_keys[k], 0)` -/
def compositionBalanceVectors (s : EqSystem) : List (List Int) × List Nat :=
  let subs := s.substances.map (·.2)
  let ck := compositionKeys subs
  (ck.map fun k => subs.map fun sp => cget sp.comp k, ck)

/-! ## Numeric part, generic over the number type -/

section Numeric
variable {α : Type} [Add α] [Sub α] [Mul α] [Div α] [Neg α] [NatCast α] [BEq α]

/-- the literals `0` and `1` -/
def zero : α := ((0 : Nat) : α)
def one : α := ((1 : Nat) : α)

/-- `x ** n` for a Python int `n` -/
def powInt (x : α) (n : Int) : α :=
  if n < 0 then one / Num.npow x n.natAbs else Num.npow x n.toNat

/-- does `bases ** row` raise ZeroDivisionError (zero base, negative exponent)? -/
def zeroDiv (bases : List α) (row : List Int) : Bool :=
  (bases.zip row).any fun be => be.1 == zero && decide (be.2 < 0)

/-- one entry of `prodpow(bases, exponents)`: `multiply.reduce(bases ** row)` -/
def prodPowRow (bases : List α) (row : List Int) : α :=
  (List.zipWith powInt bases row).foldl (· * ·) one

/-- `_util.prodpow(bases, exponents)` for a matrix of integer exponents -/
def prodPow (bases : List α) (A : List (List Int)) : Except String (List α) :=
  if A.any (zeroDiv bases) then .error "ZeroDivisionError" else .ok (A.map (prodPowRow bases))

/-- `chemistry.equilibrium_quotient(concs, stoich)` (1-D `concs`): `tot = 1; tot *= conc ** nr` -/
def equilibriumQuotient (concs : List α) (stoich : List Int) : Except String α :=
  if zeroDiv concs stoich then .error "ZeroDivisionError" else .ok (prodPowRow concs stoich)

/-- integer matrix entries as numbers (Python multiplies `int * number`) -/
def intRow (row : List Int) : List α := row.map Num.ofInt
def intMat (m : List (List Int)) : List (List α) := m.map intRow

/-- `_util.vec_dot_vec`: `reduce(add, map(mul, v1, v2))`; `none` = TypeError on an empty zip -/
def vecDotVec : List α → List α → Option α
  | a :: as, b :: bs => some ((List.zipWith (· * ·) as bs).foldl (· + ·) (a * b))
  | _, _ => none

/-- `_util.mat_dot_vec(mat, vec)` -/
def matDotVec : List (List α) → List α → Option (List α)
  | [], _ => some []
  | row :: rest, v =>
    match vecDotVec row v with
    | none => none
    | some d =>
      match matDotVec rest v with
      | none => none
      | some ds => some (d :: ds)

/-- `_util.mat_dot_vec(mat, vec, term)`: `vec_dot_vec(row, vec) + t for row, t in zip(mat, term)` -/
def matDotVecTerm : List (List α) → List α → List α → Option (List α)
  | row :: rest, v, t :: ts =>
    match vecDotVec row v with
    | none => none
    | some d =>
      match matDotVecTerm rest v ts with
      | none => none
      | some ds => some ((d + t) :: ds)
  | _, _, _ => some []

/-- `pyneqsys.symbolic.linear_exprs(B, x, b, rref=False)`:
    `[sum([x0*x1 for x0, x1 in zip(row, x)]) - v for row, v in zip(B, b)]` -/
def linearExprs (B : List (List Int)) (x : List α) (b : List α) : List α :=
  List.zipWith (fun row v => (List.zipWith (fun c xi => Num.ofInt c * xi) row x).foldl (· + ·) zero - v) B b

def eqConstantsAux (rids : List Nat) (small : α) : Nat → List α → List α
  | _, [] => []
  | i, k :: ks => (if rids.contains i then small else k) :: eqConstantsAux rids small (i + 1) ks

/-- `EqSystem.eq_constants(non_precip_rids, eq_params, small)`:
    `[small if idx in non_precip_rids else eq for idx, eq in enumerate(eq_params)]` -/
def eqConstants (rids : List Nat) (eqParams : List α) (small : α) : List α :=
  eqConstantsAux rids small 0 eqParams

/-- `EqSystem.equilibrium_quotients(concs)`: `equilibrium_quotient(concs, stoichs()[ri])` per reaction -/
def equilibriumQuotients (s : EqSystem) (concs : List α) : Except String (List α) :=
  match stoichs s [] with
  | .error e => .error e
  | .ok A => prodPow concs A

/-- the residual of one reaction in `NumSysLin.f`: `q / k - 1 if k != 0 else q` -/
def equilResidual (q k : α) : α := if k == zero then q else q / k - one

/-- `params[:ns]` -/
def initConcsOf (s : EqSystem) (params : List α) : List α := params.take s.ns
/-- `params[ns:]` -/
def eqParamsOf (s : EqSystem) (params : List α) : List α := params.drop s.ns

/-- the shapes for which the model speaks: `len(yvec) = ns`, `len(params) = ns + nr` -/
def shapeOk (s : EqSystem) (y params : List α) : Bool :=
  y.length == s.ns && params.length == s.ns + s.nr

/-- `NumSysLin.f(yvec, params)` with `rref_equil = rref_preserv = False`, `new_eq_params = True`.
    `small` is the class attribute (`0` for NumSysLin), `precipitates` the constructor argument. -/
def numSysLinF (s : EqSystem) (precipitates : List Bool) (small : α) (y params : List α) :
    Except String (List α) :=
  if !shapeOk s y params then .error "shape" else
  -- no reaction: `stoichs()` is an empty 1-D array; `bases ** exponents` fails to broadcast for ns ≥ 2 (ValueError),
  -- for ns ≤ 1 `prodpow` returns the scalar 1 and `zip(1, ks)` raises TypeError
  if s.rxns.isEmpty then .error (if s.ns ≤ 1 then "TypeError" else "ValueError") else
  let rids := nonPrecipRids s precipitates
  let ks := eqConstants rids (eqParamsOf s params) small
  match stoichs s rids with
  | .error e => .error e
  | .ok A =>
    match prodPow y A with
    | .error e => .error e
    | .ok qs =>
      let B := (compositionBalanceVectors s).1
      match matDotVec (intMat B) (initConcsOf s params) with
      | none => .error "TypeError"
      | some b => .ok (List.zipWith equilResidual qs ks ++ linearExprs B y b)

/-- `NumSysSquare.f`: `NumSysLin.f(self, [yi*yi for yi in yvec], params)` (class attribute `small = 1e-35`) -/
def numSysSquareF (s : EqSystem) (precipitates : List Bool) (small : α) (y params : List α) :
    Except String (List α) :=
  numSysLinF s precipitates small (y.map fun yi => yi * yi) params

/-- `composition_conc` of `upper_conc_bounds`: for key `k`, `0.0 + Σ coeff*conc` over the species
    (in order) whose composition has the key -/
def compositionConc (subs : List Species) (init : List α) (k : Nat) : α :=
  ((subs.zip init).filterMap fun sc =>
      match sc.1.comp.lookup k with
      | some coeff => some (Num.ofInt coeff * sc.2)
      | none => none).foldl (· + ·) zero

/-- `ReactionSystem.upper_conc_bounds(init_concs, min_=Min)`: per substance the minimum over its
    non-charge composition keys of `composition_conc[key] / coeff`.
    A substance without such a key gets `float('inf')` in Python → `.error "inf"` (outside the model);
    a zero count → ZeroDivisionError. -/
def upperConcBounds [Min α] (s : EqSystem) (init : List α) : Except String (List α) :=
  let subs := s.substances.map (·.2)
  subs.mapM fun sp =>
    let keys := sp.comp.filter fun kv => kv.1 != 0
    if keys.any (fun kv => kv.2 == 0) then .error "ZeroDivisionError" else
    match keys.map fun kv => compositionConc subs init kv.1 / Num.ofInt kv.2 with
    | [] => .error "inf"
    | c :: cs => .ok (cs.foldl min c)

/-- `NumSysLinRel.f`: `NumSysLin.f(self, [m*yi for m, yi in zip(max_concs(params), yvec)], params)` -/
def numSysLinRelF [Min α] (s : EqSystem) (precipitates : List Bool) (small : α) (y params : List α) :
    Except String (List α) :=
  if !shapeOk s y params then .error "shape" else
  match upperConcBounds s (initConcsOf s params) with
  | .error e => .error e
  | .ok m => numSysLinF s precipitates small (List.zipWith (· * ·) m y) params

/-- `NumSysLog.f(yvec, params)` (`yvec = ln c`), `rref_* = False`:
    `mat_dot_vec(A, yvec, [-log(k) for k in ks]) + linear_exprs(B, exp(yvec), mat_dot_vec(B, init_concs))`.
    `log`/`exp` are those of the backend (numpy semantics: `log` of a non-positive number is nan or -inf,
    no exception).  `small` is `NumSysLog.small = exp(-36)`. -/
def numSysLogF [HasLog α] [HasExp α] (s : EqSystem) (precipitates : List Bool) (small : α)
    (y params : List α) : Except String (List α) :=
  if !shapeOk s y params then .error "shape" else
  let rids := nonPrecipRids s precipitates
  let ks := eqConstants rids (eqParamsOf s params) small
  match stoichs s rids with
  | .error e => .error e
  | .ok A =>
    match matDotVecTerm (intMat A) y (ks.map fun k => -(HasLog.log k)) with
    | none => .error "TypeError"
    | some fEquil =>
      let B := (compositionBalanceVectors s).1
      match matDotVec (intMat B) (initConcsOf s params) with
      | none => .error "TypeError"
      | some b => .ok (fEquil ++ linearExprs B (y.map HasExp.exp) b)

/-- `np.dot(B, v)` (start value 0) -/
def dotRow (row : List Int) (v : List α) : α :=
  (List.zipWith (fun c x => Num.ofInt c * x) row v).foldl (· + ·) zero

/-- `EqSystem.composition_conservation(concs, init_concs)` → `(comp_keys, B·concs, B·init_concs)` -/
def compositionConservation (s : EqSystem) (concs init : List α) : List Nat × List α × List α :=
  let (B, ck) := compositionBalanceVectors s
  (ck, B.map (dotRow · concs), B.map (dotRow · init))

/-! ## The `rref_equil` / `rref_preserv` configurations

The row reduction itself is EXTERNAL (`pyneqsys.symbolic.linear_rref` = sympy `Matrix.rref()` of the augmented
matrix, pivot rows only).  It is not modelled: its output `(rA, rb)` is a parameter (`Reduced`).  What chempy does
around it is modelled: which system is handed to it (`stoichs(non_precip_rids) | log ks`, resp. `B | B·c₀`), that the
reduced constants are `exp(rb)`, that the reduced rows (a plain list of lists, possibly with non-integer entries) are
used as exponents / coefficients, and `zip` truncation.  The theorems (Props/C07.lean) assume `RowEquiv` between the
input and the output of the reducer; the harness checks that hypothesis exactly on every generated instance. -/

/-- output `(rA, rb)` of the external `linear_rref(A, b)` -/
structure Reduced (α : Type) where
  rA : List (List α)
  rb : List α

/-- what `stoichs_constants(eq_params, rref=True)` hands to `linear_rref`: `(stoichs(non_precip_rids), map(log, eq_params))` -/
def rrefInputEquil [HasLog α] (A : List (List Int)) (ks : List α) : List (List α) × List α :=
  (intMat A, ks.map HasLog.log)

/-- `EqSystem.stoichs_constants(eq_params, rref=True)` given the reducer's output: `(rA.tolist(), list(map(exp, rb)))` -/
def stoichsConstantsRref [HasExp α] (red : Reduced α) : List (List α) × List α :=
  (red.rA, red.rb.map HasExp.exp)

/-- one entry of `prodpow(bases, A')` for a reduced (in general non-integer) exponent row: `x ** e` through `HasRPow`
    (defined for positive bases; a non-positive base under a fractional exponent is nan/complex in Python) -/
def prodPowRowR [HasRPow α] (bases row : List α) : α :=
  (List.zipWith HasRPow.rpow bases row).foldl (· * ·) one

/-- a row of `rA * Matrix(len(x), 1, x)` (start value 0) -/
def dotA (row x : List α) : α := (List.zipWith (· * ·) row x).foldl (· + ·) zero

/-- `linear_exprs(B, x, b, rref=True)` given the reducer's output for `(B, b)`:
    `[lhs - rhs for lhs, rhs in zip(rA * Matrix(len(x), 1, x), rb)]` -/
def linearExprsRref (red : Reduced α) (x : List α) : List α :=
  List.zipWith (· - ·) (red.rA.map (dotA · x)) red.rb

/-- the conservation block of every formulation: `linear_exprs(B, x, mat_dot_vec(B, init_concs), rref=rref_preserv)`
    (`mat_dot_vec(B, init_concs)` is evaluated in both cases) -/
def preservBlock (s : EqSystem) (rrefPreserv : Bool) (redP : Reduced α) (x params : List α) : Except String (List α) :=
  let B := (compositionBalanceVectors s).1
  match matDotVec (intMat B) (initConcsOf s params) with
  | none => .error "TypeError"
  | some b => .ok (if rrefPreserv then linearExprsRref redP x else linearExprs B x b)

/-- `NumSysLin.f(yvec, params)` with `rref_equil = False` in either `rref_preserv` configuration.  Needs rational
    arithmetic only (no `exp`/`log`/real powers), so it is instantiated with `Rat` and compared EXACTLY with the real
    code; it is `numSysLinCfgF … false rp …` (lemma `numSysLinCfgF_false_eq_rp`). -/
def numSysLinRpF (s : EqSystem) (precipitates : List Bool) (small : α) (rrefPreserv : Bool) (redP : Reduced α)
    (y params : List α) : Except String (List α) :=
  if !shapeOk s y params then .error "shape" else
  if s.rxns.isEmpty then .error (if s.ns ≤ 1 then "TypeError" else "ValueError") else
  let rids := nonPrecipRids s precipitates
  let ks := eqConstants rids (eqParamsOf s params) small
  match stoichs s rids with
  | .error e => .error e
  | .ok A =>
    match prodPow y A with
    | .error e => .error e
    | .ok qs =>
      match preservBlock s rrefPreserv redP y params with
      | .error e => .error e
      | .ok fp => .ok (List.zipWith equilResidual qs ks ++ fp)

/-- `NumSysSquare.f` with `rref_equil = False`, either `rref_preserv` -/
def numSysSquareRpF (s : EqSystem) (precipitates : List Bool) (small : α) (rrefPreserv : Bool) (redP : Reduced α)
    (y params : List α) : Except String (List α) :=
  numSysLinRpF s precipitates small rrefPreserv redP (y.map fun yi => yi * yi) params

/-- `NumSysLin.f(yvec, params)` in configuration `(rref_equil, rref_preserv)`; `redE` / `redP` are the reducer's
    outputs for the equilibrium / conservation system (ignored when the flag is off).  With both flags off this is
    `numSysLinF` (theorem `numSysLinCfgF_false_false`). -/
def numSysLinCfgF [HasRPow α] [HasExp α] (s : EqSystem) (precipitates : List Bool) (small : α)
    (rrefEquil rrefPreserv : Bool) (redE redP : Reduced α) (y params : List α) : Except String (List α) :=
  if !shapeOk s y params then .error "shape" else
  if s.rxns.isEmpty then .error (if s.ns ≤ 1 then "TypeError" else "ValueError") else
  let rids := nonPrecipRids s precipitates
  let ks := eqConstants rids (eqParamsOf s params) small
  match stoichs s rids with
  | .error e => .error e
  | .ok A =>
    let fEquil : Except String (List α) :=
      if rrefEquil then
        let Ak := stoichsConstantsRref redE
        .ok (List.zipWith equilResidual (Ak.1.map (prodPowRowR y)) Ak.2)
      else
        match prodPow y A with
        | .error e => .error e
        | .ok qs => .ok (List.zipWith equilResidual qs ks)
    match fEquil with
    | .error e => .error e
    | .ok fe =>
      match preservBlock s rrefPreserv redP y params with
      | .error e => .error e
      | .ok fp => .ok (fe ++ fp)

/-- `NumSysSquare.f` in configuration `(rref_equil, rref_preserv)` -/
def numSysSquareCfgF [HasRPow α] [HasExp α] (s : EqSystem) (precipitates : List Bool) (small : α)
    (rrefEquil rrefPreserv : Bool) (redE redP : Reduced α) (y params : List α) : Except String (List α) :=
  numSysLinCfgF s precipitates small rrefEquil rrefPreserv redE redP (y.map fun yi => yi * yi) params

/-- `NumSysLinRel.f` in configuration `(rref_equil, rref_preserv)` -/
def numSysLinRelCfgF [HasRPow α] [HasExp α] [Min α] (s : EqSystem) (precipitates : List Bool) (small : α)
    (rrefEquil rrefPreserv : Bool) (redE redP : Reduced α) (y params : List α) : Except String (List α) :=
  if !shapeOk s y params then .error "shape" else
  match upperConcBounds s (initConcsOf s params) with
  | .error e => .error e
  | .ok m => numSysLinCfgF s precipitates small rrefEquil rrefPreserv redE redP (List.zipWith (· * ·) m y) params

/-- `NumSysLog.f(yvec, params)` in configuration `(rref_equil, rref_preserv)` -/
def numSysLogCfgF [HasLog α] [HasExp α] (s : EqSystem) (precipitates : List Bool) (small : α)
    (rrefEquil rrefPreserv : Bool) (redE redP : Reduced α) (y params : List α) : Except String (List α) :=
  if !shapeOk s y params then .error "shape" else
  let rids := nonPrecipRids s precipitates
  let ks := eqConstants rids (eqParamsOf s params) small
  match stoichs s rids with
  | .error e => .error e
  | .ok A =>
    let Ak : List (List α) × List α := if rrefEquil then stoichsConstantsRref redE else (intMat A, ks)
    match matDotVecTerm Ak.1 y (Ak.2.map fun k => -(HasLog.log k)) with
    | none => .error "TypeError"
    | some fe =>
      match preservBlock s rrefPreserv redP (y.map HasExp.exp) params with
      | .error e => .error e
      | .ok fp => .ok (fe ++ fp)

/-- `EqSystem.eq_constants()` with its defaults (`non_precip_rids=()`, `eq_params=None`, `small=0`):
    `[eq.param for eq in self.rxns]`; `rxnParams` is that list of the reactions' own constants -/
def eqConstantsDefault (rxnParams : List α) : List α := eqConstants [] rxnParams zero

/-- the parameter vector `EqSystem.root / _solve` hands to the solver:
    `np.concatenate((init_concs, [float(elem) for elem in self.eq_constants()]))` -/
def solverParams (initConcs rxnParams : List α) : List α := initConcs ++ eqConstantsDefault rxnParams

/-! ## `new_eq_params = False`: the constants are the reactions' own -/

/-- `_inits_and_eq_params(params)` with `new_eq_params=False`: `eq_params = params[ns:]`, `assert not eq_params`
    (AssertionError when something follows the `ns` initial concentrations), then `eq_params = None`, so that
    `eq_constants(non_precip_rids, None, small)` takes `[eq.param for eq in self.rxns]` (`rxnParams`).  The result is the
    new-style parameter vector with exactly the same effect: `params ++ rxnParams`. -/
def ownParams (s : EqSystem) (rxnParams params : List α) : Except String (List α) :=
  if params.length > s.ns then .error "AssertionError"
  else if params.length < s.ns then .error "shape"
  else .ok (params ++ rxnParams)

/-- `NumSysLin(eqsys, new_eq_params=False).f(yvec, params)` -/
def numSysLinOwnF (s : EqSystem) (precipitates : List Bool) (small : α) (rxnParams y params : List α) :
    Except String (List α) :=
  match ownParams s rxnParams params with
  | .error e => .error e
  | .ok p => numSysLinF s precipitates small y p

/-- `NumSysSquare(eqsys, new_eq_params=False).f` -/
def numSysSquareOwnF (s : EqSystem) (precipitates : List Bool) (small : α) (rxnParams y params : List α) :
    Except String (List α) :=
  numSysLinOwnF s precipitates small rxnParams (y.map fun yi => yi * yi) params

/-- `NumSysLinRel(eqsys, new_eq_params=False).f` -/
def numSysLinRelOwnF [Min α] (s : EqSystem) (precipitates : List Bool) (small : α) (rxnParams y params : List α) :
    Except String (List α) :=
  match ownParams s rxnParams params with
  | .error e => .error e
  | .ok p => numSysLinRelF s precipitates small y p

/-- `NumSysLog(eqsys, new_eq_params=False).f` -/
def numSysLogOwnF [HasLog α] [HasExp α] (s : EqSystem) (precipitates : List Bool) (small : α)
    (rxnParams y params : List α) : Except String (List α) :=
  match ownParams s rxnParams params with
  | .error e => .error e
  | .ok p => numSysLogF s precipitates small y p

/-- `EqSystem.stoichs_constants()` with all defaults: `(stoichs(), eq_constants())` -/
def stoichsConstantsDefault (s : EqSystem) (rxnParams : List α) : Except String (List (List Int) × List α) :=
  match stoichs s [] with
  | .error e => .error e
  | .ok A => .ok (A, eqConstantsDefault rxnParams)

/-! ## The change of variables of each formulation (`pre_processor` / `post_processor`)

`pre_processor(x, params)` maps concentrations to the solver's variables, `post_processor` maps back.
The residual `f` is a function of the transformed variable. -/

/-- `abs` -/
def absV [LT α] [DecidableLT α] (x : α) : α := if x < zero then -x else x

/-- `NumSysSquare.pre_processor`: `np.sqrt(np.abs(x))` -/
def squarePre [LT α] [DecidableLT α] [HasSqrt α] (x : List α) : List α := x.map fun v => HasSqrt.sqrt (absV v)
/-- `NumSysSquare.post_processor`: `x ** 2` -/
def squarePost (y : List α) : List α := y.map fun v => v * v

/-- `NumSysLog.pre_processor`: `np.log(np.asarray(x) + NumSysLog.small)` ("zero conc. ~= small") -/
def logPre [HasLog α] (small : α) (x : List α) : List α := x.map fun v => HasLog.log (v + small)
/-- `NumSysLog.post_processor`: `np.exp(x)` -/
def logPost [HasExp α] (y : List α) : List α := y.map HasExp.exp

/-- `NumSysLinRel.pre_processor`: `x / self.max_concs(params)` (elementwise; `m = upper_conc_bounds(init_concs)`) -/
def linRelPre (m x : List α) : List α := List.zipWith (· / ·) x m
/-- `NumSysLinRel.post_processor`: `x * self.max_concs(params)` -/
def linRelPost (m y : List α) : List α := List.zipWith (· * ·) y m

/-! ## `equilibrium_quotient` for a 2-D array of concentrations (one state per row) -/

/-- `equilibrium_quotient(concs, stoich)` with `concs.ndim == 2`: `tot = ones(nrows)`, then per substance column
    `tot *= conc ** nr` — one quotient per row -/
def equilibriumQuotient2d (rows : List (List α)) (stoich : List Int) : Except String (List α) :=
  rows.mapM fun row => equilibriumQuotient row stoich

/-- `EqSystem.equilibrium_quotients(concs)` for 2-D `concs`: per reaction the list of per-row quotients -/
def equilibriumQuotients2d (s : EqSystem) (rows : List (List α)) : Except String (List (List α)) :=
  match stoichs s [] with
  | .error e => .error e
  | .ok A => A.mapM fun st => equilibriumQuotient2d rows st

end Numeric

/-! ## Decidable certificate for the reducer hypothesis (rational systems)

The rref theorems assume `RowEquiv` (Proofs/EqSys.lean) between what chempy hands to the external reducer and what
comes back.  For a rational augmented system — the conservation block `(B | B·c₀)` — that hypothesis can be CHECKED by
the model itself: given weight matrices `P` (reduced rows from the original ones) and `L` (back), `rowEquivCert`
verifies `(A'|b') = P·(A|b)` and `(A|b) = L·(A'|b')` row by row.  `rowEquivCert_sound` (Proofs) turns `= true` into
`RowEquiv`; the driver evaluates it on the real reducer output of every generated `rref_preserv` case. -/

/-- rational dot product `Σⱼ rowⱼ·vⱼ` -/
def dotQ (row v : List Rat) : Rat := (List.zipWith (· * ·) row v).sum

/-- the linear combination `Σᵢ wᵢ • Aᵢ` of rows of width `n` -/
def lincombQ : List Rat → List (List Rat) → Nat → List Rat
  | w :: ws, r :: rs, n => List.zipWith (· + ·) (r.map (w * ·)) (lincombQ ws rs n)
  | _, _, n => List.replicate n 0

/-- every `(row | β)` of `(A' | b')` is the combination of `(A | b)` with the weights in the matching row of `P` -/
def combosOk (P : List (List Rat)) (A : List (List Rat)) (b : List Rat) (n : Nat) :
    List (List Rat) → List Rat → Bool
  | row :: rows, β :: βs =>
    match P with
    | w :: ws => (row == lincombQ w A n && β == dotQ w b) && combosOk ws A b n rows βs
    | [] => false
  | _, _ => true

/-- the certificate: shapes, `(A'|b') = P·(A|b)` and `(A|b) = L·(A'|b')` -/
def rowEquivCert (n : Nat) (P L A : List (List Rat)) (b : List Rat) (A' : List (List Rat)) (b' : List Rat) : Bool :=
  A.length == b.length && A'.length == b'.length && A.all (fun r => r.length == n) && A'.all (fun r => r.length == n)
    && combosOk P A b n A' b' && combosOk L A' b' n A b

/-- the conservation system `(B | B·c₀)` that `linear_exprs(…, rref=True)` hands to the reducer, over ℚ -/
def preservSystemQ (s : EqSystem) (c0 : List Rat) : List (List Rat) × List Rat :=
  let B := (compositionBalanceVectors s).1
  (intMat B, B.map fun row => dotQ (intRow row) c0)

/-- certificate check for the conservation block of a system: is the reducer output `red` row-equivalent to `(B | B·c₀)`? -/
def preservCert (s : EqSystem) (c0 : List Rat) (P L : List (List Rat)) (red : Reduced Rat) : Bool :=
  rowEquivCert s.ns P L (preservSystemQ s c0).1 (preservSystemQ s c0).2 red.rA red.rb

/-! ### The same for the equilibrium block, in log coordinates

`ln K` is irrational, but for rational constants every `ln K_i` (and every entry of the reduced column) is a ℚ-combination
of `ln p` over finitely many primes: `ln K_i = Σ_k E_ik · ln p_k`.  The certificate works on the rational coordinate
matrices `E` (original) and `E'` (reduced): the SAME weights must combine the stoichiometry rows and the coordinate rows. -/

/-- rows of `(A' | E')` from rows of `(A | E)` with the weights in `P` -/
def combosOkE (P A E : List (List Rat)) (n m : Nat) : List (List Rat) → List (List Rat) → Bool
  | row :: rows, e :: es =>
    match P with
    | w :: ws => (row == lincombQ w A n && e == lincombQ w E m) && combosOkE ws A E n m rows es
    | [] => false
  | _, _ => true

/-- certificate for the equilibrium block: shapes, `(A'|E') = P·(A|E)`, `(A|E) = L·(A'|E')` -/
def equilCert (n m : Nat) (P L A E A' E' : List (List Rat)) : Bool :=
  A.length == E.length && A'.length == E'.length && A.all (fun r => r.length == n) && A'.all (fun r => r.length == n)
    && E.all (fun r => r.length == m) && E'.all (fun r => r.length == m)
    && combosOkE P A E n m A' E' && combosOkE L A' E' n m A E


/-- certificate check for the equilibrium block of a homogeneous system (rows = net stoichiometry) -/
def equilCertSys (s : EqSystem) (m : Nat) (P L E A' E' : List (List Rat)) : Bool :=
  equilCert s.ns m P L (intMat (netStoichs s)) E A' E'

/-! ### The constants as power products of integer bases (`ln K_i = Σ_k E_ik · ln p_k` certified) -/

/-- the rational bases `p₁, p₂, …` as numbers -/
def basesQ (ps : List Nat) : List Rat := ps.map fun (p : Nat) => (p : Rat)

/-- certificate that the constants are the power products `K_i = ∏_k p_k ^ E_ik` of positive integer bases -/
def ksCert (ps : List Nat) (E : List (List Int)) (ks : List Rat) : Bool :=
  ps.all (fun p => decide (0 < p)) && ks == E.map (prodPowRow (basesQ ps))


/-- the full model-side certificate for a `rref_equil` call of a homogeneous system: the constants are the stated
    power products AND the reduced rows / coordinates are row-equivalent to the original ones -/
def equilCertFull (s : EqSystem) (ps : List Nat) (E : List (List Int)) (ks : List Rat) (P L A' E' : List (List Rat)) : Bool :=
  ksCert ps E ks && equilCertSys s ps.length P L (intMat E) A' E'

end ChemModel.EqSys
