/-
Model of chempy.chemistry.balance_stoichiometry (chempy/chemistry.py), exact on ℚ, import-free.

The solver core (sympy `linsolve`, the expression surgery on its result, PuLP/CBC) is NOT
modelled.  It is a PARAMETER: a `Candidate` is whatever vector `sol` holds when control reaches
the line `fact = gcd(sol)`.  Everything chempy does itself around the solver is mirrored as it is:

* duplicate handling (`_intersect`, the "drop it completely" loop, the brute-force loop),
* `composition_keys`, the signed matrix `_get` (reactant columns negated),
* the per-component presence pre-check (incl. the `any_pos and any_neg` escape),
* the final normalisation `sol / gcd(sol)`, `sol /= reduce(gcd, sol)` for purely numeric vectors
  (sympy's rational gcd: gcd of numerators over lcm of denominators; `gcd_list` with its early exit),
* the checks: `0 in sol`, nan (mode True) / free symbols + residual (modes False, None), positivity,
* `_x(k) = sol[subst_keys.index(k)]`, `int(...)` in mode None, the two OrderedDicts.

Modes: `symbolic` = `underdetermined=True`, `strict` = `False`, `smallest` = `None`.
-/

namespace ChemModel.Balance

/-! ### vectors and matrices over ℚ -/

abbrev Vec := List Rat
/-- rows = composition keys, columns = species -/
abbrev Mat := List (List Rat)

def dot : List Rat → List Rat → Rat
  | a :: as, b :: bs => a * b + dot as bs
  | _, _ => 0

/-- number of columns as sympy sees it: `Matrix([])` is 0×0 -/
def cols : Mat → Nat
  | [] => 0
  | r :: _ => r.length

def wellFormed (A : Mat) : Bool := A.all fun r => r.length == cols A

/-- `all(residual == 0 for residual in A * x)` for a numeric `x` -/
def isBalanced (A : Mat) (x : Vec) : Bool := A.all fun r => dot r x == 0

/-! ### sympy's gcd on rational numbers -/

/-- `QQ.gcd(a, b)` = gcd of the numerators over lcm of the denominators (what `sympy.gcd(a, b)` returns for
    two Rationals / Integers) -/
def qgcd (a b : Rat) : Rat := ((Int.gcd a.num b.num : Nat) : Rat) / ((Nat.lcm a.den b.den : Nat) : Rat)

/-- the loop of `sympy.gcd_list.try_non_polynomial_gcd`: stops as soon as the running gcd is one -/
def gcdListLoop (result : Rat) : List Rat → Rat
  | [] => result
  | x :: xs =>
    let r := qgcd result x
    if r == 1 then r else gcdListLoop r xs

/-- `sympy.gcd(sol)` for a sequence of rational numbers (`fact = gcd(sol)`): the first number itself when
    alone (sign kept!), `0` for the empty sequence -/
def gcdList : List Rat → Rat
  | [] => 0
  | x :: xs => gcdListLoop x xs

/-- `functools.reduce(gcd, sol)`; `none` = TypeError on the empty sequence -/
def reduceGcd : List Rat → Option Rat
  | [] => none
  | x :: xs => some (xs.foldl qgcd x)

/-! ### entries of the solution vector -/

/-- what chempy's checks can distinguish in an entry of `sol` -/
inductive Entry
  | num (q : Rat)   -- a sympy Rational / Integer
  | sym             -- an expression with at least one free symbol
  | nan             -- sympy.nan (0/0)
  deriving DecidableEq, Repr, Inhabited

def Entry.isNum : Entry → Bool
  | .num _ => true
  | _ => false

/-- all entries numbers → the numbers -/
def nums? : List Entry → Option (List Rat)
  | [] => some []
  | .num q :: r => (nums? r).map (q :: ·)
  | _ :: _ => none

/-- sympy division of a number by a number: `x/0` is nan for x = 0 (zoo otherwise; that case cannot arise
    below because the divisor is a gcd of the dividends, it is mapped to `nan` = "not a finite number") -/
def divE (e d : Rat) : Entry := if d == 0 then .nan else .num (e / d)

/-- `fact = gcd(sol); sol = [e / fact for e in sol]` on a numeric vector -/
def stage1 (v : Vec) : List Entry :=
  let fact := gcdList v
  v.map (divE · fact)

inductive Err
  | valueError (tag : String)
  | notImplemented
  | keyError
  | typeError
  | shapeError
  | indexError
  | fuel               -- never produced with the fuel `balance` passes (model artefact)
  | untried            -- driver only: outcome table has no entry
  deriving DecidableEq, Repr

/-- `sol /= reduce(gcd, sol)` (then `nsimplify`, the identity on rationals).
    nan entries stay nan (`gcd(nan, nan) = nan`, `nan/nan = nan`). -/
def stage2 (u : List Entry) : Except Err (List Entry) :=
  match u with
  | [] => .error .typeError                         -- reduce() of empty iterable
  | _ =>
    match nums? u with
    | none => .ok u
    | some q =>
      match reduceGcd q with
      | none => .error .typeError
      | some g => .ok (q.map (divE · g))

/-- The value of `sol` at the line `fact = gcd(sol)`, as far as chempy's own code can tell. -/
inductive Candidate
  /-- every entry is a rational number (always so in mode None: `Tuple(*[Integer(x) ...])`; in the other
      modes whenever the surgery eliminated the parameter, i.e. on single-ray instances) -/
  | numeric (v : Vec)
  /-- some entry is not a number; `normalised` is what sympy's polynomial gcd normalisation
      (the two gcd lines + nsimplify) returned — not modelled -/
  | symbolic (normalised : List Entry)
  deriving Repr

inductive Mode
  | symbolic   -- underdetermined=True
  | strict     -- underdetermined=False
  | smallest   -- underdetermined=None
  deriving DecidableEq, Repr

/-- dot product of a matrix row with the entry vector: `none` when a nan takes part (nan ≠ 0);
    `sym` entries are excluded before this is called -/
def dotE : List Rat → List Entry → Option Rat
  | a :: as, .num b :: bs => (dotE as bs).map (a * b + ·)
  | _ :: _, _ :: _ => none
  | _, _ => some 0

/-- `if any(x.is_number and not x > 0 for x in sol): raise ValueError` — `nan > 0` raises TypeError -/
def positivity : List Entry → Except Err Unit
  | [] => .ok ()
  | .num q :: r => if 0 < q then positivity r else .error (.valueError "nonpositive")
  | .sym :: r => positivity r
  | .nan :: _ => .error .typeError

/-- the checks between `if 0 in sol` and the positivity check -/
def gateChecks (mode : Mode) (A : Mat) (sol : List Entry) : Except Err (List Entry) :=
  if sol.any (· == .num 0) then .error (.valueError "superfluous") else
  match mode with
  | .symbolic =>
    if sol.any (· == .nan) then .error (.valueError "failed") else
    match positivity sol with
    | .error e => .error e
    | .ok _ => .ok sol
  | _ =>
    if sol.any (· == .sym) then .error (.valueError "underdetermined") else
    if !(wellFormed A) || cols A != sol.length then .error .shapeError else     -- `A * sol`
    if !(A.all fun r => dotE r sol == some 0) then .error (.valueError "failed") else
    match positivity sol with
    | .error e => .error e
    | .ok _ => .ok sol

/-- chempy's gate around the solver: normalisation, then the checks. -/
def gate (mode : Mode) (A : Mat) (c : Candidate) : Except Err (List Entry) :=
  match c with
  | .numeric v =>
    match stage2 (stage1 v) with
    | .error e => .error e
    | .ok sol => gateChecks mode A sol
  | .symbolic s => gateChecks mode A s

/-! ### the problem: species, compositions, matrix, pre-check -/

/-- a composition dict: key (atomic number, 0 = charge) ↦ amount -/
abbrev Comp := List (Int × Rat)

/-- `composition.get(ck, 0)` -/
def Comp.get (c : Comp) (k : Int) : Rat :=
  match c.lookup k with
  | some v => v
  | none => 0

structure Problem where
  reactants : List String
  products : List String
  /-- the `substances` OrderedDict (may hold more substances than take part) -/
  substances : List (String × Comp)
  deriving Repr, DecidableEq

def insertSorted {α : Type} [LT α] [DecidableRel (α := α) (· < ·)] [DecidableEq α] (x : α) : List α → List α
  | [] => [x]
  | y :: r => if x = y then y :: r else if x < y then x :: y :: r else y :: insertSorted x r

/-- `sorted(set(l))` -/
def sortedSet {α : Type} [LT α] [DecidableRel (α := α) (· < ·)] [DecidableEq α] (l : List α) : List α :=
  l.foldl (fun acc x => insertSorted x acc) []

/-- `Substance.composition_keys(substances.values())` -/
def compositionKeys (substances : List (String × Comp)) : List Int :=
  sortedSet (substances.flatMap fun s => s.2.map (·.1))

/-- `[substances[k] for k in keys]`; `none` = KeyError -/
def lookupAll (substances : List (String × Comp)) : List String → Option (List Comp)
  | [] => some []
  | k :: r =>
    match substances.lookup k, lookupAll substances r with
    | some c, some cs => some (c :: cs)
    | _, _ => none

/-- one iteration of the loop "check that all components are present on reactant & product sides";
    arguments: the amounts of this component in the reactants and in the products -/
def precheckKey (rv pv : List Rat) : Except Err Unit :=
  if rv.all (· == 0) && !(pv.any (0 < ·) && pv.any (· < 0)) then .error (.valueError "not-among-reactants") else
  if pv.all (· == 0) && !(rv.any (0 < ·) && rv.any (· < 0)) then .error (.valueError "not-among-products") else
  .ok ()

def precheck (rc pc : List Comp) : List Int → Except Err Unit
  | [] => .ok ()
  | ck :: r =>
    match precheckKey (rc.map (·.get ck)) (pc.map (·.get ck)) with
    | .error e => .error e
    | .ok _ => precheck rc pc r

/-- `_get(ck, sk)`: the amount, negated when `sk in reactants` -/
def signedEntry (reactants : List String) (ck : Int) (sk : String) (c : Comp) : Rat :=
  c.get ck * (if reactants.contains sk then -1 else 1)

/-- `A = Matrix([[_get(ck, sk) for sk in subst_keys] for ck in cks])` followed by the entry-wise rationalisation
    `A.applyfunc(lambda e: nsimplify(e, rational=True))`: the identity on ints / Fractions; a float amount enters the model as
    the rational it denotes (its short decimal reading — supplied by the harness, checked against the spied matrix) -/
def matrix (reactants : List String) (keys : List String) (comps : List Comp) (cks : List Int) : Mat :=
  cks.map fun ck => (keys.zip comps).map fun p => signedEntry reactants ck p.1 p.2

/-- `int(coeff)`: truncation toward zero -/
def toInt (q : Rat) : Int := Int.tdiv q.num q.den

/-- `_x(k)`; `none` = IndexError / ValueError of `.index` -/
def coeffOf (mode : Mode) (keys : List String) (sol : List Entry) (k : String) : Option Entry :=
  let i := keys.findIdx (· == k)
  match sol[i]? with
  | none => none
  | some e =>
    match mode, e with
    | .smallest, .num q => some (.num (toInt q))
    | .smallest, _ => none
    | _, e => some e

/-- `OrderedDict([(k, _x(k)) for k in side])`: a repeated key keeps its first position -/
def mkDict (mode : Mode) (keys : List String) (sol : List Entry) : List String → Option (List (String × Entry))
  | [] => some []
  | k :: r =>
    match coeffOf mode keys sol k, mkDict mode keys sol r with
    | some e, some d => some ((k, e) :: d.filter (·.1 != k))
    | _, _ => none

abbrev Result := List (String × Entry) × List (String × Entry)

/-- the matrix and pre-check part (everything before the solver is called) -/
def setup (p : Problem) : Except Err Mat :=
  if p.reactants.any (p.products.contains ·) then .error (.valueError "both-sides") else
  match lookupAll p.substances p.reactants, lookupAll p.substances p.products with
  | some rc, some pc =>
    let cks := compositionKeys p.substances
    match precheck rc pc cks with
    | .error e => .error e
    | .ok _ => .ok (matrix p.reactants (p.reactants ++ p.products) (rc ++ pc) cks)
  | _, _ => .error .keyError

/-- how the caller supplied the compositions -/
inductive SubstArg
  | mapping                    -- `substances=<dict>`: used as it is
  | factory                    -- `substances=None`: `substance_factory(k) for k in chain(reactants, products)`
  | keys (ks : List String)    -- `substances='A B P'`: `substance_factory(k) for k in substances.split()`
  deriving Repr

/-- the key → composition resolution step (`if substances is None` / `if isinstance(substances, str)`).
    `table` is the explicit mapping (`mapping`) resp. the graph of THIS call's `substance_factory`
    (a key outside it: the factory raises, `none`). An OrderedDict keeps the first position of a repeated key. -/
def resolve (table : List (String × Comp)) (arg : SubstArg) (reac prod : List String) :
    Option (List (String × Comp)) :=
  match arg with
  | .mapping => some table
  | .factory => (lookupAll table (reac ++ prod)).map fun cs => (reac ++ prod).zip cs
  | .keys ks => (lookupAll table ks).map fun cs => ks.zip cs

/-- everything before the solver is called, from the arguments as passed: `_intersect` check, resolution of
    `substances`, `sorted(...)` of a side passed as a `set`, then `setup` -/
def setupVia (table : List (String × Comp)) (arg : SubstArg) (reacIsSet prodIsSet : Bool)
    (reac prod : List String) : Except Err (Problem × Mat) :=
  if reac.any (prod.contains ·) then .error (.valueError "both-sides") else
  match resolve table arg reac prod with
  | none => .error .keyError
  | some subs =>
    let p : Problem := { reactants := if reacIsSet then sortedSet reac else reac,
                         products := if prodIsSet then sortedSet prod else prod, substances := subs }
    match setup p with
    | .error e => .error e
    | .ok A => .ok (p, A)

/-- `balance_stoichiometry` without duplicates (from `if substances is None` to the end), the solver's
    answer for the matrix being given by `solver` -/
def balanceCore (mode : Mode) (solver : Mat → Candidate) (p : Problem) : Except Err Result :=
  match setup p with
  | .error e => .error e
  | .ok A =>
    match gate mode A (solver A) with
    | .error e => .error e
    | .ok sol =>
      let keys := p.reactants ++ p.products
      match mkDict mode keys sol p.reactants, mkDict mode keys sol p.products with
      | some r, some pr => .ok (r, pr)
      | _, _ => .error .indexError

/-! ### duplicate handling -/

/-- first success of the "drop it completely" loop (`except Exception: continue`) -/
def firstOk {α : Type} : List (Except Err α) → Option α
  | [] => none
  | .ok r :: _ => some r
  | .error _ :: r => firstOk r

/-- the brute-force loop: `except ValueError: continue`, any other exception propagates -/
def firstOkValueError {α : Type} (intersect : List String) : List (Except Err α) → Except Err α
  | [] => .error (.valueError "dup-failed")
  | .ok r :: _ => .ok r
  | .error (.valueError _) :: r => firstOkValueError intersect r
  | .error e :: _ => .error e

/-- `itertools.product(*[(False, True)] * k)`: the LAST position varies fastest -/
def boolProductPy : Nat → List (List Bool)
  | 0 => [[]]
  | k + 1 => [false, true].flatMap fun b => (boolProductPy k).map (b :: ·)

/-- one brute-force choice: remove the duplicate from the reactants if the flag is set, else from the
    products; the remaining sets are sorted (`type(reactants) == set`) -/
def bruteSides (reac prod : List String) (flags : List Bool) (intersect : List String) : List String × List String :=
  let pairs := flags.zip intersect
  let r := reac.filter fun s => !(pairs.any fun fd => fd.1 && fd.2 == s)
  let p := prod.filter fun s => !(pairs.any fun fd => !fd.1 && fd.2 == s)
  (sortedSet r, sortedSet p)

/-- `balance_stoichiometry(..., allow_duplicates=allowDup)`; `core reac prod` is the duplicate-free call. -/
def dupSearch {α : Type} (isNone : Bool) (core : List String → List String → Except Err α) :
    Nat → Bool → List String → List String → Except Err α
  | 0, _, _, _ => .error .fuel
  | fuel + 1, allowDup, reac, prod =>
    let intersect := sortedSet (reac.filter (prod.contains ·))
    if intersect.isEmpty then core reac prod else
    if !allowDup then .error (.valueError "both-sides") else
    if !isNone then .error .notImplemented else      -- `if underdetermined is not None` on the RAW argument (1 is not None)
    if (sortedSet reac) == (sortedSet prod) then .error (.valueError "identical") else
    match firstOk (intersect.map fun d =>
        dupSearch isNone core fuel true (reac.filter (· != d)) (prod.filter (· != d))) with
    | some r => .ok r
    | none =>
      firstOkValueError intersect ((boolProductPy intersect.length).map fun flags =>
        let rp := bruteSides reac prod flags intersect
        dupSearch isNone core fuel false rp.1 rp.2)

/-- the whole function -/
def balance (mode : Mode) (allowDup : Bool) (solver : Mat → Candidate) (p : Problem) : Except Err Result :=
  dupSearch (mode == .smallest) (fun r pr => balanceCore mode solver { p with reactants := r, products := pr })
    (p.reactants.length + 1) allowDup p.reactants p.products

/-- the duplicate-free call from the arguments AS PASSED (`substances` a dict / None / a key string, sides
    possibly sets): `_intersect` check, resolution, sorting of set sides, then `balanceCore` -/
def balanceVia (mode : Mode) (solver : Mat → Candidate) (table : List (String × Comp)) (arg : SubstArg)
    (reacIsSet prodIsSet : Bool) (reac prod : List String) : Except Err Result :=
  match setupVia table arg reacIsSet prodIsSet reac prod with
  | .error e => .error e
  | .ok (p, _) => balanceCore mode solver p

/-- the `underdetermined` argument as passed: `1` is a deprecated spelling of `None`, rewritten to `None` only AFTER the
    duplicate handling (whose test is `underdetermined is not None`), so `1` with duplicates is a NotImplementedError -/
inductive RawMode
  | true | false | none | one
  deriving DecidableEq, Repr

def RawMode.mode : RawMode → Mode
  | .true => .symbolic
  | .false => .strict
  | .none => .smallest
  | .one => .smallest

/-- `balance_stoichiometry(reactants, products, substances, substance_factory, underdetermined, allow_duplicates)`
    for list-valued sides: the duplicate search around `balanceVia` (every sub-call resolves `substances` itself) -/
def balanceCall (raw : RawMode) (allowDup : Bool) (solver : Mat → Candidate) (table : List (String × Comp))
    (arg : SubstArg) (reac prod : List String) : Except Err Result :=
  dupSearch (raw == .none) (fun r p => balanceVia raw.mode solver table arg false false r p) (reac.length + 1) allowDup reac prod

/-! ### certificate checker for the "smallest integers" mode -/

/-- all vectors of length `n` with entries ≥ 1 and sum ≤ `budget` -/
def enumPos : Nat → Nat → List (List Nat)
  | 0, _ => [[]]
  | n + 1, budget =>
    (List.range budget).flatMap fun v => (enumPos n (budget - (v + 1))).map ((v + 1) :: ·)

def natVec (y : List Nat) : Vec := y.map fun n => ((n : Nat) : Rat)

/-- `true` when no positive integer vector with a smaller coefficient sum than `x` balances `A` -/
def minimalBySearch (A : Mat) (x : List Nat) : Bool :=
  (enumPos x.length (x.sum - 1)).all fun y => !(isBalanced A (natVec y))

end ChemModel.Balance
