/-
Executable model of chempy/printing/numbers.py and `StrPrinter._Reaction_param_str`
(chempy/printing/string.py), exact on ℚ.  Import-free (core Lean only).

All texts are `List Char` (so that the kernel can run the model in `decide +kernel`
and list induction applies); the driver converts to `String`.

Floats are represented by their exact binary value as a `Rat`
(`float.as_integer_ratio()` in the harness).  What is NOT modelled: float rounding
inside `_float_str_w_uncert` (`log10`, `x * 10**k`, `round`); the model computes these
exactly, the harness excludes inputs within a stated margin of the boundaries.
-/
import ChemModel.Gen.PrintingNumbers

namespace ChemModel.NumFmt
open ChemModel.Gen.PrintingNumbers

/-! ### digits -/

/-- the character of the decimal digit `d % 10` -/
def digitChar (d : Nat) : Char :=
  match d % 10 with
  | 0 => '0' | 1 => '1' | 2 => '2' | 3 => '3' | 4 => '4'
  | 5 => '5' | 6 => '6' | 7 => '7' | 8 => '8' | _ => '9'

/-- the last `k` decimal digits of `m`, most significant first (`str(m)` when `10^(k-1) ≤ m < 10^k`) -/
def digitsW : Nat → Nat → List Char
  | 0, _ => []
  | k + 1, m => digitsW k (m / 10) ++ [digitChar (m % 10)]

/-- `str(n)` for a natural number, by fuel (fuel `n + 1` always suffices) -/
def natDigitsF : Nat → Nat → List Char
  | 0, _ => []
  | f + 1, n => if n < 10 then [digitChar n] else natDigitsF f (n / 10) ++ [digitChar (n % 10)]

/-- Python `str(n)`, `n ≥ 0` -/
def natStr (n : Nat) : List Char := natDigitsF (n + 1) n

/-- Python `str(i)` / `'%d' % i` for an int -/
def intStr (i : Int) : List Char :=
  if i < 0 then '-' :: natStr i.natAbs else natStr i.toNat

/-- `'%02d' % n` for `n ≥ 0` -/
def pad2 (n : Nat) : List Char := if n < 10 then '0' :: natStr n else natStr n

/-! ### exact decimal arithmetic -/

/-- `10^e` for an integer exponent, as an exact rational -/
def pow10 (e : Int) : Rat :=
  if 0 ≤ e then ((10 ^ e.toNat : Nat) : Rat) else 1 / ((10 ^ (-e).toNat : Nat) : Rat)

def absR (x : Rat) : Rat := if x < 0 then -x else x

/-- `len(str(n)) - 1` for `n ≥ 1` (0 for `n = 0`), by fuel -/
def natLog10F : Nat → Nat → Nat
  | 0, _ => 0
  | f + 1, n => if n < 10 then 0 else natLog10F f (n / 10) + 1

def natLog10 (n : Nat) : Nat := natLog10F n n

/-- `floor(log10 a)` for a positive rational `a` (spike `ilog10`: estimate from the digit counts of
    numerator and denominator, which is exact or one too large, then adjust) -/
def ilog10 (a : Rat) : Int :=
  let e0 : Int := (natLog10 a.num.natAbs : Int) - (natLog10 a.den : Int)
  if pow10 e0 ≤ a then e0 else e0 - 1

/-- round to the nearest integer, ties to even (CPython's float→decimal rounding and `round()`) -/
def roundHalfEven (q : Rat) : Int :=
  let fl := q.floor
  let r := q - (fl : Rat)
  if (1 : Rat) / 2 < r ∨ (r = (1 : Rat) / 2 ∧ fl % 2 = 1) then fl + 1 else fl

/-! ### `'%.{p}g' % x` -/

/-- decimal record: the number `(-1)^neg · m · 10^(e - p + 1)` where `m` has exactly `p` digits -/
structure Dec where
  neg : Bool
  m : Nat
  e : Int
deriving Repr, DecidableEq

/-- value denoted by a record that was produced for precision `p` -/
def Dec.value (p : Nat) (r : Dec) : Rat :=
  (if r.neg then -1 else 1) * (r.m : Rat) * pow10 (r.e - (p : Int) + 1)

/-- correctly rounded `p`-significant-digit decimal of a non-zero `x` (round-half-even on the exact value;
    a carry to `10^p` moves to the next decade) -/
def roundSig (p : Nat) (x : Rat) : Dec :=
  let a := absR x
  let e := ilog10 a
  let m := (roundHalfEven (a / pow10 (e - (p : Int) + 1))).toNat
  if m = 10 ^ p then ⟨decide (x < 0), m / 10, e + 1⟩ else ⟨decide (x < 0), m, e⟩

/-- Python `s.rstrip(c)` -/
def rstrip (c : Char) (s : List Char) : List Char := (s.reverse.dropWhile (· == c)).reverse

/-- `s.rstrip('0').rstrip('.')` -/
def stripZeros (s : List Char) : List Char := rstrip '.' (rstrip '0' s)

/-- does `%g` use the fixed (non-exponent) layout?  C standard: `P > X ≥ −4` -/
def useFixed (p : Nat) (e : Int) : Bool := decide (-4 ≤ e ∧ e < (p : Int))

/-- fixed layout of the `p` digits with decimal exponent `e` (`-4 ≤ e < p`), trailing zeros removed -/
def layoutFixed (p : Nat) (m : Nat) (e : Int) : List Char :=
  let digits := digitsW p m
  if (p : Int) - 1 - e = 0 then digits
  else if 0 ≤ e then stripZeros (digits.take (e.toNat + 1) ++ '.' :: digits.drop (e.toNat + 1))
  else stripZeros ('0' :: '.' :: (List.replicate (-e - 1).toNat '0' ++ digits))

/-- significand of the exponent layout: `d.ddd` with trailing zeros (and a then trailing point) removed -/
def layoutMant (p : Nat) (m : Nat) : List Char :=
  match digitsW p m with
  | [] => []
  | d :: rest => if 1 < p then stripZeros (d :: '.' :: rest) else [d]

/-- exponent part: `e`, sign, at least two digits -/
def layoutExp (e : Int) : List Char :=
  'e' :: (if e < 0 then '-' else '+') :: pad2 e.natAbs

/-- text of a record -/
def layoutG (p : Nat) (r : Dec) : List Char :=
  let body := if useFixed p r.e then layoutFixed p r.m r.e else layoutMant p r.m ++ layoutExp r.e
  if r.neg then '-' :: body else body

/-- CPython `'%.{p}g' % x` for a finite float `x` given by its exact value (`-0.0` is not representable
    here: the harness never sends it) -/
def fmtG (p : Nat) (x : Rat) : List Char :=
  if x = 0 then ['0'] else
  let p' := if p = 0 then 1 else p
  layoutG p' (roundSig p' x)

/-! ### `_latex_pow_10`, `_unicode_pow_10`, `_html_pow_10`, `_number_to_X` -/

/-- Python `s.split(c)` for a one-character separator -/
def splitOn (c : Char) : List Char → List (List Char)
  | [] => [[]]
  | x :: xs =>
    match splitOn c xs with
    | [] => [[]]       -- unreachable
    | h :: t => if x == c then [] :: h :: t else (x :: h) :: t

def isDigit (c : Char) : Bool := '0' ≤ c && c ≤ '9'
def digitVal (c : Char) : Nat := c.toNat - 48
def readNat (s : List Char) : Nat := s.foldl (fun a c => 10 * a + digitVal c) 0

/-- digits part of `int(text)` -/
def parseDigits (neg : Bool) (ds : List Char) : Option Int :=
  if ds.isEmpty || !ds.all isDigit then none
  else some (if neg then -((readNat ds : Nat) : Int) else ((readNat ds : Nat) : Int))

/-- Python `int(text)` restricted to `[+-]?[0-9]+` (what `%g`/`%d` produce); anything else: `none`
    (the real `int` would raise ValueError or accept blanks/underscores, neither can arise here) -/
def parseInt : List Char → Option Int
  | '-' :: t => parseDigits true t
  | '+' :: t => parseDigits false t
  | t => parseDigits false t

inductive Fmt | latex | unicode | html
deriving Repr, DecidableEq

abbrev Res := Except String (List Char)

/-- `"".join(map(_unicode_sup.get, s))`; a missing key gives `None` and `join` raises TypeError -/
def supMap (s : List Char) : Res :=
  s.foldr (fun c acc => do
    let rest ← acc
    match unicodeSup.lookup c with
    | some u => pure (u :: rest)
    | none => throw "TypeError") (pure [])

/-- the three `_X_pow_10` functions after `int(mantissa)` has succeeded with the integer `e` -/
def powTenE (f : Fmt) (significand : List Char) (e : Int) : Res :=
  match f with
  | .latex =>
    if latexOnes.contains significand then pure (latexOnePre ++ intStr e ++ latexOnePost)
    else pure (significand ++ latexSepPre ++ intStr e ++ latexSepPost)
  | .unicode => do
    let sup ← supMap (intStr e)
    if unicodeOnes.contains significand then pure (unicodeOne ++ sup)
    else pure (significand ++ unicodeSep ++ sup)
  | .html =>
    if htmlOnes.contains significand then pure (htmlOne ++ intStr e ++ htmlClose)
    else pure (significand ++ htmlSep ++ intStr e ++ htmlClose)

/-- the three `_X_pow_10(significand, mantissa)` functions; `int(mantissa)` failing is a ValueError -/
def powTen (f : Fmt) (significand mantissa : List Char) : Res :=
  match parseInt mantissa with
  | some e => powTenE f significand e
  | none => throw "ValueError"

/-- tail of `_number_to_X`: `if "e" in flt: significand, mantissa = flt.split("e"); …` -/
def renderX (f : Fmt) (flt unitStr : List Char) : Res :=
  match splitOn 'e' flt with
  | [_] => pure (flt ++ unitStr)
  | [s, m] => do pure ((← powTen f s m) ++ unitStr)
  | _ => throw "ValueError"      -- too many values to unpack

/-- `space + unit_fmt(unit)`; the unit text is whatever `latex_of_unit/unicode_of_unit/html_of_unit`
    returned in the real call (opaque); `none` = `unit is 1` -/
def unitSuffix (f : Fmt) (unit : Option (List Char)) : List Char :=
  match unit with
  | none => []
  | some u => (match f with | .latex => latexSpace | _ => defaultSpace) ++ u

/-- `number_to_scientific_{latex,unicode,html}(number, None, unit, fmt)` with `fmt` an int or None and
    `mag` the unitless magnitude -/
def numberToX (f : Fmt) (fmt : Option Nat) (mag : Rat) (unit : Option (List Char)) : Res :=
  renderX f (fmtG (fmt.getD defaultPrecision) mag) (unitSuffix f unit)

/-- `number_to_scientific_X(number, [uncertainty], unit, fmt)` with a CALLABLE `fmt`: `flt = fmt(mag)` resp. `fmt(mag, uncertainty)`;
    the text the callback returned is an opaque input (taken from the real call), the rest of `_number_to_X` is applied to it -/
def numberToXCallback (f : Fmt) (callbackText : List Char) (unit : Option (List Char)) : Res :=
  renderX f callbackText (unitSuffix f unit)

/-! ### `_float_str_w_uncert` -/

/-- `'%.{w}f' % (n / 10^w)` on exact arithmetic: the integer `n` with the point `w` places from the right -/
def fixedStr (n : Int) (w : Nat) : List Char :=
  let ds0 := natStr n.natAbs
  let ds := List.replicate (w + 1 - ds0.length) '0' ++ ds0
  let body := if w = 0 then ds else ds.take (ds.length - w) ++ '.' :: ds.drop (ds.length - w)
  if n < 0 then '-' :: body else body

/-- the integers computed by `_float_str_w_uncert` -/
structure Uncert where
  xExp : Int
  noExp : Int      -- = un_exp
  noInt : Int
  unInt : Int
deriving Repr, DecidableEq

def uncertRecord (x xe : Rat) (prec : Int) : Uncert :=
  let xExp := ilog10 (absR x)
  let xeExp := ilog10 (absR xe)
  let unExp := xeExp - prec + 1
  { xExp := xExp, noExp := unExp,
    unInt := roundHalfEven (xe * pow10 (-unExp)),
    noInt := roundHalfEven (x * pow10 (-unExp)) }

/-- `result1`: `nom(unc)e<exp>`; needs `fieldw = x_exp - no_exp ≥ 0` (else `"%.-1f"` → ValueError) -/
def uncertLayout1 (u : Uncert) : List Char :=
  fixedStr u.noInt (u.xExp - u.noExp).toNat ++ '(' :: intStr u.unInt ++ ')' :: 'e' :: intStr u.xExp

/-- `result2`: `nom(unc)` -/
def uncertLayout2 (u : Uncert) : List Char :=
  (if 0 ≤ u.noExp then fixedStr (u.noInt * (10 ^ u.noExp.toNat : Nat)) 0 else fixedStr u.noInt (-u.noExp).toNat)
    ++ '(' :: intStr (u.unInt * (10 ^ u.noExp.toNat : Nat)) ++ [')']

/-- shortest wins, ties to the plain form -/
def shortest (r1 r2 : List Char) : List Char := if r2.length ≤ r1.length then r2 else r1

/-- `_float_str_w_uncert(x, xe, precision)`; `log10(0)` → ValueError -/
def floatStrWUncert (x xe : Rat) (prec : Int) : Res :=
  if x = 0 ∨ xe = 0 then throw "ValueError" else
  let u := uncertRecord x xe prec
  -- `xe * 10 ** (-un_exp)`: a Python int `10**k` with `k ≥ 309` cannot be converted to float
  if 309 ≤ -u.noExp then throw "OverflowError" else
  if u.xExp - u.noExp < 0 then throw "ValueError" else
  pure (shortest (uncertLayout1 u) (uncertLayout2 u))

/-- `number_to_scientific_X(number, uncertainty, unit, fmt)` with a non-zero uncertainty -/
def numberToXUncert (f : Fmt) (fmt : Option Int) (mag unc : Rat) (unit : Option (List Char)) : Res := do
  let flt ← floatStrWUncert mag unc (fmt.getD (defaultUncertPrecision : Int))
  renderX f flt (unitSuffix f unit)

/-- the first line of `_number_to_X`: `uncertainty = uncertainty or getattr(number, "uncertainty", None)`.
    `explicit`: the `uncertainty=` argument (`none` = None), `carried`: `number.uncertainty` if the number has one.
    Python's `or` tests TRUTHINESS: an explicit `0`, `0.0` or zero quantity is falsy and falls through to the carried value;
    a carried zero is returned as it is (the right operand of `or` is not tested). -/
def effectiveUncertainty (explicit carried : Option Rat) : Option Rat :=
  match explicit with
  | some u => if u = 0 then carried else some u
  | none => carried

/-- `number_to_scientific_X(number, uncertainty, unit, fmt)` for every combination of explicit / carried uncertainty: without an
    effective uncertainty the PLAIN branch is taken and an int `fmt` means significant digits (a negative one gives the format `%.-1g`
    → ValueError); with one — even a zero one — `fmt` means uncertainty digits and `_float_str_w_uncert` is called (zero → ValueError) -/
def numberToXAny (f : Fmt) (fmt : Option Int) (mag : Rat) (explicit carried : Option Rat) (unit : Option (List Char)) : Res :=
  match effectiveUncertainty explicit carried with
  | none =>
    match fmt with
    | none => numberToX f none mag unit
    | some p => if p < 0 then throw "ValueError" else numberToX f (some p.toNat) mag unit
  | some unc => numberToXUncert f fmt mag unc unit

/-! ### `roman` -/

/-- the loop of `roman` over `zip(tokens, values)` on a non-negative `num`: emitted (token, value) list
    and the remaining `num` -/
def romanLoop : List (List Char × Nat) → Nat → List (List Char × Nat) × Nat
  | [], n => ([], n)
  | (t, v) :: tv, n =>
    let cnt := n / v
    let (rest, r) := romanLoop tv (n - v * cnt)
    (List.replicate cnt (t, v) ++ rest, r)

def romanTable : List (List Char × Nat) := romanTokens.zip romanValues

/-- the tokens `roman(n)` concatenates -/
def romanToks (n : Nat) : List (List Char × Nat) := (romanLoop romanTable n).1

/-- `roman(n)` for `n ≥ 0` -/
def roman (n : Nat) : List Char := ((romanToks n).map Prod.fst).flatten

/-! ### `StrPrinter._Reaction_param_str` and the tail of `_print_Reaction` -/

inductive Printer | str | unicode | latex | html
deriving Repr, DecidableEq

/-- what `rxn.param` is, as far as `_Reaction_param_str` distinguishes it -/
inductive Param
  /-- has `.magnitude` and `.dimensionality`; the unit text is `unit_fmt(param.dimensionality)` of the real call -/
  | quantity (mag : Rat) (unitText : List Char)
  /-- a Python float -/
  | float (x : Rat)
  /-- anything else without `.magnitude` (int, str, …): `str(param)` of the real call -/
  | other (text : List Char)

/-- the `magnitude_fmt` setting of the four printers applied to a plain number -/
def magFmt (pr : Printer) (x : Rat) : Res :=
  match pr with
  | .str => pure (fmtG strMagnitudePrecision x)
  | .unicode => numberToX .unicode none x none
  | .latex => numberToX .latex none x none
  | .html => numberToX .html none x none

def reactionParamStr (pr : Printer) : Param → Res
  | .quantity mag u => do pure ((← magFmt pr mag) ++ ' ' :: u)
  | .float x => magFmt pr x
  | .other t => pure t

def separator (pr : Printer) : List Char :=
  match pr with
  | .html => htmlParamSeparator
  | _ => paramSeparator

/-- `_print_Reaction`: reaction text (opaque, from the real call with `with_param=False`), then
    separator + parameter, then separator + name -/
def reactionLine (pr : Printer) (rxn : List Char) (param : Option Param) (name : Option (List Char)) : Res := do
  let r1 ← match param with
    | none => pure rxn
    | some p => do pure (rxn ++ separator pr ++ (← reactionParamStr pr p))
  match name with
  | none => pure r1
  | some n => pure (r1 ++ separator pr ++ n)

/-! ### `as_per_substance_html_table` and `Table._html` (chempy/printing/table.py) -/

/-- what `number_to_scientific_html` is called with for one substance: the unitless magnitude and the html text of the
    value's own unit (`none`: a plain number) -/
structure Cell where
  mag : Rat
  unit : Option (List Char)
deriving Repr, DecidableEq

/-- the data container, as far as `_elem` distinguishes it: `cont[k]` works (dict, OrderedDict, QuantityDict …), or it raises
    TypeError/IndexError and the position of `k` among the substance keys is used (list, tuple, array) -/
inductive Container
  | keyed (entries : List (List Char × Cell))
  | positional (items : List Cell)

/-- `list(substances.keys()).index(k)`; `none` = ValueError -/
def indexOf (k : List Char) : List (List Char) → Option Nat
  | [] => none
  | x :: xs => if x = k then some 0 else (indexOf k xs).map (· + 1)

/-- `_elem(k)` -/
def tableElem (keys : List (List Char)) (c : Container) (k : List Char) : Except String Cell :=
  match c with
  | .keyed l => match l.lookup k with
    | some v => pure v
    | none => throw "KeyError"
  | .positional l => match indexOf k keys with
    | none => throw "ValueError"
    | some i => match l[i]? with
      | some v => pure v
      | none => throw "IndexError"

/-- the rows `(v.html_name, number_to_scientific_html(_elem(k)))` in the order of `substances` (key, html name) -/
def tableRows (substances : List (List Char × List Char)) (c : Container) : Except String (List (List Char × List Char)) :=
  substances.mapM fun kn => do
    let cell ← tableElem (substances.map Prod.fst) c kn.1
    let text ← numberToX .html none cell.mag cell.unit
    pure (kn.2, text)

def joinWith (sep : List Char) : List (List Char) → List Char
  | [] => []
  | [x] => x
  | x :: xs => x ++ sep ++ joinWith sep xs

/-- `Table._html` for rows of strings: header row `Substance | header`, one `<tr>` per row, cells and rows joined by a newline -/
def tableHtml (header : List Char) (rows : List (List Char × List Char)) : List Char :=
  let tr (cells : List (List Char)) : List Char := "<tr>".toList ++ joinWith ['\n'] cells ++ "</tr>".toList
  let head := tr ["<th>Substance</th>".toList, "<th>".toList ++ header ++ "</th>".toList]
  let body := rows.map fun r => tr ["<td>".toList ++ r.1 ++ "</td>".toList, "<td>".toList ++ r.2 ++ "</td>".toList]
  "<table>".toList ++ joinWith ['\n'] (head :: body) ++ "</table>".toList

/-- `html(as_per_substance_html_table(cont, substances, header))` -/
def perSubstanceTable (substances : List (List Char × List Char)) (c : Container) (header : List Char) : Res := do
  pure (tableHtml header (← tableRows substances c))

end ChemModel.NumFmt
