/-
Executable model of the arithmetic on `chempy.chemistry.Equilibrium` (property C11).

Mirrors (file `chempy/chemistry.py` unless stated otherwise):
  Reaction._init_stoich / Reaction.__init__ (default checks)      -> `initStoich`, `construct`, `mkEq`
  Reaction.keys / Reaction.net_stoich                              -> `Equil.keys`, `Equil.net`
  Equilibrium.__rmul__ / __mul__ / __neg__                          -> `rmul`, `neg`
  Equilibrium.__add__ / __sub__                                     -> `add`, `sub`
  Equilibrium.eliminate (+ sympy.primefactors' result)              -> `eliminate`, `primeFactors`
  Equilibrium.cancel, chempy/_util.py: intdiv                       -> `cancelWith`, `intdiv`
  Equilibrium.as_reactions                                          -> `asReactions`
  chempy/util/arithmeticdict.py: ArithmeticDict.__rmul__ (scalar)  -> `scale`

A Python dict / OrderedDict is an association list in insertion order (keys distinct).
The equilibrium constant lives in any type `α` with `*`, `/`, `⁻¹`, numerals and decidable
equality (`Rat` in the driver = `fractions.Fraction` in the harness; any field in the proofs).
Python exceptions are `Except String` values carrying the exception class name.
Import-free.
-/
namespace ChemModel.Equilibria

/-- a stoichiometry container as stored: `OrderedDict` items in order -/
abbrev Stoich := List (String × Nat)

/-- `d.get(k, 0)` -/
def get (l : Stoich) (k : String) : Nat :=
  match l.lookup k with
  | some v => v
  | none => 0

def keysOf (l : Stoich) : List String := l.map (·.1)

/-- one step of `sorted(container.items(), key=lambda kv: kv[0])` (stable insertion) -/
def insertSorted (x : String × Nat) : Stoich → Stoich
  | [] => [x]
  | y :: t => if y.1 < x.1 then y :: insertSorted x t else x :: y :: t

/-- `OrderedDict(sorted(container.items(), key=lambda kv: kv[0]))` (`_init_stoich`, l. 461-463);
    Python compares `str` by code point, as `String.<` does -/
def sortByKey (l : Stoich) : Stoich := l.foldr insertSorted []

/-- `Reaction._init_stoich`: a plain `dict` is sorted by key, any other mapping (OrderedDict) is kept -/
def initStoich (isDict : Bool) (l : Stoich) : Stoich := if isDict then sortByKey l else l

/-- `Equilibrium` instance: the four containers as stored and `param` (`None` = `none`) -/
structure Equil (α : Type) where
  reac : Stoich
  prod : Stoich
  inactReac : Stoich
  inactProd : Stoich
  K : Option α
  deriving Repr

variable {α : Type}

/-- `Reaction.keys` (a set; here the chained key lists, duplicates kept) -/
def Equil.keys (e : Equil α) : List String :=
  keysOf e.reac ++ keysOf e.prod ++ keysOf e.inactReac ++ keysOf e.inactProd

/-- one entry of `Reaction.net_stoich`: prod − reac + inact_prod − inact_reac -/
def Equil.net (e : Equil α) (k : String) : Int :=
  (get e.prod k : Int) - (get e.reac k : Int) + (get e.inactProd k : Int) - (get e.inactReac k : Int)

/-- `self.prod.get(key, 0) - self.reac.get(key, 0)` as used by `__add__` (inactive parts ignored) -/
def Equil.activeNet (e : Equil α) (k : String) : Int := (get e.prod k : Int) - (get e.reac k : Int)

/-- every listed coefficient (active and inactive) is positive -/
def Equil.Positive (e : Equil α) : Prop :=
  ∀ kv, kv ∈ e.reac ++ e.prod ++ e.inactReac ++ e.inactProd → 0 < kv.2

/-- no inactive parts (the operands the property quantifies over: `__add__` does not carry them) -/
def Equil.NoInact (e : Equil α) : Prop := e.inactReac = [] ∧ e.inactProd = []

/-- netted form of the sum of `a` and `b` (what the property demands of `a + b`): every listed
    coefficient positive, no key on both sides, a key is listed exactly on the side given by the sign
    of its net coefficient (cancelled keys nowhere), each key listed once, no inactive parts -/
structure NettedSum (a b r : Equil α) : Prop where
  positive : r.Positive
  disjoint : ∀ k, ¬ (k ∈ keysOf r.reac ∧ k ∈ keysOf r.prod)
  cancelled : ∀ k, a.activeNet k + b.activeNet k = 0 → k ∉ keysOf r.reac ∧ k ∉ keysOf r.prod
  listed : ∀ k, (k ∈ keysOf r.reac ↔ a.activeNet k + b.activeNet k < 0) ∧
                (k ∈ keysOf r.prod ↔ 0 < a.activeNet k + b.activeNet k)
  nodup : (keysOf r.reac).Nodup ∧ (keysOf r.prod).Nodup
  noInact : r.NoInact

/-- `check_any_effect`: `any(self.net_stoich(self.keys()))` -/
def Equil.anyEffect (e : Equil α) : Bool := e.keys.any (fun k => e.net k != 0)

/-- `Equilibrium(reac, prod, param, inact_reac=…, inact_prod=…)` called with plain dicts of
    non-negative ints: `_init_stoich` on each container, then the default checks. `all_positive`
    and `all_integral` cannot fail on `Nat`, `consistent_units` is `True` without units; what is
    left is `any_effect` (`ValueError`). -/
def construct (isDict : Bool) (reac prod : Stoich) (K : Option α) (inactReac inactProd : Stoich) :
    Except String (Equil α) :=
  let e : Equil α := ⟨initStoich isDict reac, initStoich isDict prod,
    initStoich isDict inactReac, initStoich isDict inactProd, K⟩
  if e.anyEffect then .ok e else .error "ValueError"

/-- conversion of user supplied integer coefficients; `check_all_positive` raises for `v < 0` (0 is accepted) -/
def toStoich : List (String × Int) → Except String Stoich
  | [] => .ok []
  | (k, v) :: t => if v < 0 then .error "ValueError" else do
      let r ← toStoich t
      pure ((k, v.toNat) :: r)

/-- the user-facing constructor with integer coefficients (default `checks`) -/
def mkEq (isDict : Bool) (reac prod inactReac inactProd : List (String × Int)) (K : Option α) :
    Except String (Equil α) := do
  let r ← toStoich reac
  let ir ← toStoich inactReac
  let p ← toStoich prod
  let ip ← toStoich inactProd
  construct isDict r p K ir ip

/-! #### the constructor's `checks` / `dont_check` arguments and the `check_*(throw=False)` methods -/

/-- `d.get(k, 0)` on the coefficients as given by the caller (any sign) -/
def getI (l : List (String × Int)) (k : String) : Int :=
  match l.lookup k with
  | some v => v
  | none => 0

/-- `check_all_positive(throw=False)`: no coefficient `< 0` in any of the four containers (0 is accepted) -/
def rawAllPositive (reac prod inactReac inactProd : List (String × Int)) : Bool :=
  (reac ++ prod ++ inactReac ++ inactProd).all (fun kv => decide (0 ≤ kv.2))

/-- `check_any_effect(throw=False)`: `any(self.net_stoich(self.keys()))` on the coefficients as given -/
def rawAnyEffect (reac prod inactReac inactProd : List (String × Int)) : Bool :=
  ((reac ++ prod ++ inactReac ++ inactProd).map (·.1)).any
    (fun k => getI prod k - getI reac k + getI inactProd k - getI inactReac k != 0)

def defaultChecks : List String := ["any_effect", "all_positive", "all_integral", "consistent_units"]

/-- `default_checks ^ (dont_check or set())` (symmetric difference of sets) -/
def symmDiff (a b : List String) : List String :=
  a.filter (fun x => !b.contains x) ++ b.filter (fun x => !a.contains x)

/-- `Reaction.__init__` with its `checks` / `dont_check` arguments (l. 468-495):
    both given → `ValueError`; `checks is None` → `default_checks ^ dont_check`; each name `c` runs `getattr(self, "check_" + c)(throw=True)`
    (unknown name → `AttributeError`); `all_integral` and `consistent_units` cannot fail for integer coefficients without units.
    The checks run in set-iteration order, so an input that fails two different ways is outside what is compared.
    A negative coefficient that is not checked would have to be stored; the model's containers hold naturals, so that input is
    reported as unrepresentable (`!negative-unchecked`) and not generated. -/
def mkEqChecks (isDict : Bool) (reac prod inactReac inactProd : List (String × Int)) (K : Option α)
    (checks dontCheck : Option (List String)) : Except String (Equil α) :=
  if checks.isSome && dontCheck.isSome then .error "ValueError" else
  let names : List String := match checks with
    | some c => c
    | none => symmDiff defaultChecks (match dontCheck with | some d => d | none => [])
  if names.any (fun c => !defaultChecks.contains c) then .error "AttributeError"
  else if names.contains "all_positive" && !rawAllPositive reac prod inactReac inactProd then .error "ValueError"
  else if !rawAllPositive reac prod inactReac inactProd then .error "!negative-unchecked"
  else
    let nat (l : List (String × Int)) : Stoich := l.map (fun kv => (kv.1, kv.2.toNat))
    let e : Equil α := ⟨initStoich isDict (nat reac), initStoich isDict (nat prod),
      initStoich isDict (nat inactReac), initStoich isDict (nat inactProd), K⟩
    if names.contains "any_effect" && !e.anyEffect then .error "ValueError" else .ok e

/-- `other * ArithmeticDict(int, d)` for a scalar: `for k in d1: d1[k] *= d2` (arithmeticdict.py `_imul`) -/
def scale (m : Nat) (l : Stoich) : Stoich := l.map (fun kv => (kv.1, kv.2 * m))

/-- `x ** n` for a natural `n` by repeated multiplication -/
def npow [Mul α] [NatCast α] (x : α) : Nat → α
  | 0 => ((1 : Nat) : α)
  | n + 1 => npow x n * x

/-- `param ** n` for an `int` n with exact rational semantics (`fractions.Fraction.__pow__`):
    `(x^|n|)⁻¹` for `n < 0`, `ZeroDivisionError` for `0 ** negative` -/
def powInt [Mul α] [Inv α] [NatCast α] [DecidableEq α] (x : α) (n : Int) : Except String α :=
  if n < 0 then
    (if x = ((0 : Nat) : α) then .error "ZeroDivisionError" else .ok (npow x n.natAbs)⁻¹)
  else .ok (npow x n.toNat)

section ops
variable [Mul α] [Inv α] [NatCast α] [DecidableEq α]

/-- `param = None if self.param is None else self.param ** other` (l. 1196) -/
def rmulParam (n : Int) (K : Option α) : Except String (Option α) :=
  match K with
  | none => pure none
  | some k => do let p ← powInt k n; pure (some p)

/-- `Equilibrium.__rmul__` (l. 1189-1212) for an `int` `other`: `param ** other` first, then the
    containers scaled by `|other|`, sides swapped for `other < 0`, then the constructor
    (which raises `ValueError` for `other = 0`: no net effect is left). -/
def rmul (n : Int) (e : Equil α) : Except String (Equil α) := do
  let param ← rmulParam n e.K
  let m := n.natAbs
  let reac := scale m e.reac
  let prod := scale m e.prod
  let inactReac := scale m e.inactReac
  let inactProd := scale m e.inactProd
  if n < 0 then construct true prod reac param inactProd inactReac
  else construct true reac prod param inactReac inactProd

/-- `n * e` / `e * n` as Python dispatches it: a multiplier that is not integral (`other.is_integer` missing and not an
    `int`, or falsy: `str`, `None`, `complex`, `Decimal`, a mapping, a non-integer sympy number) makes `__rmul__` return
    `NotImplemented` (l. 1192-1197), which Python turns into `TypeError`; `none` stands for such a multiplier -/
def rmulPy (m : Option Int) (e : Equil α) : Except String (Equil α) :=
  match m with
  | none => .error "TypeError"
  | some n => rmul n e

/-- what `Equilibrium.__rmul__` finds when it reads `other.is_integer` (l. 1192-1199) -/
inductive IsIntegerAttr where
  /-- `AttributeError`: `str`, `None`, `complex`, `Decimal`, containers … -/
  | missing
  /-- a callable (`int`, `bool`, `float`, `Fraction`, numpy scalars): the code calls it and uses what it returns -/
  | method (returns : Bool)
  /-- a plain attribute (sympy: `True`, `False` or `None`) -/
  | value (v : Option Bool)

/-- a multiplier as `__rmul__` sees it: the `is_integer` attribute, `isinstance(other, int)`, and its numeric value
    (used by `param ** other`, `other < 0`, `int(other)`; irrelevant for refused objects) -/
structure PyMul where
  attr : IsIntegerAttr
  isPyInt : Bool
  val : Rat

/-- `other_is_int` as the code computes it: attribute missing → `isinstance(other, int)`; callable → its result; else its truthiness -/
def PyMul.accepted (m : PyMul) : Bool :=
  match m.attr with
  | .missing => m.isPyInt
  | .method r => r
  | .value v => v == some true

/-- `m * e` / `e * m` for an arbitrary Python object `m`: refused (`NotImplemented` → `TypeError`) unless `other_is_int`; an accepted
    multiplier is used through its integer value. An object that claims to be integral but is not (`accepted` with a fractional
    value — what the unfixed code made of every float) has no consistent meaning: outcome `!non-integral-accepted`, delimited by
    `PyMul.Sound`. -/
def rmulMul (m : PyMul) (e : Equil α) : Except String (Equil α) :=
  if m.accepted then
    (if m.val.den = 1 then rmul m.val.num e else .error "!non-integral-accepted")
  else .error "TypeError"

/-- objects whose `is_integer` tells the truth (every Python / numpy / sympy number) -/
def PyMul.Sound (m : PyMul) : Prop := m.accepted = true → m.val.den = 1

/-- `Equilibrium.__neg__`: `-1 * self` -/
def neg (e : Equil α) : Except String (Equil α) := rmul (-1) e

/-- order-preserving removal of repeated keys (the `set()` of `__add__`; its iteration order is
    irrelevant because the constructor sorts the resulting dicts) -/
def dedup : List String → List String
  | [] => []
  | k :: t => if t.contains k then dedup t else k :: dedup t

/-- keys visited by `__add__`: active reactants and products of both operands -/
def addKeys (a b : Equil α) : List String :=
  dedup (keysOf a.reac ++ keysOf a.prod ++ keysOf b.reac ++ keysOf b.prod)

/-- `n` of `__add__` (l. 1228-1233) -/
def addN (a b : Equil α) (k : String) : Int := a.activeNet k + b.activeNet k

/-- the `reac` dict built by `__add__`: keys with negative net coefficient, value `-n` -/
def addReac (a b : Equil α) : Stoich :=
  (addKeys a b).filterMap (fun k => if addN a b k < 0 then some (k, (-(addN a b k)).toNat) else none)

/-- the `prod` dict built by `__add__`: keys with positive net coefficient -/
def addProd (a b : Equil α) : Stoich :=
  (addKeys a b).filterMap (fun k => if 0 < addN a b k then some (k, (addN a b k).toNat) else none)

/-- `param` of `__add__` (l. 1240-1243): both `None` → `None`, one `None` → `TypeError` (`x * None`) -/
def addParam (x y : Option α) : Except String (Option α) :=
  match x, y with
  | none, none => pure none
  | some x, some y => pure (some (x * y))
  | _, _ => .error "TypeError"

/-- `Equilibrium.__add__` (l. 1220-1244): per key the net coefficient goes to `reac` (negative),
    `prod` (positive) or nowhere (zero); `param` is the product; inactive parts are not carried;
    then the constructor. -/
def add (a b : Equil α) : Except String (Equil α) := do
  let param ← addParam a.K b.K
  construct true (addReac a b) (addProd a b) param [] []

/-- `Equilibrium.__sub__`: `self + -1 * other` -/
def sub (a b : Equil α) : Except String (Equil α) := do
  let nb ← rmul (-1) b
  add a nb

/-- an operand of `+` / `-` as Python sees it: an equilibrium, or a number (the `0` that `sum(eqs)` starts from) -/
inductive Operand (α : Type) where
  | eq (e : Equil α)
  | number

/-- `x + y`: `Equilibrium.__add__` reads `other.reac` (a number has none: `AttributeError`); there is no `__radd__`, so a
    number on the left is `TypeError` -/
def addPy : Operand α → Operand α → Except String (Equil α)
  | .eq a, .eq b => add a b
  | .eq _, .number => .error "AttributeError"
  | .number, _ => .error "TypeError"

/-- `x - y`: `self + -1 * other` (`-1 * number` is a number again); no `__rsub__` -/
def subPy : Operand α → Operand α → Except String (Equil α)
  | .eq a, .eq b => sub a b
  | .eq _, .number => .error "AttributeError"
  | .number, _ => .error "TypeError"

/-- `sum(eqs)` (`start = none`: starts from the int 0, so any non-empty list is refused and the empty one gives 0 = `none`)
    and `sum(eqs, start)` (left fold of `+`) -/
def sumPy (start : Option (Equil α)) (l : List (Equil α)) : Except String (Option (Equil α)) :=
  match start, l with
  | none, [] => .ok none
  | none, _ :: _ => .error "TypeError"
  | some s, l => do let r ← l.foldlM add s; pure (some r)

/-- expression trees over equilibria: every history of scale / negate / add / subtract -/
inductive EqExpr (α : Type) where
  | leaf (e : Equil α)
  | scale (n : Int) (t : EqExpr α)
  | neg (t : EqExpr α)
  | add (a b : EqExpr α)
  | sub (a b : EqExpr α)

/-- evaluation with the operators of the real class (Python evaluates the left operand first) -/
def EqExpr.eval : EqExpr α → Except String (Equil α)
  | .leaf e => .ok e
  | .scale n t => do let x ← t.eval; Equilibria.rmul n x
  | .neg t => do let x ← t.eval; Equilibria.neg x
  | .add a b => do let x ← a.eval; let y ← b.eval; Equilibria.add x y
  | .sub a b => do let x ← a.eval; let y ← b.eval; Equilibria.sub x y

end ops

/-- the operands of an expression tree with the integer each one is multiplied by in total -/
def EqExpr.terms : EqExpr α → List (Equil α × Int)
  | .leaf e => [(e, 1)]
  | .scale n t => t.terms.map (fun p => (p.1, n * p.2))
  | .neg t => t.terms.map (fun p => (p.1, -1 * p.2))
  | .add a b => a.terms ++ b.terms
  | .sub a b => a.terms ++ b.terms.map (fun p => (p.1, -1 * p.2))

/-! ### histories that re-use objects -/

/-- one statement `v_k = n * v_i`, `v_k = -v_i`, `v_k = v_i + v_j`, `v_k = v_i - v_j` of an operation history;
    indices refer to the operand objects and to the results of earlier statements -/
inductive Step where
  | scale (n : Int) (i : Nat)
  | neg (i : Nat)
  | add (i j : Nat)
  | sub (i j : Nat)

section history
variable [Mul α] [Inv α] [NatCast α] [DecidableEq α]

/-- the value bound to variable `i` (an exception raised when `v_i` was computed is re-raised by whoever uses it) -/
def refAt (vals : List (Except String (Equil α))) (i : Nat) : Except String (Equil α) :=
  match vals[i]? with
  | some v => v
  | none => .error "!bad-ref"

def runStep (vals : List (Except String (Equil α))) : Step → Except String (Equil α)
  | .scale n i => do let x ← refAt vals i; rmul n x
  | .neg i => do let x ← refAt vals i; neg x
  | .add i j => do let x ← refAt vals i; let y ← refAt vals j; add x y
  | .sub i j => do let x ← refAt vals i; let y ← refAt vals j; sub x y

/-- run a history: every statement sees all operand objects and all earlier results (objects are values:
    no operation changes its operands) -/
def runHistory (vals : List (Except String (Equil α))) : List Step → List (Except String (Equil α))
  | [] => vals
  | s :: t => runHistory (vals ++ [runStep vals s]) t

end history

/-- the expression tree a statement denotes once the variables are replaced by the trees that defined them -/
def unfoldStep (exprs : List (EqExpr α)) : Step → Option (EqExpr α)
  | .scale n i => (exprs[i]?).map (EqExpr.scale n)
  | .neg i => (exprs[i]?).map EqExpr.neg
  | .add i j => match exprs[i]?, exprs[j]? with
      | some a, some b => some (EqExpr.add a b)
      | _, _ => none
  | .sub i j => match exprs[i]?, exprs[j]? with
      | some a, some b => some (EqExpr.sub a b)
      | _, _ => none

/-- all trees of a history (`none` when a statement refers to a variable that does not exist yet) -/
def unfoldHistory (exprs : List (EqExpr α)) : List Step → Option (List (EqExpr α))
  | [] => some exprs
  | s :: t => match unfoldStep exprs s with
      | some e => unfoldHistory (exprs ++ [e]) t
      | none => none

/-! ### eliminate -/

/-- primality by trial division -/
def isPrime (p : Nat) : Bool := decide (2 ≤ p) && (List.range p).all (fun d => decide (d < 2) || p % d != 0)

/-- the value of `sympy.primefactors(v)` for `|v| = n`: the primes dividing `n`, ascending
    (`[]` for 0 and 1) -/
def primeFactors (n : Nat) : List Nat := (List.range (n + 1)).filter (fun p => isPrime p && n % p == 0)

/-- `factors[f] = max(factors[f], e)` on a `defaultdict(int)` kept in insertion order -/
def updMax : List (Nat × Nat) → Nat → Nat → List (Nat × Nat)
  | [], f, e => [(f, max 0 e)]
  | (g, x) :: t, f, e => if g = f then (g, max x e) :: t else (g, x) :: updMax t f e

/-- the loop of `eliminate` (l. 1271-1274): `factors[f] = max(factors[f], Abs(v // f))` -/
def factorsOf (viol : List Int) : List (Nat × Nat) :=
  viol.foldl (fun d v => (primeFactors v.natAbs).foldl (fun d f => updMax d f (Int.fdiv v (f : Int)).natAbs) d) []

/-- `reduce(mul, (k ** v for k, v in factors.items()), 1)` -/
def rcdOf (d : List (Nat × Nat)) : Nat := d.foldl (fun acc kv => acc * kv.1 ^ kv.2) 1

/-- `[rcd // v for v in viol]` with Python's floor division; `ZeroDivisionError` for `v = 0` -/
def divAll (rcd : Int) : List Int → Except String (List Int)
  | [] => .ok []
  | v :: t => if v = 0 then .error "ZeroDivisionError" else do
      let r ← divAll rcd t
      pure (Int.fdiv rcd v :: r)

/-- `Equilibrium.eliminate(rxns, wrt)` (l. 1250-1277) -/
def eliminate (rxns : List (Equil α)) (wrt : String) : Except String (List Int) :=
  let viol := rxns.map (fun r => r.net wrt)
  let rcd : Int := (rcdOf (factorsOf viol) : Nat)
  match viol with
  | [] => .error "IndexError"          -- `viol[0] *= -1` on an empty list
  | v0 :: rest => divAll rcd ((v0 * -1) :: rest)

/-! ### cancel / intdiv -/

/-- `chempy._util.intdiv` (caller guarantees `q ≠ 0`, Python raises `ZeroDivisionError` otherwise) -/
def intdiv (p q : Int) : Int :=
  let r := Int.fdiv p q
  if r < 0 ∧ q * r ≠ p then r + 1 else r

/-- `intdiv` as called from Python: `p // 0` raises -/
def intdivPy (p q : Int) : Except String Int :=
  if q = 0 then .error "ZeroDivisionError" else .ok (intdiv p q)

/-- the loop of `Equilibrium.cancel` (l. 1297-1304) over `keys = rxn.keys()` in the iteration order
    `ks` of that set; `none` is `float('inf')`; `min(candidate, r, key=abs)` keeps the earlier one on ties -/
def cancelWith (self rxn : Equil α) (ks : List String) : Except String (Option Int) :=
  ks.foldlM (fun (cand : Option Int) k =>
    let v1 := self.net k
    let v2 := rxn.net k
    match intdivPy (-v1) v2 with
    | .error s => (.error s : Except String (Option Int))
    | .ok r =>
      match cand with
      | none => .ok (some r)
      | some c => if r.natAbs < c.natAbs then .ok (some r) else .ok (some c)) none

/-! ### as_reactions -/

/-- a `Reaction` as produced by `as_reactions` -/
structure Rxn (α : Type) where
  reac : Stoich
  prod : Stoich
  inactReac : Stoich
  inactProd : Stoich
  k : α
  deriving Repr

def sumVals (l : Stoich) : Nat := (l.map (·.2)).foldl (· + ·) 0

/-- `Equilibrium.as_reactions(kf, kb, units)` (l. 1048-1116) for a scalar `param`;
    `c0 = 1 * units.molar` (1 without units); exactly one of `kf`, `kb` must be given;
    the two `Reaction` constructors run the default checks (`any_effect`). -/
def asReactions [Mul α] [Inv α] [Div α] [NatCast α] [DecidableEq α]
    (e : Equil α) (kf kb : Option α) (c0 : α) : Except String (Rxn α × Rxn α) := do
  let nb : Int := (sumVals e.prod : Nat)
  let nf : Int := (sumVals e.reac : Nat)
  let (kf', kb') ← (match kf, kb with
    | none, none => (.error "ValueError" : Except String (α × α))   -- `kf, kb = self.param` fails for a scalar
    | none, some b =>
        match e.K with
        | none => .error "TypeError"                                -- `kb * None`
        | some K => do
            let c ← powInt c0 (nb - nf)
            pure (b * K * c, b)
    | some f, none => do
        let c ← powInt c0 (nb - nf)
        match e.K with
        | none => .error "TypeError"                                -- `None * c0 ** …`
        | some K =>
            if K * c = ((0 : Nat) : α) then .error "ZeroDivisionError" else pure (f, f / (K * c))
    | some _, some _ => .error "ValueError")
  if e.anyEffect then
    pure ({ reac := e.reac, prod := e.prod, inactReac := e.inactReac, inactProd := e.inactProd, k := kf' },
          { reac := e.prod, prod := e.reac, inactReac := e.inactProd, inactProd := e.inactReac, k := kb' })
  else .error "ValueError"

/-- `as_reactions` including its first refusal (l. 1073-1075): without `units`, a rate constant that carries units
    (`hasattr(kf, "units") or hasattr(kb, "units")`) → `ValueError("units missing")` before anything else is looked at -/
def asReactionsPy [Mul α] [Inv α] [Div α] [NatCast α] [DecidableEq α]
    (e : Equil α) (kf kb : Option α) (unitsGiven rateHasUnits : Bool) (c0 : α) : Except String (Rxn α × Rxn α) :=
  if !unitsGiven && rateHasUnits then .error "ValueError" else asReactions e kf kb c0

end ChemModel.Equilibria
