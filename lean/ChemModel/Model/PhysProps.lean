/-
Model for C19 (physical-chemistry relations: unit independence, range warnings, anchors, inverses).

Most of the model is GENERATED: `Gen/FnProps.lean` holds, for every correlation / relation, the translation of the
`units=None` branch (`waterDensity`, …) and of the `units=<object>` branch (`waterDensityU`, …) of the same source text,
and the range predicates (`…Warns`, `…WarnMsgs`).  This file adds

* the three functions outside the translator's subset, hand-modelled over EXTRACTED tables / constants:
  `sulfuricAcidDensity` (numpy double power sum over `_data`), `lgSolubilityRatio` (sum over the two parameter
  dictionaries), `densityFromConcentration` (fixed-point loop, fuel = maxiter + 1), plus the `Henry` named tuple
  and its three methods; the source text they mirror is pinned by guard theorems (`*_src_is`);
* two readings of a unit-mode function text:
  (L1) **scale-factor semantics**: the number type is a field and every unit symbol is its positive scale factor
       relative to SI, so every value is an SI value (instances `HasToUnitless Float/Rat := id`);
  (L2) **quantity algebra** `UV α`: plain number | quantity (magnitude × (factor, dimension vector), the C09 structure
       `Units.Quantity`) | raised exception, with the arithmetic of the third-party package `quantities` as observed
       (`a + b` converts `b` to the unit of `a` and refuses different dimensions; a plain number is dimensionless;
       `exp`/`log`/`10 ** q` need a dimensionless argument of factor 1; `float(q)` is the raw magnitude).
  `quantities` itself is modelled, not verified; the L2 reading is tied to it by the correspondence check.
-/
import ChemModel.Basic.Num
import ChemModel.Gen.FnProps
import ChemModel.Model.Units

namespace ChemModel.PhysProps
open ChemModel ChemModel.Gen

/-- entry of a signature record `…Sig` emitted by pyfn2lean (defaults of the Python parameters, `@backend`, `@warn`, …) -/
def sigGet (sig : List (String × String)) (k : String) : Option String :=
  match sig with
  | [] => none
  | (k', v) :: r => if k' == k then some v else sigGet r k

/-! ## L1: scale-factor semantics -/
instance : HasToUnitless Float := ⟨id⟩
instance : HasToUnitless Rat := ⟨id⟩

/-! ## sulfuric_acid_density (Myhre 1998): hand-modelled tail over the extracted table -/
section Sulfuric
variable {α : Type} [Add α] [Sub α] [Mul α] [Div α] [Neg α] [NatCast α]

/-- one row of `(t_arr * w_arr) * _data` summed: `Σ_j (t^j * w^i) * data[i][j]`, j counted from `j` -/
def rowSum (wi t : α) : List α → Nat → α
  | [], _ => ((0 : Nat) : α)
  | d :: r, j => (Num.npow t j * wi) * d + rowSum wi t r (j + 1)

/-- `np.sum((t_arr * w_arr) * _data)` = `Σ_i Σ_j (t^j * w^i) * data[i][j]` (rows counted from `i`).
    The pairwise summation order of numpy is not modelled (exact arithmetic). -/
def tableSum (w t : α) : List (List α) → Nat → α
  | [], _ => ((0 : Nat) : α)
  | row :: rest, i => rowSum (Num.npow w i) t row 0 + tableSum w t rest (i + 1)

/-- `sulfuric_acid_density(w, T)` with `units=None` (kg = m3 = 1): the head of the function through `Gen.sulfuricT` (= `t_K`), then
    `np.sum((t_arr * w_arr) * _data) * kg / m3` -/
def sulfuricAcidDensity (w T : α) : α :=
  tableSum w (sulfuricT w T) sulfuric_data 0

/-- L1 reading of `sulfuric_acid_density(w, T, units=u)` (as repaired: `t_K = to_unitless(t / K)` before `float`):
    all arguments are SI values / scale factors. -/
def sulfuricAcidDensityU [HasToUnitless α] (w T uK ukg um : α) : α :=
  tableSum w (sulfuricTU w T uK ukg um) sulfuric_data 0 * sulfuricUnitU w T uK ukg um

end Sulfuric





/-! ## lg_solubility_ratio (Schumpe 1993) -/
section Schumpe
variable {α : Type} [Add α] [Mul α] [Div α] [Neg α] [NatCast α]

/-- dictionary lookup `d[k]` -/
def lookup (tbl : List (String × α)) (k : String) : Option α :=
  match tbl with
  | [] => none
  | (k', v) :: r => if k' == k then some v else lookup r k

/-- the list comprehension `[(p_gas_rM[gas] / M + p_ion_rM[k] / M) * v for k, v in electrolytes.items()]`:
    per item first `p_gas_rM[gas]`, then `p_ion_rM[k]`; a missing key raises KeyError -/
def lgTerms (M : α) (gas : String) : List (String × α) → Except String (List α)
  | [] => .ok []
  | (k, v) :: r =>
    match lookup schumpeGas gas with
    | none => .error "KeyError"
    | some pg =>
      match lookup schumpeIon k with
      | none => .error "KeyError"
      | some pk =>
        match lgTerms M gas r with
        | .error e => .error e
        | .ok l => .ok (((pg / M + pk / M) * v) :: l)

/-- Python `sum(list)`: left fold from the int 0 -/
def pySum (l : List α) : α := l.foldl (· + ·) ((0 : Nat) : α)

/-- `lg_solubility_ratio(electrolytes, gas, units)`; `M` is 1 (units=None) or `units.molar` -/
def lgSolubilityRatio (M : α) (electrolytes : List (String × α)) (gas : String) : Except String α :=
  match lgTerms M gas electrolytes with
  | .error e => .error e
  | .ok l => .ok (pySum l)

/-- `warn and "F-" in electrolytes` -/
def lgSolubilityWarns (electrolytes : List (String × α)) : Bool :=
  electrolytes.any (fun p => p.1 == "F-")

end Schumpe



/-! ## density_from_concentration -/
section Dfc
variable {α : Type} [Add α] [Sub α] [Mul α] [Div α] [Neg α] [NatCast α] [LT α] [DecidableLT α]

/-- Python `abs` on a number -/
def pyAbs (x : α) : α := if x < ((0 : Nat) : α) then -x else x

/-- the `while` loop of `density_from_concentration` (lines 179-187) with fuel:
    `new_rho = rho_cb(conc * molar_mass / rho, …); delta_rho = new_rho - rho; rho = new_rho; iter_idx += 1;
     if iter_idx > maxiter: raise NoConvergence`, then the loop test `atol < abs(delta_rho)`.
    The first pass is unconditional (`delta_rho = inf`).  With fuel = maxiter + 1 the fuel never runs out before the
    `iter_idx > maxiter` test raises (`dfcIter_fuel`). -/
def dfcIter (rhoCb : α → α) (conc molarMass atol : α) (maxiter : Nat) : Nat → α → Nat → Except String α
  | 0, _, _ => .error "NoConvergence"
  | fuel + 1, rho, idx =>
    let new := rhoCb (conc * molarMass / rho)
    let delta := new - rho
    if idx + 1 > maxiter then .error "NoConvergence"
    else if atol < pyAbs delta then dfcIter rhoCb conc molarMass atol maxiter fuel new (idx + 1)
    else .ok new

/-- `density_from_concentration(conc, T, molar_mass, rho_cb, atol=…, maxiter=…)`, units=None; `rhoCb w` stands for
    `rho_cb(w, T, units=None, warn=False)` -/
def densityFromConcentrationWith (rhoCb : α → α) (conc molarMass atol rho0 : α) (maxiter : Nat) : Except String α :=
  dfcIter rhoCb conc molarMass atol maxiter (maxiter + 1) rho0 0

/-- the whole function including the FIRST loop test `atol < abs(float("inf"))`: `entered` is that test (true for every finite `atol`; false for
    `atol = inf` and `atol = nan`, where Python never enters the loop and returns the start value `1100 kg/m³` without calling `rho_cb`).
    Over ℝ every `atol` is finite, so the theorems are about `densityFromConcentrationWith`; the driver computes `entered` in Float.
    A negative `maxiter` behaves like 0 (the first pass raises NoConvergence). -/
def densityFromConcentrationPy (entered : Bool) (rhoCb : α → α) (conc molarMass atol rho0 : α) (maxiter : Nat) : Except String α :=
  if entered then densityFromConcentrationWith rhoCb conc molarMass atol rho0 maxiter else .ok rho0

/-- all defaults (`rho_cb = sulfuric_acid_density`, `atol`, `molar_mass`, start value, `maxiter` from the source) -/
def densityFromConcentration (conc T : α) : Except String α :=
  densityFromConcentrationWith (fun w => sulfuricAcidDensity w T) conc (dfcInit_1 conc) (dfcInit_0 conc) (dfcInit_2 conc) dfcMaxiter

end Dfc



/-! ## Henry -/
section Henry
variable {α : Type} [Add α] [Sub α] [Mul α] [Div α] [Neg α] [NatCast α] [HasExp α] [HasToUnitless α]

/-- `Henry(Hcp, Tderiv, T0=None, ref=None)` (the `ref` field carries no behaviour) -/
structure Henry (α : Type) where
  Hcp : α
  Tderiv : α
  T0 : Option α

/-- `Henry.__call__(T)` with `units=None`: `Henry_H_at_T(T, self.Hcp, self.Tderiv, self.T0, units=None)` -/
def Henry.call (h : Henry α) (T : α) : α :=
  match h.T0 with
  | none => henryHAtTDefault T h.Hcp h.Tderiv
  | some t0 => henryHAtT T h.Hcp h.Tderiv t0

/-- `Henry.__call__(T, units=u)` in the L1 reading (`uK` = scale factor of `u.Kelvin`) -/
def Henry.callU (h : Henry α) (T uK : α) : α :=
  match h.T0 with
  | none => henryHAtTDefaultU T h.Hcp h.Tderiv uK
  | some t0 => henryHAtTU T h.Hcp h.Tderiv t0 uK

/-- `HenryWithUnits.__call__(T, units=default_units)`: `super().__call__(T, units, backend)`, i.e. `Henry.__call__` with the units
    object, which forwards `self.Hcp, self.Tderiv, self.T0` (the instance's reference temperature) to `Henry_H_at_T` -/
def Henry.callWithUnits (h : Henry α) (T uK : α) : α := h.callU T uK

/-- the same named tuple with `Tderiv` and `T0` given as quantities in a temperature unit of scale factor `K` (L1: SI values) -/
def Henry.inUnit [Mul α] (h : Henry α) (K : α) : Henry α := ⟨h.Hcp, h.Tderiv * K, h.T0.map (· * K)⟩

/-- the deprecated alias `Henry.get_kH_at_T(*args, **kwargs)`: `return self(*args, **kwargs)` -/
def Henry.getKHAtT (h : Henry α) (T : α) : α := h.call T

/-- `Henry.get_c_at_T_and_P(T, P)`: `P * self(T)` -/
def Henry.getC (h : Henry α) (T P : α) : α := P * h.call T
/-- `Henry.get_P_at_T_and_c(T, c)`: `c / self(T)` -/
def Henry.getP (h : Henry α) (T c : α) : α := c / h.call T
def Henry.getCU (h : Henry α) (T P uK : α) : α := P * h.callU T uK
def Henry.getPU (h : Henry α) (T c uK : α) : α := c / h.callU T uK

end Henry






/-! ## L2: the quantity algebra (`quantities`, modelled) -/
section UVsec
variable {α : Type}

/-- a Python value in unit mode: plain number, `quantities.Quantity` (C09 structure), or a raised exception -/
inductive UV (α : Type)
  | num (x : α)
  | qty (q : Units.Quantity α)
  | err (e : String)

def dimsZero (d : Units.Dims) : Bool := d.all (· == 0)

/-- quantity from magnitude, factor, dims -/
def UV.mk (mag factor : α) (dims : Units.Dims) : UV α := .qty ⟨mag, ⟨factor, dims⟩⟩

variable [Add α] [Sub α] [Mul α] [Div α] [Neg α] [NatCast α] [BEq α]

/-- `a + b` / `a - b` (`op`): the right operand is converted to the unit of the left one (a plain number counts as
    dimensionless and is converted to the unit of the quantity operand); different dimensions raise ValueError -/
def UV.addLike (op : α → α → α) : UV α → UV α → UV α
  | .err e, _ => .err e
  | _, .err e => .err e
  | .num x, .num y => .num (op x y)
  | .num x, .qty q => if dimsZero q.unit.dims then .qty ⟨op (x / q.unit.factor) q.mag, q.unit⟩ else .err "ValueError"
  | .qty q, .num y => if dimsZero q.unit.dims then .qty ⟨op q.mag (y / q.unit.factor), q.unit⟩ else .err "ValueError"
  | .qty a, .qty b =>
    if a.unit.dims == b.unit.dims then .qty ⟨op a.mag (b.mag * (b.unit.factor / a.unit.factor)), a.unit⟩
    else .err "ValueError"

def UV.mul : UV α → UV α → UV α
  | .err e, _ => .err e
  | _, .err e => .err e
  | .num x, .num y => .num (x * y)
  | .num x, .qty q => .qty ⟨x * q.mag, q.unit⟩
  | .qty q, .num y => .qty ⟨q.mag * y, q.unit⟩
  | .qty a, .qty b => .qty ⟨a.mag * b.mag, ⟨a.unit.factor * b.unit.factor, Units.Dims.add a.unit.dims b.unit.dims⟩⟩

def UV.div : UV α → UV α → UV α
  | .err e, _ => .err e
  | _, .err e => .err e
  | .num x, .num y => .num (x / y)
  | .num x, .qty q => .qty ⟨x / q.mag, ⟨((1 : Nat) : α) / q.unit.factor, Units.Dims.smul (-1) q.unit.dims⟩⟩
  | .qty q, .num y => .qty ⟨q.mag / y, q.unit⟩
  | .qty a, .qty b => .qty ⟨a.mag / b.mag, ⟨a.unit.factor / b.unit.factor, Units.Dims.sub a.unit.dims b.unit.dims⟩⟩

def UV.neg : UV α → UV α
  | .err e => .err e
  | .num x => .num (-x)
  | .qty q => .qty ⟨-q.mag, q.unit⟩

instance : Add (UV α) := ⟨UV.addLike (· + ·)⟩
instance : Sub (UV α) := ⟨UV.addLike (· - ·)⟩
instance : Mul (UV α) := ⟨UV.mul⟩
instance : Div (UV α) := ⟨UV.div⟩
instance : Neg (UV α) := ⟨UV.neg⟩
instance : NatCast (UV α) := ⟨fun n => .num ((n : Nat) : α)⟩

/-- `np.exp(q)`, `np.log(q)` on a quantity: it must be (symbolically) dimensionless; modelled as dims = 0 and factor = 1 -/
def UV.transc (f : α → α) : UV α → UV α
  | .err e => .err e
  | .num x => .num (f x)
  | .qty q => if dimsZero q.unit.dims && q.unit.factor == ((1 : Nat) : α) then .qty ⟨f q.mag, q.unit⟩ else .err "ValueError"

instance [HasExp α] : HasExp (UV α) := ⟨UV.transc HasExp.exp⟩
instance [HasLog α] : HasLog (UV α) := ⟨UV.transc HasLog.log⟩

/-- `x ** y` with a non-integer exponent: number ** number; quantity ** number needs zero dimensions in this model
    (fractional dimension exponents are not represented); number ** quantity needs a dimensionless exponent
    ("exponent must be dimensionless": dims = 0 and factor = 1) -/
def UV.rpow [HasRPow α] : UV α → UV α → UV α
  | .err e, _ => .err e
  | _, .err e => .err e
  | .num x, .num y => .num (HasRPow.rpow x y)
  | .qty q, .num y =>
    if dimsZero q.unit.dims then .qty ⟨HasRPow.rpow q.mag y, ⟨HasRPow.rpow q.unit.factor y, q.unit.dims⟩⟩ else .err "Unmodelled"
  | .num x, .qty e =>
    if dimsZero e.unit.dims && e.unit.factor == ((1 : Nat) : α) then .qty ⟨HasRPow.rpow x e.mag, e.unit⟩ else .err "ValueError"
  | .qty _, .qty _ => .err "Unmodelled"

instance [HasRPow α] : HasRPow (UV α) := ⟨UV.rpow⟩

/-- `to_unitless(x)` (new_unit = dimensionless) on a value with a `dimensionality`: ValueError unless dimensionless -/
def UV.toUnitless : UV α → UV α
  | .err e => .err e
  | .num x => .num x
  | .qty q => if dimsZero q.unit.dims then .num (q.mag * q.unit.factor) else .err "ValueError"

instance : HasToUnitless (UV α) := ⟨UV.toUnitless⟩

/-- `float(x)`: the raw magnitude, whatever the unit -/
def UV.float : UV α → Except String α
  | .err e => .error e
  | .num x => .ok x
  | .qty q => .ok q.mag

/-- SI value and dimension vector of a result (`none` for an exception) -/
def UV.si : UV α → Option (α × Units.Dims)
  | .err _ => none
  | .num x => some (x, Units.Dims.zero)
  | .qty q => some (q.mag * q.unit.factor, q.unit.dims)

/-! ### variants of the quantity algebra (type synonyms; the arithmetic is shared)
* `UVm α`   — `backend = math` (nernst_potential): `math.log(x)` is `log(float(x))`, the raw magnitude of a quantity, never an error;
* `UVraw α` / `UVmraw α` — the same algebras in which `to_unitless` does NOTHING: instantiating a generated unit-mode text at these types
  is "the same code with the `to_unitless` calls removed" (the text before the repairs); used by the `…_needs_to_unitless_witness` theorems. -/
def UVm (α : Type) := UV α
def UVraw (α : Type) := UV α
def UVmraw (α : Type) := UV α

/-- `math.log(x)` / `math.exp(x)`: applied to `float(x)` -/
def UV.mathFn (f : α → α) : UV α → UV α
  | .err e => .err e
  | .num x => .num (f x)
  | .qty q => .num (f q.mag)

instance : Add (UVm α) := ⟨UV.addLike (· + ·)⟩
instance : Sub (UVm α) := ⟨UV.addLike (· - ·)⟩
instance : Mul (UVm α) := ⟨UV.mul⟩
instance : Div (UVm α) := ⟨UV.div⟩
instance : Neg (UVm α) := ⟨UV.neg⟩
instance : NatCast (UVm α) := ⟨fun n => UV.num ((n : Nat) : α)⟩
instance [HasLog α] : HasLog (UVm α) := ⟨UV.mathFn HasLog.log⟩
instance : HasToUnitless (UVm α) := ⟨UV.toUnitless⟩

instance : Add (UVmraw α) := ⟨UV.addLike (· + ·)⟩
instance : Sub (UVmraw α) := ⟨UV.addLike (· - ·)⟩
instance : Mul (UVmraw α) := ⟨UV.mul⟩
instance : Div (UVmraw α) := ⟨UV.div⟩
instance : Neg (UVmraw α) := ⟨UV.neg⟩
instance : NatCast (UVmraw α) := ⟨fun n => UV.num ((n : Nat) : α)⟩
instance [HasLog α] : HasLog (UVmraw α) := ⟨UV.mathFn HasLog.log⟩
instance : HasToUnitless (UVmraw α) := ⟨id⟩

instance : Add (UVraw α) := ⟨UV.addLike (· + ·)⟩
instance : Sub (UVraw α) := ⟨UV.addLike (· - ·)⟩
instance : Mul (UVraw α) := ⟨UV.mul⟩
instance : Div (UVraw α) := ⟨UV.div⟩
instance : Neg (UVraw α) := ⟨UV.neg⟩
instance : NatCast (UVraw α) := ⟨fun n => UV.num ((n : Nat) : α)⟩
instance [HasExp α] : HasExp (UVraw α) := ⟨UV.transc HasExp.exp⟩
instance [HasLog α] : HasLog (UVraw α) := ⟨UV.transc HasLog.log⟩
instance [HasRPow α] : HasRPow (UVraw α) := ⟨UV.rpow⟩
instance : HasToUnitless (UVraw α) := ⟨id⟩

/-- `sulfuric_acid_density` with units with the `to_unitless` call removed (pre-repair text): `float(t / K)` of the raw quantity -/
def sulfuricAcidDensityUVraw (w : α) (T uK ukg um : UV α) : UV α :=
  match UV.float (sulfuricTU (α := UVraw α) (UV.num w) T uK ukg um) with
  | .error e => .err e
  | .ok t => UV.mul (UV.num (tableSum w t sulfuric_data 0)) (sulfuricUnitU (α := UVraw α) (UV.num w) T uK ukg um)

/-- L2 reading of `sulfuric_acid_density(w, T, units=u)`: `float(t_K)` of the pure number `to_unitless(t / K)` -/
def sulfuricAcidDensityUV (w : α) (T uK ukg um : UV α) : UV α :=
  match (sulfuricTU (UV.num w) T uK ukg um).float with
  | .error e => .err e
  | .ok t => UV.num (tableSum w t sulfuric_data 0) * sulfuricUnitU (UV.num w) T uK ukg um

end UVsec

end ChemModel.PhysProps
