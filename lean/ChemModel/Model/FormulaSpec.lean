/-
SPECIFICATION side of C01 (also used by C13 / C14): what a written chemical formula *is* and what it *means*.

This file mirrors `tools/harness/formula_gen.py` one to one (same AST, same `render`, same
denotation `composition`), so that the Python harness and the Lean theorems talk about the same objects:

  formula := {prefixes, sep, parts, charge, suffix}
  part    := {n : leading hydrate count | none, terms}
  term    := el z cnt state marks | grp br body cnt state marks | cage body      ('@' body, last of its list)
  cnt     := omitted | int digits | dec digits '.' digits

Nothing in this file looks at chempy's parser: `render` writes the formula down, `occurrences`
lists every element occurrence with the product of its enclosing multipliers (hydrate count included),
`denote f k` is the per-key total (key 0 ↦ signed charge when a charge token is written).
`WF` is the (decidable) class of ASTs the generator produces — the domain of the round-trip theorem.

Import-free apart from the generated tables (`symbols`, default prefix / suffix lists).
-/
import ChemModel.Gen.Periodic
import ChemModel.Gen.FormulaLex

namespace ChemModel.Formula
open ChemModel.Gen

/-- a composition: association list in (Python dict) insertion order, atomic number ↦ amount; key 0 = charge -/
abbrev Comp := List (Nat × Rat)

/-! ### dictionary primitives shared by specification and model -/

/-- `d[k] = d.get(k, 0) + v` — insert at the end when absent (dict insertion order) -/
def addKey (k : Nat) (v : Rat) : Comp → Comp
  | [] => [(k, v)]
  | (k', v') :: r => if k' = k then (k', v' + v) :: r else (k', v') :: addKey k v r

/-- `d[k] = v` -/
def setKey (k : Nat) (v : Rat) : Comp → Comp
  | [] => [(k, v)]
  | (k', v') :: r => if k' = k then (k', v) :: r else (k', v') :: setKey k v r

/-- `for (k, v) in c: acc[k] += v` -/
def mergeInto (acc : Comp) (c : Comp) : Comp := c.foldl (fun a p => addKey p.1 p.2 a) acc

/-- sum by key, keys in order of first occurrence -/
def mergeComp (c : Comp) : Comp := mergeInto [] c

/-- dict lookup (first entry with that key) -/
def Comp.get? : Comp → Nat → Option Rat
  | [], _ => none
  | (k', v) :: r, k => if k' = k then some v else Comp.get? r k

def Comp.keys (c : Comp) : List Nat := c.map Prod.fst

/-- Σ of the amounts of all entries with key `k` -/
def total : Comp → Nat → Rat
  | [], _ => 0
  | (k', v) :: r, k => (if k' = k then v else 0) + total r k

/-! ### the AST -/

inductive Br | paren | square | curly
deriving DecidableEq, Repr, Inhabited
def Br.op : Br → Char | .paren => '(' | .square => '[' | .curly => '{'
def Br.cl : Br → Char | .paren => ')' | .square => ']' | .curly => '}'

/-- state symbols the grammar accepts after a term: `(s) (l) (g) (aq) (cr)` -/
inductive St | s | l | g | aq | cr
deriving DecidableEq, Repr, Inhabited
def St.text : St → List Char
  | .s => ['(', 's', ')'] | .l => ['(', 'l', ')'] | .g => ['(', 'g', ')']
  | .aq => ['(', 'a', 'q', ')'] | .cr => ['(', 'c', 'r', ')']
def stText : Option St → List Char
  | none => []
  | some st => st.text

/-- a written count: omitted, an integer digit string, or digits '.' digits (no sign) -/
inductive Cnt
  | omitted
  | int (ip : List Char)
  | dec (ip fp : List Char)
deriving DecidableEq, Repr, Inhabited

/-- value of an ASCII digit string (`int("0123")`) -/
def digitsVal (ds : List Char) : Nat := ds.foldl (fun a c => 10 * a + (c.toNat - 48)) 0

def Cnt.render : Cnt → List Char
  | .omitted => []
  | .int ip => ip
  | .dec ip fp => ip ++ '.' :: fp

/-- exact value of the written count (omitted = 1) -/
def Cnt.val : Cnt → Rat
  | .omitted => 1
  | .int ip => (digitsVal ip : Nat)
  | .dec ip fp => (digitsVal ip : Nat) + (digitsVal fp : Nat) / ((10 ^ fp.length : Nat) : Rat)

def Cnt.isDec : Cnt → Bool
  | .dec _ _ => true
  | _ => false

mutual
inductive Term
  /-- element with atomic number `z` (1-based index into `symbols`), count, state, marks (`*` / `'`) -/
  | elem (z : Nat) (n : Cnt) (st : Option St) (marks : List Char)
  | group (b : Br) (body : Terms) (n : Cnt) (st : Option St) (marks : List Char)
  /-- `@` body  (caged, e.g. `Li@C60`): extends to the end of its term list -/
  | cage (body : Terms)
inductive Terms
  | nil
  | cons (t : Term) (ts : Terms)
end

instance : Inhabited Term := ⟨.elem 1 .omitted none []⟩
instance : Inhabited Terms := ⟨.nil⟩

def Terms.isNil : Terms → Bool
  | .nil => true
  | .cons _ _ => false

def Term.isCage : Term → Bool
  | .cage _ => true
  | _ => false

def Terms.toList : Terms → List Term
  | .nil => []
  | .cons t ts => t :: ts.toList

def Terms.ofList : List Term → Terms
  | [] => .nil
  | t :: ts => .cons t (Terms.ofList ts)

/-- hydrate separator between parts -/
inductive Sep | dots | cdot
deriving DecidableEq, Repr, Inhabited
def Sep.text : Sep → List Char
  | .dots => ['.', '.']
  | .cdot => ['·']

structure Part where
  /-- leading hydrate count (digit string); `none` for the first part and when omitted -/
  n : Option (List Char)
  terms : Terms

structure Charge where
  neg : Bool
  /-- written magnitude (digit string) or nothing (`+` / `-` alone = ±1) -/
  mag : Option (List Char)
deriving DecidableEq, Repr

structure Formula where
  prefixes : List (List Char)
  sep : Sep
  parts : List Part
  charge : Option Charge
  suffix : Option (List Char)

/-! ### render -/

/-- symbol of atomic number `z` (1-based) -/
def symChars (z : Nat) : List Char := (symbols.getD (z - 1) "").toList

mutual
def Term.render : Term → List Char
  | .elem z n st marks => symChars z ++ (n.render ++ (stText st ++ marks))
  | .group b body n st marks => b.op :: (body.render ++ b.cl :: (n.render ++ (stText st ++ marks)))
  | .cage body => '@' :: body.render
def Terms.render : Terms → List Char
  | .nil => []
  | .cons t ts => t.render ++ ts.render
end

def Part.render (p : Part) : List Char :=
  (match p.n with | none => [] | some ds => ds) ++ p.terms.render

def Charge.render (c : Charge) : List Char :=
  (if c.neg then '-' else '+') :: (match c.mag with | none => [] | some ds => ds)

def renderCharge : Option Charge → List Char
  | none => []
  | some c => c.render

/-- parts joined by the separator -/
def renderParts (sep : Sep) : List Part → List Char
  | [] => []
  | [p] => p.render
  | p :: ps => p.render ++ (sep.text ++ renderParts sep ps)

def Formula.renderStoich (f : Formula) : List Char := renderParts f.sep f.parts

def renderSuffix : Option (List Char) → List Char
  | none => []
  | some s => s

def Formula.render (f : Formula) : List Char :=
  f.prefixes.flatten ++ (f.renderStoich ++ (renderCharge f.charge ++ renderSuffix f.suffix))

def Formula.renderStr (f : Formula) : String := String.ofList f.render

/-! ### denotation -/

mutual
/-- occurrences of a term under the enclosing multiplier `m` -/
def Term.occ (m : Rat) : Term → Comp
  | .elem z n _ _ => [(z, m * n.val)]
  | .group _ body n _ _ => body.occ (m * n.val)
  | .cage body => body.occ m
def Terms.occ (m : Rat) : Terms → Comp
  | .nil => []
  | .cons t ts => t.occ m ++ ts.occ m
end

def Part.mult (p : Part) : Rat :=
  match p.n with
  | none => 1
  | some ds => (digitsVal ds : Nat)

/-- every element occurrence (reading order) with the product of its enclosing multipliers -/
def Formula.occurrences (f : Formula) : Comp := f.parts.flatMap (fun p => p.terms.occ p.mult)

def Charge.val (c : Charge) : Int :=
  (if c.neg then -1 else 1) * (match c.mag with | none => 1 | some ds => (digitsVal ds : Nat))

/-- `denote f k`: total amount of element `k`; `denote f 0` = signed charge (0 when no charge token) -/
def Formula.denote (f : Formula) (k : Nat) : Rat :=
  if k = 0 then (match f.charge with | none => 0 | some c => (c.val : Rat))
  else total f.occurrences k

/-- the composition as a dict in the order `formula_gen.composition` builds it -/
def Formula.composition (f : Formula) : Comp :=
  let c := mergeComp f.occurrences
  match f.charge with
  | none => c
  | some ch => setKey 0 (ch.val : Rat) c

/-! ### well-formedness (what `formula_gen.py` generates) -/

def isDigits (l : List Char) : Bool := !l.isEmpty && l.all Char.isDigit
def isMark (c : Char) : Bool := c == '*' || c == '\''

def Cnt.wf : Cnt → Bool
  | .omitted => true
  | .int ip => isDigits ip
  | .dec ip fp => isDigits ip && isDigits fp

def stFinalOK : Option St → Bool
  | none => true
  | some .cr => true
  | some _ => false

mutual
def Term.wf : Term → Bool
  | .elem z n _ marks => decide (1 ≤ z) && decide (z ≤ 118) && n.wf && marks.all isMark
  | .group _ body n _ marks => body.wf && !body.isNil && n.wf && marks.all isMark
  | .cage body => body.wf && !body.isNil
/-- every term well-formed; a cage term only in last position -/
def Terms.wf : Terms → Bool
  | .nil => true
  | .cons t ts => t.wf && ts.wf && (!t.isCage || ts.isNil)
end

mutual
/-- the term that ends the written text (following cages down) carries no state other than `(cr)`,
    so that the text cannot be mistaken for one ending in a phase suffix `(s) (l) (g) (aq)` -/
def Term.finalOK : Term → Bool
  | .elem _ _ st _ => stFinalOK st
  | .group _ _ _ st _ => stFinalOK st
  | .cage body => body.finalOK
def Terms.finalOK : Terms → Bool
  | .nil => true
  | .cons t ts => if ts.isNil then t.finalOK else ts.finalOK
end

def Part.wf (p : Part) : Bool :=
  (match p.n with | none => true | some ds => isDigits ds) && p.terms.wf && !p.terms.isNil

def Charge.wf (c : Charge) : Bool :=
  match c.mag with | none => true | some ds => isDigits ds

def lastFinalOK : List Part → Bool
  | [] => true
  | [p] => p.terms.finalOK
  | _ :: ps => lastFinalOK ps

def Formula.wf (f : Formula) : Bool :=
  f.prefixes.isSublist prefixesL                         -- prefixes in strip order, each at most once
  && !f.parts.isEmpty
  && (match f.parts with | [] => true | p :: _ => p.n.isNone)   -- no leading count on the first part
  && f.parts.all Part.wf
  && (match f.charge with | none => true | some c => c.wf)
  && (match f.suffix with | none => true | some s => suffixesL.contains s)
  && (f.charge.isSome || lastFinalOK f.parts)

mutual
/-- no decimal count anywhere in the term (mirrors `not formula_gen.has_decimal`) -/
def Term.noDec : Term → Bool
  | .elem _ n _ _ => !n.isDec
  | .group _ body n _ _ => body.noDec && !n.isDec
  | .cage body => body.noDec
def Terms.noDec : Terms → Bool
  | .nil => true
  | .cons t ts => t.noDec && ts.noDec
end

/-- an integer-only formula: every written count is omitted or an integer -/
def Formula.noDecimal (f : Formula) : Bool := f.parts.all (fun p => p.terms.noDec)

/-- well-formed formula ASTs: the domain of the round-trip theorem -/
def Formula.WF (f : Formula) : Prop := f.wf = true
instance (f : Formula) : Decidable f.WF := inferInstanceAs (Decidable (f.wf = true))

def Term.WF (t : Term) : Prop := t.wf = true
def Terms.WF (ts : Terms) : Prop := ts.wf = true


/-! ### string-level denotation (value specification for EVERY accepted text, not only rendered ASTs)

`Den u occ`: the text `u` is a sequence of terms (whitespace allowed between tokens, states and marks after a term, counted
cages) and `occ` lists its element occurrences in reading order, each with the product of the counts of the enclosing groups /
cages. `PartsRead` / `readOcc` add the hydrate multipliers. Used by `accepted_value_sound` (Props/C01). -/

/-- pyparsing's default whitespace characters -/
def isWs (c : Char) : Bool := c == ' ' || c == '\t' || c == '\n' || c == '\r'

/-- `term[1] *= mult` for every pair of the sub-formula -/
def scale (m : Rat) (c : Comp) : Comp := c.map fun p => (p.1, p.2 * m)

/-- text that carries no amount: whitespace, state symbols, prime/star marks -/
inductive Silent : List Char → Prop
  | nil : Silent []
  | ws (c : Char) (r : List Char) : isWs c = true → Silent r → Silent (c :: r)
  | state (st : St) (r : List Char) : Silent r → Silent (st.text ++ r)
  | mark (c : Char) (r : List Char) : isMark c = true → Silent r → Silent (c :: r)

/-- what may be written after an element symbol, a closing bracket or a cage body: optional whitespace, an optional
    count whose value is `n` (1 when omitted), then whitespace / a state symbol / marks -/
def TailOf (tl : List Char) (n : Rat) : Prop :=
  ∃ (w : List Char) (cnt : Cnt) (rest : List Char),
    (∀ c ∈ w, isWs c = true) ∧ cnt.wf = true ∧ n = cnt.val ∧ Silent rest ∧ tl = w ++ (cnt.render ++ rest)

/-- string-level denotation: `Den u occ` — the text `u` is a sequence of terms (elements, bracket groups, cages, with
    whitespace anywhere between tokens) and `occ` lists its element occurrences in reading order, each with the product of the
    counts of the groups / cages enclosing it -/
inductive Den : List Char → Comp → Prop
  | nil : Den [] []
  | ws (c : Char) (r : List Char) (occ : Comp) : isWs c = true → Den r occ → Den (c :: r) occ
  | elem (z : Nat) (tl : List Char) (n : Rat) (r : List Char) (occ : Comp) :
      1 ≤ z → z ≤ 118 → TailOf tl n → Den r occ → Den (symChars z ++ (tl ++ r)) ((z, n) :: occ)
  | group (b : Br) (u : List Char) (occu : Comp) (tl : List Char) (n : Rat) (r : List Char) (occ : Comp) :
      Den u occu → occu ≠ [] → TailOf tl n → Den r occ → Den (b.op :: (u ++ b.cl :: (tl ++ r))) (scale n occu ++ occ)
  | cage (u : List Char) (occu : Comp) (tl : List Char) (n : Rat) (r : List Char) (occ : Comp) :
      Den u occu → occu ≠ [] → TailOf tl n → Den r occ → Den ('@' :: (u ++ (tl ++ r))) (scale n occu ++ occ)

/-- `c` (a dict or pair list returned by the parser) and `occ` (occurrences) have the same per-key totals and key sets -/
def Equiv (c occ : Comp) : Prop := ∀ k, total c k = total occ k ∧ (k ∈ Comp.keys c ↔ k ∈ Comp.keys occ)

/-- how one hydrate part is read: leading ASCII digits give the multiplier `m` (1 when absent; the first part never has any),
    the rest is the electron `e` (no occurrences) or a text with denotation `occ` -/
def PartReads (first : Bool) (piece : List Char) (m : Rat) (occ : Comp) : Prop :=
  ∃ ds text, piece = ds ++ text ∧ (∀ c ∈ ds, c.isDigit = true) ∧ (first = true → ds = []) ∧
    m = (if ds = [] then 1 else ((digitsVal ds : Nat) : Rat)) ∧ ((text = ['e'] ∧ occ = []) ∨ Den text occ)

inductive PartsRead : Bool → List (List Char) → List (Rat × Comp) → Prop
  | nil (b : Bool) : PartsRead b [] []
  | cons (b : Bool) (p : List Char) (ps : List (List Char)) (m : Rat) (occ : Comp) (rd : List (Rat × Comp)) :
      PartReads b p m occ → PartsRead false ps rd → PartsRead b (p :: ps) ((m, occ) :: rd)

/-- all element occurrences of the parts, each multiplied by its part's multiplier -/
def readOcc (rd : List (Rat × Comp)) : Comp := rd.flatMap (fun p => scale p.1 p.2)


/-! ### the charge number as `int()` reads ASCII text -/

/-- ASCII characters that `int()` strips from both ends of its argument -/
def isPySpace (c : Char) : Bool :=
  c == ' ' || c == '\t' || c == '\n' || c == '\r' || c == '\x0b' || c == '\x0c'

/-- digit groups joined by single underscores -/
def joinUnders : List (List Char) → List Char
  | [] => []
  | [g] => g
  | g :: gs => g ++ '_' :: joinUnders gs

/-- the text of a well-formed charge number: blanks, digit groups joined by single underscores, blanks -/
def IntText (rest : List Char) (n : Nat) : Prop :=
  ∃ (w1 w2 : List Char) (gs : List (List Char)),
    (∀ c ∈ w1, isPySpace c = true) ∧ (∀ c ∈ w2, isPySpace c = true) ∧ gs ≠ [] ∧
    (∀ g ∈ gs, g ≠ [] ∧ ∀ c ∈ g, c.isDigit = true) ∧ rest = w1 ++ (joinUnders gs ++ w2) ∧ n = digitsVal gs.flatten


end ChemModel.Formula
