/-
Executable model of the hand-modelled part of `chempy/electrolytes.py` AS IT IS:
`ionic_strength` (list form and dict form with charges read from the formulas, neutrality warning through
`chempy.units.allclose`), the three `*_activity_product` loops and the two `_ActivityProductBase` subclasses.
The straight-line numeric bodies (`A`, `B`, `*_log_gamma`) are NOT written here: they are generated from the source
text on every run (`Gen/FnElectrolytes.lean`) and only used.

Generic over the number class (`Rat` exact / `Float` in the driver, `ℝ` in the proofs).  Import-free apart from the
generated files and the formula model of C01 (charges of the dict form).

Python semantics read by hand (tied by the correspondence check):
* `tot = None; for ...: if tot is None: tot = x else: tot += x` — the first term is assigned, the others are added from
  the left; no term: `tot` stays `None` and the following `tot * 0` (warn=True) or `tot / 2` raises `TypeError`;
* `zip` truncates, but the lengths were compared before (`ValueError`);
* `abs`, `<=` on numbers; `allclose` takes its scalar path (`len(d)` raises `TypeError` for a number / 0-d Quantity);
* dict form: `" ".join(keys).split()` (ASCII white space is modelled), `OrderedDict` of `Substance.from_formula(k)` in that
  order (first failing formula raises), `substances[k]` per item (`KeyError` when a key contains white space or is empty),
  `zip(*[])` of an empty dict → `ValueError`; `Substance.charge` = `composition.get(0, 0)`;
* `z[idx]` with `idx` from `enumerate(stoich)` → `IndexError` when `z` (or `a`) is shorter than `stoich`.
-/
import ChemModel.Basic.Num
import ChemModel.Gen.FnElectrolytes
import ChemModel.Model.Formula

namespace ChemModel.Electrolytes
open ChemModel ChemModel.Gen.Electrolytes

/-- exception classes raised by the modelled code -/
inductive Err
  /-- "molalities and charges of different lengths", or `zip(*[])` of an empty dict -/
  | valueError
  /-- `None * 0` / `None / 2` (no entries) -/
  | typeError
  /-- `substances[k]` for a key that is not one of the white-space separated pieces -/
  | keyError
  /-- `z[idx]` / `a[idx]` beyond the end -/
  | indexError
  /-- raised by `Substance.from_formula` (formula parser) -/
  | formula (e : Formula.ErrKind)
deriving DecidableEq, Repr

def Err.pyName : Err → String
  | .valueError => "ValueError"
  | .typeError => "TypeError"
  | .keyError => "KeyError"
  | .indexError => "IndexError"
  | .formula e => e.pyName

section generic
variable {α : Type} [Add α] [Sub α] [Mul α] [Div α] [Neg α] [NatCast α]

/-- `chempy.units.allclose(a, b, rtol, atol)` for scalars (units.py:514-538).  The expressions `d = abs(a - b)` and
    `lim = abs(a) * rtol; lim = lim + atol` are GENERATED from the source text (`allcloseD`, `allcloseLim`); hand-written is only the
    final `return np.all(d <= lim)` (its text is guarded: `Gen.allcloseReturnText`). -/
def allclose [LT α] [DecidableLT α] [LE α] [DecidableLE α] (a b rtol atol : α) : Bool :=
  decide (allcloseD a b ≤ allcloseLim a rtol atol)

/-- the accumulation idiom of electrolytes.py:71-75 and 77-82: `None` without entries, otherwise the first term and
    then `+=` from the left (the extractor checks the idiom and that first and added term are the same expression) -/
def loopSum (f : α → α → α) : List (α × α) → Option α
  | [] => none
  | p :: r => some (r.foldl (fun t q => t + f q.1 q.2) (f p.1 p.2))

/-- the test of electrolytes.py:83 — `not allclose(net, tot * 0, atol=tot * 1e-14)` (rtol: the default of allclose);
    `tot * 0` and `tot * 1e-14` are the generated `isNeutralRef`, `isNeutralAtol` -/
def notNeutral [LT α] [DecidableLT α] [LE α] [DecidableLE α] (net tot : α) : Bool :=
  !(allclose net (isNeutralRef tot) allcloseRtol (isNeutralAtol tot))

/-- `ionic_strength(molalities, charges, warn=warn)` (list form, electrolytes.py:69-85):
    value and whether "Molalities not charge neutral" is warned.  The per-ion terms `b * z ** 2`, `b * z` and the result
    `tot / 2` are the GENERATED `isTermTot`, `isTermNet`, `isResult` (source text); hand-written is the control flow. -/
def ionicStrength [LT α] [DecidableLT α] [LE α] [DecidableLE α]
    (molalities charges : List α) (warn : Bool) : Except Err (α × Bool) :=
  if molalities.length ≠ charges.length then .error .valueError else
  let ps := molalities.zip charges
  match loopSum isTermTot ps, loopSum isTermNet ps with
  | some tot, some net => .ok (isResult tot, warn && notNeutral net tot)
  | _, _ => .error .typeError

/-! ### the other paths of `allclose` and vectorised molalities -/

/-- `allclose(a, b, rtol, atol)` for two numpy arrays of the same length with an array `atol` (units.py:545-553, last return):
    `np.all([_d <= _lim for _d, _lim in zip(d, lim)])` with `d = abs(a - b)`, `lim = abs(a) * rtol + atol` element by element -/
def allcloseArr [LT α] [DecidableLT α] [LE α] [DecidableLE α] (a b : List α) (rtol : α) (atol : List α) : Bool :=
  (List.zipWith (fun (xy : α × α) t => allclose xy.1 xy.2 rtol t) (a.zip b) atol).all id

/-- `allclose(a, b, rtol, atol)` for a scalar `a` and a numpy array `b` (scalar `lim`, array `d`: units.py:550-551) -/
def allcloseScalarArr [LT α] [DecidableLT α] [LE α] [DecidableLE α] (a : α) (b : List α) (rtol atol : α) : Bool :=
  b.all fun y => allclose a y rtol atol

/-- an argument of `allclose`: a number or a 1-d numpy array -/
inductive Arg (α : Type)
  | scalar (x : α)
  | arr (l : List α)

/-- `len` of an array argument, `none` for a number -/
def Arg.size : Arg α → Option Nat
  | .scalar _ => none
  | .arr l => some l.length

/-- element `i` after numpy broadcasting (a number and a one-element array are repeated) -/
def Arg.get (d : α) : Arg α → Nat → α
  | .scalar x, _ => x
  | .arr [x], _ => x
  | .arr l, i => l.getD i d

/-- numpy broadcasting of two 1-d shapes: `none` = "operands could not be broadcast together" -/
def bcast : Option Nat → Option Nat → Option (Option Nat)
  | none, s => some s
  | s, none => some s
  | some m, some n => if m = n then some (some m) else if m = 1 then some (some n) else if n = 1 then some (some m) else none

/-- `allclose(a, b, rtol, atol)` for numbers / 1-d arrays in every combination (units.py:531-557 after the repairs of
    `lim = lim + atol`, `np.all(d <= lim)` and `lim, d = lim + 0*d, d + 0*lim`): `abs(a - b)` that cannot be broadcast falls into
    the `len(a) == len(b)` fallback (→ `False`); a `lim = abs(a)*rtol + atol` or a final broadcast that cannot be formed raises
    `ValueError`; otherwise ONE truth value: every element of the common shape satisfies `d ≤ lim` (`allcloseD`, `allcloseLim`). -/
def allcloseB [LT α] [DecidableLT α] [LE α] [DecidableLE α] (a b : Arg α) (rtol : α) (atol : Arg α) : Except Err Bool :=
  let z : α := ((0 : Nat) : α)
  match bcast a.size b.size with
  | none => .ok false
  | some sd => match bcast a.size atol.size with
    | none => .error .valueError
    | some sl => match bcast sd sl with
      | none => .error .valueError
      | some none => .ok (allclose (a.get z 0) (b.get z 0) rtol (atol.get z 0))
      | some (some n) => .ok ((List.range n).all fun i => allclose (a.get z i) (b.get z i) rtol (atol.get z i))

/-- `allclose(a, b, rtol, atol)` for two Python lists of numbers (`abs(a - b)` raises, units.py:531-536): element-wise with the
    same tolerances when the lengths agree, `False` otherwise -/
def allcloseList [LT α] [DecidableLT α] [LE α] [DecidableLE α] (a b : List α) (rtol atol : α) : Bool :=
  if a.length = b.length then (List.zipWith (fun x y => allclose x y rtol atol) a b).all id else false

/-- `allclose(list, number)` / `allclose(number, list)`: `abs(a - b)` raises and so does `len` of the number (units.py:537-538) -/
def allcloseListScalar : Bool := false

/-- numpy `x + y` for arrays of the same length -/
def vecAdd (x y : List α) : List α := List.zipWith (· + ·) x y

/-- the accumulation idiom when every molality is a numpy array (one entry per sample): first term, then `+=` element-wise -/
def loopSumVec (f : α → α → α) : List (List α × α) → Option (List α)
  | [] => none
  | p :: r => some (r.foldl (fun t q => vecAdd t (q.1.map fun b => f b q.2)) (p.1.map fun b => f b p.2))

/-- `ionic_strength([array_1, ..., array_k], charges, warn=warn)` with arrays of one common length (a k×m array iterates over its
    rows in the same way): the array of ionic strengths and ONE warning when some sample fails the neutrality test
    (`allclose` takes its array path) -/
def ionicStrengthVec [LT α] [DecidableLT α] [LE α] [DecidableLE α]
    (molalities : List (List α)) (charges : List α) (warn : Bool) : Except Err (List α × Bool) :=
  if molalities.length ≠ charges.length then .error .valueError else
  let ps := molalities.zip charges
  match loopSumVec isTermTot ps, loopSumVec isTermNet ps with
  | some tot, some net =>
    .ok (tot.map isResult, warn && !(allcloseArr net (tot.map isNeutralRef) allcloseRtol (tot.map isNeutralAtol)))
  | _, _ => .error .typeError

/-! ### dict form -/

/-- white space of `str.split()` (= `str.isspace()`) -/
def isPyWs (c : Char) : Bool :=
  c == ' ' || c == '\t' || c == '\n' || c == '\r' || c == '\x0b' || c == '\x0c' ||
  c == '\x1c' || c == '\x1d' || c == '\x1e' || c == '\x1f' ||
  -- the non-ASCII code points with `str.isspace()` (CPython 3.12): NEL, NBSP, OGHAM SPACE, EN QUAD … HAIR SPACE, LS, PS, NNBSP, MMSP, IDEOGRAPHIC SPACE
  c.toNat == 0x85 || c.toNat == 0xa0 || c.toNat == 0x1680 || (0x2000 ≤ c.toNat && c.toNat ≤ 0x200a) ||
  c.toNat == 0x2028 || c.toNat == 0x2029 || c.toNat == 0x202f || c.toNat == 0x205f || c.toNat == 0x3000

/-- `s.split()` -/
def pySplitAux : List Char → List Char → List (List Char)
  | [], cur => if cur.isEmpty then [] else [cur.reverse]
  | c :: r, cur =>
    if isPyWs c then (if cur.isEmpty then pySplitAux r [] else cur.reverse :: pySplitAux r [])
    else pySplitAux r (c :: cur)

def pySplit (s : List Char) : List (List Char) := pySplitAux s []

/-- `" ".join(keys)` -/
def joinSp : List (List Char) → List Char
  | [] => []
  | [k] => k
  | k :: r => k ++ ' ' :: joinSp r

/-- `Substance.from_formula(k).charge` = `formula_to_composition(k).get(0, 0)` (an `int` set by `_get_charge`) -/
def formulaCharge (k : List Char) : Except Err Int :=
  match Formula.formulaToCompositionL k with
  | .error e => .error (.formula e)
  | .ok c => match Formula.Comp.get? c 0 with
    | none => .ok 0
    | some q => .ok q.num

/-- the `OrderedDict([(k, substance_factory(k)) for k in substances.split()])` of electrolytes.py:63-65, charges only;
    `factory k` is `substance_factory(k).charge` (or the exception the factory raises) -/
def chargeTableWith (factory : List Char → Except Err Int) : List (List Char) → Except Err (List (List Char × Int))
  | [] => .ok []
  | k :: r => match factory k with
    | .error e => .error e
    | .ok z => match chargeTableWith factory r with
      | .error e => .error e
      | .ok t => .ok ((k, z) :: t)

/-- with the default factory `Substance.from_formula` -/
def chargeTable : List (List Char) → Except Err (List (List Char × Int)) := chargeTableWith formulaCharge

/-- the `substances` argument of `ionic_strength` -/
inductive Substances
  /-- `None`: the keys of `molalities`, joined by blanks -/
  | default
  /-- a string of white-space separated names -/
  | names (s : List Char)
  /-- a mapping name → Substance, given by the charges of its values (insertion order, keys distinct) -/
  | mapping (t : List (List Char × Int))

def lookupCharge (t : List (List Char × Int)) (k : List Char) : Except Err Int :=
  match t.find? (fun p => p.1 == k) with
  | some p => .ok p.2
  | none => .error .keyError

/-- `[(substances[k].charge, v) for k, v in molalities.items()]` -/
def dictPairs (t : List (List Char × Int)) : List (List Char × α) → Except Err (List (α × α))
  | [] => .ok []
  | (k, v) :: r => match lookupCharge t k with
    | .error e => .error e
    | .ok z => match dictPairs t r with
      | .error e => .error e
      | .ok ps => .ok ((v, Num.ofInt z) :: ps)

/-- `ionic_strength({key: molality, ...}, substances=subs, substance_factory=factory, warn=warn)` (electrolytes.py:59-68
    followed by the list form); the dict is given in insertion order, keys distinct.  The charge of every entry is looked up
    BY ITS KEY in `substances` (`substances[k].charge`), whatever the order or size of `substances`. -/
def ionicStrengthDictG [LT α] [DecidableLT α] [LE α] [DecidableLE α]
    (factory : List Char → Except Err Int) (subs : Substances)
    (molalities : List (List Char × α)) (warn : Bool) : Except Err (α × Bool) :=
  let table : Except Err (List (List Char × Int)) := match subs with
    | .default => chargeTableWith factory (pySplit (joinSp (molalities.map Prod.fst)))
    | .names s => chargeTableWith factory (pySplit s)
    | .mapping t => .ok t
  match table with
  | .error e => .error e
  | .ok t => match dictPairs t molalities with
    | .error e => .error e
    | .ok [] => .error .valueError      -- `charges, molalities = zip(*[])`
    | .ok ps => ionicStrength (ps.map Prod.fst) (ps.map Prod.snd) warn

/-- `ionic_strength({key: molality, ...}, warn=warn)`: default `substances` and `substance_factory` -/
def ionicStrengthDict [LT α] [DecidableLT α] [LE α] [DecidableLE α]
    (molalities : List (List Char × α)) (warn : Bool) : Except Err (α × Bool) :=
  ionicStrengthDictG formulaCharge .default molalities warn

/-! ### activity products -/

/-- `tot = 0; for idx, nr in enumerate(stoich): tot += nr * lg(z[idx])` -/
def apTot (lg : α → α) : List α → List α → α → Except Err α
  | [], _, tot => .ok tot
  | _ :: _, [], _ => .error .indexError
  | nr :: s, z :: zs, tot => apTot lg s zs (tot + nr * lg z)

/-- the same with two indexed sequences (`z[idx]`, `a[idx]`) -/
def apTot2 (lg : α → α → α) : List α → List α → List α → α → Except Err α
  | [], _, _, tot => .ok tot
  | _ :: _, [], _, _ => .error .indexError
  | _ :: _, _ :: _, [], _ => .error .indexError
  | nr :: s, z :: zs, a :: as, tot => apTot2 lg s zs as (tot + nr * lg z a)

variable [HasRPow α] [HasExp α]

/-- `limiting_activity_product(IS, stoich, z, T, eps_r, rho)` (electrolytes.py:228-235) -/
def limitingActivityProduct (IS : α) (stoich z : List α) (T eps_r rho : α) : Except Err α :=
  let Aval := aNum eps_r T rho ((1 : Nat) : α)
  match apTot (fun zi => limitingLogGammaD IS zi Aval) stoich z ((0 : Nat) : α) with
  | .error e => .error e
  | .ok tot => .ok (HasExp.exp tot)

/-- `extended_activity_product(IS, stoich, z, a, T, eps_r, rho, C)` (electrolytes.py:238-245) -/
def extendedActivityProduct (IS : α) (stoich z a : List α) (T eps_r rho C : α) : Except Err α :=
  let Aval := aNum eps_r T rho ((1 : Nat) : α)
  let Bval := bNum eps_r T rho ((1 : Nat) : α)
  match apTot2 (fun zi ai => extendedLogGammaDC IS zi ai Aval Bval C) stoich z a ((0 : Nat) : α) with
  | .error e => .error e
  | .ok tot => .ok (HasExp.exp tot)

/-- `davies_activity_product(IS, stoich, z, a, T, eps_r, rho, C)` (electrolytes.py:248-254); `a` is not used by the source -/
def daviesActivityProduct (IS : α) (stoich z : List α) (T eps_r rho C : α) : Except Err α :=
  let Aval := aNum eps_r T rho ((1 : Nat) : α)
  match apTot (fun zi => daviesLogGammaDC IS zi Aval C) stoich z ((0 : Nat) : α) with
  | .error e => .error e
  | .ok tot => .ok (HasExp.exp tot)

variable [LT α] [DecidableLT α] [LE α] [DecidableLE α]

/-- `_ActivityProductBase(stoich, *args)(c)` (electrolytes.py:95-96): the base class does nothing and returns `None` -/
def baseClassCall (_stoich : List α) (_c : List α) : Option α := none

/-- `LimitingDebyeHuckelActivityProduct(stoich, z, T, eps_r, rho)(c)` (electrolytes.py:257-261):
    `IS = ionic_strength(c, z)` (warn=True) and then the product; the flag says whether the neutrality warning was issued -/
def limitingClassCall (stoich z : List α) (T eps_r rho : α) (c : List α) : Except Err (α × Bool) :=
  match ionicStrength c z true with
  | .error e => .error e
  | .ok (IS, w) => match limitingActivityProduct IS stoich z T eps_r rho with
    | .error e => .error e
    | .ok v => .ok (v, w)

/-- `ExtendedDebyeHuckelActivityProduct(stoich, z, a, T, eps_r, rho[, C])(c)` (electrolytes.py:264-268): the arguments are passed on
    with `*self.args`, so a missing `C` takes the default of `extended_activity_product` (`C=0`, pinned by `sig_products_guard`) -/
def extendedClassCall (stoich z a : List α) (T eps_r rho : α) (C : Option α) (c : List α) : Except Err (α × Bool) :=
  match ionicStrength c z true with
  | .error e => .error e
  | .ok (IS, w) => match extendedActivityProduct IS stoich z a T eps_r rho (C.getD ((0 : Nat) : α)) with
    | .error e => .error e
    | .ok v => .ok (v, w)

end generic
end ChemModel.Electrolytes
