/-
Executable model of chempy's formula parsing AS IT IS (chempy/util/parsing.py):
`_get_formula_parser` (pyparsing grammar + parse actions), `_get_charge`, `_formula_to_parts`,
`_parse_stoich`, `_get_leading_integer`, `formula_to_composition`.
Strings are `List Char` (Python code points); counts are exact decimals (`Rat`); a composition is an
association list in Python dict insertion order. Import-free apart from the generated tables.

pyparsing semantics assumed (tied by the correspondence check, see notes/C01.md):
* every `Regex` token first skips the default whitespace `" \t\n\r"` (`parseString` also expands tabs);
* `a | b` is ordered choice (MatchFirst) without backtracking into a completed alternative;
* `OneOrMore(term)` is greedy and stops at the first position where `term` fails;
* `Optional(x)` that fails leaves the position where it was;
* parse actions: `count` yields 1 on the empty match, else `float(text)`; `multiplyContents` multiplies every
  `[element, amount]` pair of the (already summed) sub-formula by the group's count and splices the pairs into the
  parent; `sumByElement` sums per element in order of first occurrence (and is the identity without duplicates);
* `parseAll=True` skips trailing whitespace and then requires the end of the string.
Outside the modelled domain: non-ASCII digits (`\d`, `int()`) and non-ASCII whitespace inside the charge number.
-/
import ChemModel.Gen.Periodic
import ChemModel.Gen.FormulaLex
import ChemModel.Model.FormulaSpec

namespace ChemModel.Formula
open ChemModel.Gen

/-- why the real code raises -/
inductive ErrKind
  /-- `pyparsing.ParseException` from `parseString(stoich, parseAll=True)` -/
  | parse
  /-- `ValueError`: "Slashes ('/') in charge strings are deprecated" -/
  | slash
  /-- `ValueError`: "Multiple tokens: +" / "-" -/
  | multiToken
  /-- `ValueError` from `_get_charge` (both signs, text on both sides, not an integer, sign missing) -/
  | charge
  /-- `ValueError` from `symbols.index(k)` (token accepted by the element regex but absent from `symbols`) -/
  | symbol
deriving DecidableEq, Repr

/-- Python exception class name -/
def ErrKind.pyName : ErrKind → String
  | .parse => "ParseException"
  | _ => "ValueError"

/-! ### lexical level -/

def skipWs : List Char → List Char
  | [] => []
  | c :: r => if isWs c then skipWs r else c :: r

/-- one alternative `X[set]` / `X[set]?` of the element regex at the head of the input: (token, rest) -/
def matchBranch (b : Char × List Char × Bool) : List Char → Option (List Char × List Char)
  | c1 :: c2 :: rest =>
    if c1 = b.1 then
      if b.2.1.contains c2 then some ([c1, c2], rest)
      else if b.2.2 then some ([c1], c2 :: rest) else none
    else none
  | [c1] => if c1 = b.1 ∧ b.2.2 then some ([c1], []) else none
  | [] => none

/-- ordered alternation: the first branch that matches wins (Python `re` semantics for `a|b|c` at top level) -/
def matchElemAux : List (Char × List Char × Bool) → List Char → Option (List Char × List Char)
  | [], _ => none
  | b :: bs, s => match matchBranch b s with
    | some r => some r
    | none => matchElemAux bs s

/-- `symbols.index(tok) + 1` -/
def symIndex (tok : List Char) : Option Nat :=
  let i := symbols.findIdx (fun t => t.toList = tok)
  if i < symbols.length then some (i + 1) else none

/-- element token at the head of the input: atomic number and rest.
    (Python looks the token up in `symbols` after the parse and raises ValueError when absent; here the lookup happens at
    token time and an absent token fails the term — both reject, see `ErrKind.symbol` and theorem `elem_table_sound`.) -/
def matchElem (s : List Char) : Option (Nat × List Char) :=
  match matchElemAux elemBranches s with
  | some (tok, rest) => (symIndex tok).map (·, rest)
  | none => none

def takeDigits : List Char → List Char × List Char
  | c :: cs => if c.isDigit then let (d, r) := takeDigits cs; (c :: d, r) else ([], c :: cs)
  | [] => ([], [])

/-- `Regex(r"(\d+\.\d+|\d*)")` with parse action `1 if t[0] == "" else float(t[0])` (always matches) -/
def parseCount (s : List Char) : Rat × List Char :=
  let ip := (takeDigits s).1
  let r := (takeDigits s).2
  if ip = [] then (1, s)
  else match r with
    | '.' :: r2 =>
      let fp := (takeDigits r2).1
      if fp = [] then ((digitsVal ip : Nat), r)
      else ((digitsVal ip : Nat) + (digitsVal fp : Nat) / ((10 ^ fp.length : Nat) : Rat), (takeDigits r2).2)
    | _ => ((digitsVal ip : Nat), r)

/-- `Regex(r"\((s|l|g|aq|cr)\)")` -/
def matchState : List Char → Option (List Char)
  | '(' :: 's' :: ')' :: r => some r
  | '(' :: 'l' :: ')' :: r => some r
  | '(' :: 'g' :: ')' :: r => some r
  | '(' :: 'a' :: 'q' :: ')' :: r => some r
  | '(' :: 'c' :: 'r' :: ')' :: r => some r
  | _ => none

def dropMarks : List Char → List Char
  | [] => []
  | c :: r => if isMark c then dropMarks r else c :: r

/-- `Regex(r"[*']+")` -/
def matchPrimes : List Char → Option (List Char)
  | [] => none
  | c :: r => if isMark c then some (dropMarks r) else none

/-- `Optional(tok)` for a suppressed token: the rest after the token, or the unchanged position when it does not match -/
def optTok (f : List Char → Option (List Char)) (s : List Char) : List Char :=
  match f (skipWs s) with
  | some r => r
  | none => s

/-- `Optional(count, default=1)("mult") + Optional(state)("state") + Optional(primes)("primes")`:
    multiplier and rest; never fails -/
def parseTail (s : List Char) : Rat × List Char :=
  let (n, r1) := parseCount (skipWs s)
  (n, optTok matchPrimes (optTok matchState r1))

/-- closing bracket for `( [ {` -/
def closer : Char → Option Char
  | '(' => some ')' | '[' => some ']' | '{' => some '}' | _ => none

/-- `formula = OneOrMore(term)` + `sumByElement`: at least one term, then sum per element -/
def asFormula : Option (Comp × List Char) → Option (Comp × List Char)
  | some (c, r) => if c = [] then none else some (mergeComp c, r)
  | none => none

mutual
/-- `term` (after `multiplyContents`): the flattened `[element, amount]` pairs and the rest of the input -/
def parseTerm : Nat → List Char → Option (Comp × List Char)
  | 0, _ => none
  | fuel+1, s0 =>
    let s := skipWs s0
    match matchElem s with
    | some (z, rest) => let (n, r) := parseTail rest; some ([(z, n)], r)
    | none =>
      match s with
      | c :: cs =>
        if c = '@' then
          match asFormula (parseTerms fuel cs) with
          | some (body, r) => let (n, r') := parseTail r; some (scale n body, r')
          | none => none
        else
          match closer c with
          | some cl =>
            match asFormula (parseTerms fuel cs) with
            | some (body, r) =>
              match skipWs r with
              | cl' :: r2 => if cl' = cl then let (n, r') := parseTail r2; some (scale n body, r') else none
              | [] => none
            | none => none
          | none => none
      | [] => none
/-- zero or more terms, greedy -/
def parseTerms : Nat → List Char → Option (Comp × List Char)
  | 0, _ => none
  | fuel+1, s =>
    match parseTerm fuel s with
    | some (c, r) => match parseTerms fuel r with
      | some (c', r') => some (c ++ c', r')
      | none => some (c, r)
    | none => some ([], s)
end

/-- `_parse_stoich`: `"e"` is the electron (empty composition); otherwise `parseString(stoich, parseAll=True)`.
    The int/float distinction of the Python values (`n == int(n)`) is `Rat.isInt` of the exact value. -/
def parseStoich (s : List Char) : Except ErrKind Comp :=
  if s = ['e'] then .ok []
  else match asFormula (parseTerms (3 * s.length + 3) s) with
    | some (c, r) => if skipWs r = [] then .ok c else .error .parse
    | none => .error .parse

/-! ### `_formula_to_parts`, `_get_charge`, hydrate split -/

/-- `for ign in prefixes: if formula.startswith(ign): formula = formula[len(ign):]` — each prefix tried once, in order -/
def stripPrefixes : List (List Char) → List Char → List (List Char) × List Char
  | [], s => ([], s)
  | p :: ps, s =>
    if p.isPrefixOf s then
      let (d, r) := stripPrefixes ps (s.drop p.length)
      (p :: d, r)
    else stripPrefixes ps s

/-- `for ign in suffixes: if formula.endswith(ign): formula = formula[:-len(ign)]`
    (for `ign = ""` Python's `formula[:-0]` is the empty string) -/
def stripSuffixes : List (List Char) → List Char → List (List Char) × List Char
  | [], s => ([], s)
  | p :: ps, s =>
    if p.isSuffixOf s then
      let (d, r) := stripSuffixes ps (if p.length = 0 then [] else s.take (s.length - p.length))
      (p :: d, r)
    else stripSuffixes ps s

/-- text before / after the first occurrence of `c` -/
def splitAtChar (c : Char) : List Char → List Char × List Char
  | [] => ([], [])
  | x :: r => if x = c then ([], r) else let (a, b) := splitAtChar c r; (x :: a, b)

structure Parts where
  stoich : List Char
  chg : Option (List Char)
  droppedPrefixes : List (List Char)
  droppedSuffixes : List (List Char)

/-- `_formula_to_parts` -/
def formulaToParts (prefixes suffixes : List (List Char)) (s : List Char) : Except ErrKind Parts :=
  let (dp, s1) := stripPrefixes prefixes s
  let (ds, s2) := stripSuffixes suffixes s1
  if s2.contains '/' then .error .slash
  else if s2.contains '+' then
    if s2.count '+' > 1 then .error .multiToken
    else let (a, b) := splitAtChar '+' s2; .ok ⟨a, some ('+' :: b), dp, ds.reverse⟩
  else if s2.contains '-' then
    if s2.count '-' > 1 then .error .multiToken
    else let (a, b) := splitAtChar '-' s2; .ok ⟨a, some ('-' :: b), dp, ds.reverse⟩
  else .ok ⟨s2, none, dp, ds.reverse⟩

def dropSpaces : List Char → List Char
  | [] => []
  | c :: r => if isPySpace c then dropSpaces r else c :: r

/-- `s.strip()` for ASCII whitespace -/
def stripPy (s : List Char) : List Char := (dropSpaces (dropSpaces s).reverse).reverse

/-- `digit+ ('_' digit+)*` (single underscores between digit groups): the digits without the underscores -/
def intDigits : Nat → List Char → Option (List Char)
  | 0, _ => none
  | fuel+1, s =>
    let ds := (takeDigits s).1
    let r := (takeDigits s).2
    if ds = [] then none
    else match r with
      | [] => some ds
      | '_' :: r' => (intDigits fuel r').map (ds ++ ·)
      | _ => none

/-- `int(after)` for ASCII input without a sign: surrounding whitespace is ignored, single underscores between digits
    are allowed (`int(" 3")`, `int("1_0")`). A sign cannot reach this call from `_get_charge` (the anti-token and the
    repeated-token checks come first); non-ASCII digits / whitespace are outside the model. -/
def pyInt (s : List Char) : Option Nat :=
  (intDigits (s.length + 1) (stripPy s)).map digitsVal

/-- one iteration of the `for token, anti, sign in zip("+-", "-+", (1, -1))` loop:
    `some result` = return / raise, `none` = fall through to the next iteration -/
def chargeStep (token anti : Char) (sign : Int) (s : List Char) : Option (Except ErrKind Int) :=
  if s.contains token then
    if s.contains anti then some (.error .charge)
    else if s.count token > 1 then some (.error .charge)      -- `before, after = ...` cannot unpack
    else
      let (before, after) := splitAtChar token s
      if before.length > 0 ∧ after.length > 0 then some (.error .charge)
      else if after.length > 0 then
        match pyInt after with
        | some n => some (.ok (sign * (n : Int)))
        | none => some (.error .charge)
      else none
  else none

/-- `_get_charge` -/
def getCharge (s : List Char) : Except ErrKind Int :=
  if s = ['+'] then .ok 1
  else if s = ['-'] then .ok (-1)
  else match chargeStep '+' '-' 1 s with
    | some r => r
    | none => match chargeStep '-' '+' (-1) s with
      | some r => r
      | none => .error .charge

/-- `str.split("..")`: first piece and the remaining pieces (leftmost, non-overlapping occurrences) -/
def splitDD : List Char → List Char × List (List Char)
  | [] => ([], [])
  | '.' :: '.' :: r => let (p, ps) := splitDD r; ([], p :: ps)
  | c :: r => let (p, ps) := splitDD r; (c :: p, ps)

/-- `str.split(c)` for a single character -/
def splitChar (c : Char) : List Char → List Char × List (List Char)
  | [] => ([], [])
  | x :: r => let (p, ps) := splitChar c r; if x = c then ([], p :: ps) else (x :: p, ps)

/-- `_get_leading_integer`: `re.findall(r"^\d+", s)` has at most one match -/
def getLeadingInteger (s : List Char) : Nat × List Char :=
  let (ds, r) := takeDigits s
  if ds = [] then (1, s) else (digitsVal ds, r)

/-- `for k, v in comp.items(): tot[k] = m*v  /  tot[k] += m*v` -/
def addScaled (m : Rat) (tot : Comp) (c : Comp) : Comp :=
  c.foldl (fun a p => addKey p.1 (m * p.2) a) tot

/-- the hydrate parts after the first one -/
def restLoop (tot : Comp) : List (List Char) → Except ErrKind Comp
  | [] => .ok tot
  | p :: ps =>
    let (m, stoich) := getLeadingInteger p
    match parseStoich stoich with
    | .ok c => restLoop (addScaled (m : Nat) tot c) ps
    | .error e => .error e

/-- the loop of `formula_to_composition` over the hydrate parts of the stoichiometry token:
    split on '·' if present, else on "..": the first part as it is, the others with their leading integer -/
def stoichToComp (stoich : List Char) : Except ErrKind Comp :=
  let (p0, ps) := if stoich.contains '·' then splitChar '·' stoich else splitDD stoich
  match parseStoich p0 with
  | .error e => .error e
  | .ok c0 => restLoop (addScaled 1 [] c0) ps

/-- `formula_to_composition` with explicit prefix / suffix lists -/
def formulaToCompositionWith (prefixes suffixes : List (List Char)) (s : List Char) : Except ErrKind Comp :=
  match formulaToParts prefixes suffixes s with
  | .error e => .error e
  | .ok pts =>
    match stoichToComp pts.stoich with
    | .error e => .error e
    | .ok tot =>
      match pts.chg with
      | none => .ok tot
      | some chg =>
        match getCharge chg with
        | .ok q => .ok (setKey 0 (q : Rat) tot)
        | .error e => .error e

/-- `formula_to_composition(formula)` with the default prefixes (`_latex_mapping.keys()`) and suffixes;
    this is also `Substance.from_formula(formula).composition` whenever `from_formula` returns at all:
    it first evaluates `formula_to_latex/unicode/html(formula)`, which on the pinned tree raise UnboundLocalError for a
    written zero charge (`Fe+0`, `Fe-0`) — a defect of `_formula_to_format` reported in notes/C01.md, not modelled here. -/
def formulaToCompositionL (s : List Char) : Except ErrKind Comp :=
  formulaToCompositionWith prefixesL suffixesL s

def formulaToComposition (s : String) : Except ErrKind Comp := formulaToCompositionL s.toList

end ChemModel.Formula
