/-
Executable model of chempy's formula *presentation* AS IT IS (property C13):

* `chempy/util/parsing.py`: `_subs`, `_formula_to_format`, `formula_to_latex`, `formula_to_unicode`, `formula_to_html`
  (the pieces `_formula_to_parts`, `_get_charge`, `_get_leading_integer` and the hydrate split are the C01 model,
  `Model/Formula.lean`);
* `chempy/chemistry.py`: `Substance.from_formula` (the three names + composition), `Species.from_formula` (phase index,
  suffixes = `tuple(phases) + ("(aq)",)`);
* `chempy/printing/{string,tex,pretty,web}.py`: `_Reaction_parts` / `_Reaction_str` for the four printers
  (names through `_print_Substance`, `int` / `Fraction` coefficients, omitted iff 1, zero coefficients filtered, that printer's arrow).

plus the SPECIFICATION side of C13:

* `present P f`  – what the presentation of a formula AST is (every count one subscript, the charge one superscript written
  magnitude-then-sign with 1 omitted, hydrate separator / radical dot / greek prefixes mapped, brackets and suffix verbatim);
* `unLatex`, `unUnicode`, `unHtml` – the explicit inverse presentation maps (token scanners built from the same Gen tables);
* `canon f` – the formula AST up to the presentation-only normalisations (hydrate count `1` dropped, counts and charge
  magnitude without leading zeros, a charge magnitude `1` dropped, separator written `..`).

Strings are `List Char` (Python code points).  Every table / template comes from `Gen/Render.lean` (regenerated from the
source on every run); the literal shapes that are hand-modelled are guarded in `Props/C13.lean`.

Outside the modelled domain (as for C01): non-ASCII digits, blanks / `_` inside the charge number.
-/
import ChemModel.Gen.Render
import ChemModel.Gen.Printing
import ChemModel.Model.Formula

namespace ChemModel.FormulaFormat
open ChemModel.Formula ChemModel.Gen

abbrev Str := List Char

/-! ### Python `str.replace`, `_subs` -/

/-- scanner of `str.replace(patt, repl)` for a non-empty `patt`: leftmost, non-overlapping occurrences;
    `skip` = characters of the current occurrence still to be dropped -/
def replaceGo (patt repl : Str) : Nat → Str → Str
  | _, [] => []
  | skip + 1, _ :: r => replaceGo patt repl skip r
  | 0, c :: r =>
    if patt.isPrefixOf (c :: r) then repl ++ replaceGo patt repl (patt.length - 1) r
    else c :: replaceGo patt repl 0 r

/-- `s.replace(patt, repl)` (for `patt == ""` Python puts `repl` before every character and at the end) -/
def replaceAll (patt repl s : Str) : Str :=
  if patt = [] then repl ++ s.flatMap (fun c => c :: repl) else replaceGo patt repl 0 s

/-- `_subs(string, patterns)`: EVERY pattern of the dict is applied with `str.replace`, in dict order, each on the result of
    the previous one (used for the hydrate infix `_subs("..", infixes)` only) -/
def subs (s : Str) (patterns : List (Str × Str)) : Str :=
  patterns.foldl (fun acc kv => replaceAll kv.1 kv.2 acc) s

/-! ### the digit-run substitution `re.sub(r"([0-9]+\.[0-9]+|[0-9]+)", lambda m: sub(m.group(1)), stoich)` -/

/-- `some (x ++ y)` when both are there (an exception of either side propagates) -/
def andThen (a b : Option Str) : Option Str :=
  match a, b with
  | some x, some y => some (x ++ y)
  | _, _ => none

/-- state of the regex scan: outside a number, inside `[0-9]+`, after `[0-9]+\.` with the fraction digits read so far -/
inductive RunSt
  | out
  | int (ip : Str)
  | frac (ip fp : Str)

/-- the scan.  `ip.` followed by a non-digit falls back to the alternative `[0-9]+`: `sub(ip)`, then the `.` is copied. -/
def subRunsGo (sub : Str → Option Str) : RunSt → Str → Option Str
  | .out, [] => some []
  | .int ip, [] => sub ip
  | .frac ip fp, [] => if fp = [] then andThen (sub ip) (some ['.']) else sub (ip ++ '.' :: fp)
  | .out, c :: r =>
    if c.isDigit then subRunsGo sub (.int [c]) r else andThen (some [c]) (subRunsGo sub .out r)
  | .int ip, c :: r =>
    if c.isDigit then subRunsGo sub (.int (ip ++ [c])) r
    else if c = '.' then subRunsGo sub (.frac ip []) r
    else andThen (sub ip) (andThen (some [c]) (subRunsGo sub .out r))
  | .frac ip fp, c :: r =>
    if c.isDigit then subRunsGo sub (.frac ip (fp ++ [c])) r
    else if fp = [] then andThen (sub ip) (andThen (some ['.', c]) (subRunsGo sub .out r))
    else andThen (sub (ip ++ '.' :: fp)) (andThen (some [c]) (subRunsGo sub .out r))

def subRuns (sub : Str → Option Str) (s : Str) : Option Str := subRunsGo sub .out s

/-! ### `_formula_to_format` -/

/-- the parameters of `_formula_to_format`: the two callbacks (`none` = KeyError of a table lookup) and the two dicts -/
structure Fmt where
  sub : Str → Option Str
  sup : Str → Option Str
  prefixes : List (Str × Str)
  infixes : List (Str × Str)

/-- why the real code raises -/
inductive FErr
  /-- exception of `_formula_to_parts` -/
  | parts (e : ErrKind)
  /-- `ValueError` of `_get_charge` -/
  | charge
  /-- `KeyError` of a `_unicode_sub` / `_unicode_sup` lookup -/
  | key
  /-- `UnboundLocalError`: `token` unbound (a charge 0; no longer reachable since `sup(token)` is guarded by `chg != 0`) -/
  | unbound
deriving DecidableEq, Repr

def FErr.pyName : FErr → String
  | .parts e => e.pyName
  | .charge => "ValueError"
  | .key => "KeyError"
  | .unbound => "UnboundLocalError"

/-- `str(n)` / `"%d" % n` for a natural number -/
def natStr (n : Nat) : Str := Nat.toDigits 10 n

/-- `token = "-" if chg == -1 else "%d-" % -chg` / `"+" if chg == 1 else "%d+" % chg`; unbound for 0 -/
def chargeToken (chg : Int) : Option Str :=
  if chg < 0 then some (if chg = -1 then ['-'] else natStr chg.natAbs ++ ['-'])
  else if chg > 0 then some (if chg = 1 then ['+'] else natStr chg.natAbs ++ ['+'])
  else none

/-- loop body for `idx > 0`: infix, leading count when `!= 1`, substituted stoichiometry -/
def fmtRest (F : Fmt) : List Str → Option Str
  | [] => some []
  | p :: ps =>
    andThen (some (subs Render.infixSource F.infixes ++ (if (getLeadingInteger p).1 ≠ 1 then natStr (getLeadingInteger p).1 else [])))
      (andThen (subRuns F.sub (getLeadingInteger p).2) (fmtRest F ps))

/-- text of the charge superscript appended to `string` -/
def fmtCharge (F : Fmt) (string : Str) : Option Str → Except FErr Str
  | none => .ok string
  | some c =>
    match getCharge c with
    | .error _ => .error .charge
    | .ok chg =>
      if chg = 0 then .ok string          -- `if chg != 0: string += sup(token)`: a written zero charge gets no superscript
      else
        match chargeToken chg with
        | none => .error .unbound
        | some tok =>
          match F.sup tok with
          | none => .error .key
          | some t => .ok (string ++ t)

/-- `"".join(prefixes[x] for x in parts[2])`: the stripped prefixes are looked up in the dict (`none` = KeyError; it cannot
    happen, the stripped prefixes are keys of that dict) -/
def mapPrefixes (tbl : List (Str × Str)) : List Str → Option Str
  | [] => some []
  | p :: ps => andThen (tbl.lookup p) (mapPrefixes tbl ps)

/-- `_formula_to_format(sub, sup, formula, prefixes, infixes, suffixes)` -/
def formulaToFormat (F : Fmt) (suffixes : List Str) (formula : Str) : Except FErr Str :=
  match formulaToParts (F.prefixes.map Prod.fst) suffixes formula with
  | .error e => .error (.parts e)
  | .ok pts =>
    match andThen (subRuns F.sub (if pts.stoich.contains '·' then splitChar '·' pts.stoich else splitDD pts.stoich).1)
        (fmtRest F (if pts.stoich.contains '·' then splitChar '·' pts.stoich else splitDD pts.stoich).2) with
    | none => .error .key
    | some string =>
      match fmtCharge F string pts.chg with
      | .error e => .error e
      | .ok s =>
        match mapPrefixes F.prefixes pts.droppedPrefixes with
        | none => .error .key
        | some pre => .ok (pre ++ (s ++ pts.droppedSuffixes.flatten))

/-! ### the three public functions -/

/-- `lambda x: "<pre>%s<post>" % x` -/
def tmpl (pre post x : Str) : Option Str := some (pre ++ (x ++ post))

/-- `lambda x: "".join(table[str(_)] for _ in x)` (KeyError = none) -/
def charMap (tbl : List (Char × Char)) : Str → Option Str
  | [] => some []
  | c :: r => match tbl.lookup c, charMap tbl r with
    | some d, some r' => some (d :: r')
    | _, _ => none

def tableByName (n : String) : List (Char × Char) :=
  if n = "_unicode_sub" then Render.unicodeSub else if n = "_unicode_sup" then Render.unicodeSup else []

def mkFn (isTemplate : Bool) (pre post : Str) (table : String) : Str → Option Str :=
  if isTemplate then tmpl pre post else charMap (tableByName table)

def latexFmt : Fmt :=
  { sub := mkFn Render.latexSubIsTemplate Render.latexSubPre Render.latexSubPost Render.latexSubTable
    sup := mkFn Render.latexSupIsTemplate Render.latexSupPre Render.latexSupPost Render.latexSupTable
    prefixes := Render.latexMap, infixes := Render.latexInfixMap }

def unicodeFmt : Fmt :=
  { sub := mkFn Render.unicodeSubIsTemplate Render.unicodeSubPre Render.unicodeSubPost Render.unicodeSubTable
    sup := mkFn Render.unicodeSupIsTemplate Render.unicodeSupPre Render.unicodeSupPost Render.unicodeSupTable
    prefixes := Render.unicodeMap, infixes := Render.unicodeInfixMap }

def htmlFmt : Fmt :=
  { sub := mkFn Render.htmlSubIsTemplate Render.htmlSubPre Render.htmlSubPost Render.htmlSubTable
    sup := mkFn Render.htmlSupIsTemplate Render.htmlSupPre Render.htmlSupPost Render.htmlSupTable
    prefixes := Render.htmlMap, infixes := Render.htmlInfixMap }

/-- `re.sub(r"([{}])", r"\\\1", formula) if re.search(r"[{}]", formula) else formula` -/
def escapeBraces (s : Str) : Str := s.flatMap (fun c => if c = '{' ∨ c = '}' then ['\\', c] else [c])

/-- `formula_to_latex(formula, suffixes=sfx)`: the braces of the WHOLE formula are escaped before anything else -/
def toLatex (sfx : List Str) (s : Str) : Except FErr Str := formulaToFormat latexFmt sfx (escapeBraces s)
/-- `formula_to_unicode(formula, suffixes=sfx)` -/
def toUnicode (sfx : List Str) (s : Str) : Except FErr Str := formulaToFormat unicodeFmt sfx s
/-- `formula_to_html(formula, suffixes=sfx)` -/
def toHtml (sfx : List Str) (s : Str) : Except FErr Str := formulaToFormat htmlFmt sfx s

def formulaToLatex (s : Str) : Except FErr Str := toLatex Render.formatSuffixesL s
def formulaToUnicode (s : Str) : Except FErr Str := toUnicode Render.formatSuffixesL s
def formulaToHtml (s : Str) : Except FErr Str := toHtml Render.formatSuffixesL s

/-! ### `Substance.from_formula`, `Species.from_formula` -/

structure Substance where
  name : Str
  latexName : Str
  unicodeName : Str
  htmlName : Str
  composition : Comp
  /-- `Species.phase_idx` (absent on a plain `Substance`) -/
  phaseIdx : Option Int

/-- the keyword arguments are evaluated in the order latex, unicode, html, composition: the first exception wins -/
def mkSubstance (sfx : List Str) (phaseIdx : Option Int) (s : Str) : Except String Substance :=
  match toLatex sfx s with
  | .error e => .error e.pyName
  | .ok l => match toUnicode sfx s with
    | .error e => .error e.pyName
    | .ok u => match toHtml sfx s with
      | .error e => .error e.pyName
      | .ok h => match formulaToCompositionWith prefixesL sfx s with
        | .error e => .error e.pyName
        | .ok c => .ok ⟨s, l, u, h, c, phaseIdx⟩

/-- `Substance.from_formula(formula)`: every function with its own default suffixes -/
def substanceFromFormula (s : Str) : Except String Substance :=
  match formulaToLatex s with
  | .error e => .error e.pyName
  | .ok l => match formulaToUnicode s with
    | .error e => .error e.pyName
    | .ok u => match formulaToHtml s with
      | .error e => .error e.pyName
      | .ok h => match formulaToCompositionL s with
        | .error e => .error e.pyName
        | .ok c => .ok ⟨s, l, u, h, c, none⟩

/-- `phases` of `Species.from_formula`: a sequence (index + 1) or a dict (its value) -/
inductive Phases
  | seq (l : List Str)
  | dict (l : List (Str × Int))

def Phases.keys : Phases → List Str
  | .seq l => l
  | .dict l => l.map Prod.fst

/-- first phase (in iteration order) the formula ends with -/
def findPhaseSeq : List Str → Nat → Str → Option Nat
  | [], _, _ => none
  | p :: ps, i, s => if p.isSuffixOf s then some (i + 1) else findPhaseSeq ps (i + 1) s

def findPhaseDict : List (Str × Int) → Str → Option Int
  | [], _ => none
  | (k, v) :: ps, s => if k.isSuffixOf s then some v else findPhaseDict ps s

/-- the `p_i` computation of `Species.from_formula` (no `phase_idx` keyword): `none` = ValueError("Could not determine phase_idx") -/
def phaseIdx (phases : Phases) (default : Option Int) (s : Str) : Option Int :=
  match (match phases with
         | .seq l => (match findPhaseSeq l 0 s with | some n => some (Int.ofNat n) | none => none)
         | .dict l => findPhaseDict l s) with
  | some i => some i
  | none => default

/-- the extra suffixes `Species.from_formula` appends to `tuple(phases)` (from Gen: `("(aq)",)`) -/
def speciesExtraSuffixes : List Str := speciesSuffixesL.drop speciesPhases.length

/-- `Species.from_formula(formula, phases, default_phase_idx)` -/
def speciesFromFormula (phases : Phases) (default : Option Int) (s : Str) : Except String Substance :=
  match phaseIdx phases default s with
  | none => .error "ValueError"
  | some i => mkSubstance (phases.keys ++ speciesExtraSuffixes) (some i) s

/-- `Species.from_formula(formula, phases, default_phase_idx, phase_idx=idx)`: an explicit `phase_idx` keyword is taken as it is
    (`p_i = kwargs.pop("phase_idx")`): no suffix search, the default is not consulted, nothing is refused on account of the phase -/
def speciesFromFormulaIdx (phases : Phases) (idx : Int) (s : Str) : Except String Substance :=
  mkSubstance (phases.keys ++ speciesExtraSuffixes) (some idx) s

/-! ### the reaction printers (`StrPrinter._Reaction_parts` / `_Reaction_str`, no parameter, no name) -/

inductive Printer | str | latex | unicode | html
deriving DecidableEq, Repr

def attrName (attr : String) (s : Substance) : Str :=
  if attr = "latex_name" then s.latexName else if attr = "unicode_name" then s.unicodeName
  else if attr = "html_name" then s.htmlName else s.name

/-- `_print_Substance`: `s.<attr> or s.name` (an empty name is falsy); the plain printer falls back to `str(s) = s.name` -/
def Printer.nameOf (p : Printer) (s : Substance) : Str :=
  match p with
  | .str => s.name
  | .latex => if attrName Render.texNameAttr s = [] then s.name else attrName Render.texNameAttr s
  | .unicode => if attrName Render.prettyNameAttr s = [] then s.name else attrName Render.prettyNameAttr s
  | .html => if attrName Render.webNameAttr s = [] then s.name else attrName Render.webNameAttr s

def Printer.arrow (p : Printer) (equilibrium : Bool) : Str :=
  match p, equilibrium with
  | .str, false => Printing.strReactionArrow | .str, true => Printing.strEquilibriumArrow
  | .latex, false => Printing.texReactionArrow | .latex, true => Printing.texEquilibriumArrow
  | .unicode, false => Printing.prettyReactionArrow | .unicode, true => Printing.prettyEquilibriumArrow
  | .html, false => Printing.webReactionArrow | .html, true => Printing.webEquilibriumArrow

def Printer.coeffSpace : Printer → Str
  | .str => Printing.coeffSpace | .latex => Printing.texCoeffSpace
  | .unicode => Printing.prettyCoeffSpace | .html => Printing.webCoeffSpace

def Printer.around : Printer → Str × Str
  | .str => (Printing.aroundArrowL, Printing.aroundArrowR) | .latex => (Printing.texAroundArrowL, Printing.texAroundArrowR)
  | .unicode => (Printing.prettyAroundArrowL, Printing.prettyAroundArrowR) | .html => (Printing.webAroundArrowL, Printing.webAroundArrowR)

/-- `substances.get(k, k)` printed: the substance's name in that format, or the key itself -/
def printKey (p : Printer) (substances : List (Str × Substance)) (k : Str) : Str :=
  match substances.lookup k with
  | some s => p.nameOf s
  | none => k

/-- `str(v)` of an `int` or `fractions.Fraction` coefficient: `-n`, `n/d` (a Fraction with denominator 1 prints like the int) -/
def coefStr (q : Rat) : Str :=
  (if q.num < 0 then ['-'] else []) ++ (natStr q.num.natAbs ++ (if q.den = 1 then [] else '/' :: natStr q.den))

/-- one term: `(coeff_fmt(v) + space) if v != 1 else ""` then the name -/
def printTerm (p : Printer) (substances : List (Str × Substance)) (kv : Str × Rat) : Str :=
  (if kv.2 ≠ 1 then coefStr kv.2 ++ p.coeffSpace else []) ++ printKey p substances kv.1

/-- one side: `filter(itemgetter(1), d.items())` drops zero coefficients; stored (dict) order is kept -/
def printSide (p : Printer) (substances : List (Str × Substance)) (d : List (Str × Rat)) : List Str :=
  (d.filter (fun kv => kv.2 ≠ 0)).map (printTerm p substances)

def joinStrs (sep : Str) : List Str → Str
  | [] => []
  | [x] => x
  | x :: y :: r => x ++ (sep ++ joinStrs sep (y :: r))

/-- an inactive group of `_Reaction_parts`: `" + ( " + " + ".join(terms) + ")"` when there is at least one term (zero coefficients
    are filtered before), else nothing -/
def inactText (open_ join close : Str) (l : List Str) : Str :=
  if l.length > 0 then open_ ++ (joinStrs join l ++ close) else []

/-- `Reaction.string/latex/unicode/html(substances, with_param=False, with_name=False)`:
    `"{}{}%s{}%s{}{}" % around_arrow` filled with reactants, inactive reactants, arrow, products, inactive products -/
def printReaction (p : Printer) (equilibrium : Bool) (substances : List (Str × Substance))
    (reac prod : List (Str × Rat)) (inactReac inactProd : List (Str × Rat) := []) : Str :=
  joinStrs Printing.termJoin (printSide p substances reac) ++
    (inactText Printing.inactOpen Printing.inactJoin Printing.inactClose (printSide p substances inactReac) ++
    (p.around.1 ++ (p.arrow equilibrium ++ (p.around.2 ++
    (joinStrs Printing.termJoinProd (printSide p substances prod) ++
     inactText Printing.inactOpenProd Printing.inactJoinProd Printing.inactCloseProd (printSide p substances inactProd))))))

/-! ### SPECIFICATION: the presentation of a formula AST -/

/-- what a format does to the pieces of a formula -/
structure Pres where
  /-- a written count -/
  sub : Str → Str
  /-- the charge token (magnitude then sign) -/
  sup : Str → Str
  /-- the hydrate separator -/
  infx : Str
  /-- a prefix (`alpha-`, `.`, …) -/
  pre : Str → Str
  /-- opening / closing bracket -/
  op : Br → Str
  cl : Br → Str

def presCnt (P : Pres) : Cnt → Str
  | .omitted => []
  | n => P.sub n.render

mutual
def presTerm (P : Pres) : Term → Str
  | .elem z n st marks => symChars z ++ (presCnt P n ++ (stText st ++ marks))
  | .group b body n st marks => P.op b ++ (presTerms P body ++ (P.cl b ++ (presCnt P n ++ (stText st ++ marks))))
  | .cage body => '@' :: presTerms P body
def presTerms (P : Pres) : Terms → Str
  | .nil => []
  | .cons t ts => presTerm P t ++ presTerms P ts
end

/-- hydrate count as printed: `str(int(text))`, nothing when it is 1 -/
def presMult : Option Str → Str
  | none => []
  | some ds => if digitsVal ds = 1 then [] else natStr (digitsVal ds)

def presRest (P : Pres) : List Part → Str
  | [] => []
  | p :: ps => P.infx ++ (presMult p.n ++ (presTerms P p.terms ++ presRest P ps))

def presParts (P : Pres) : List Part → Str
  | [] => []
  | p :: ps => presTerms P p.terms ++ presRest P ps

/-- magnitude-then-sign, magnitude 1 omitted (used for a non-zero charge) -/
def chargeTok (c : Charge) : Str :=
  (match c.mag with
   | none => []
   | some ds => if digitsVal ds = 1 then [] else natStr (digitsVal ds)) ++ [if c.neg then '-' else '+']

/-- the charge superscript; a charge written with value zero (`+0`) is not shown -/
def presCharge (P : Pres) : Option Charge → Str
  | none => []
  | some c => if c.val = 0 then [] else P.sup (chargeTok c)

/-- the presentation of a formula: mapped prefixes, presented parts, charge superscript, suffix verbatim -/
def present (P : Pres) (f : Formula) : Str :=
  (f.prefixes.map P.pre).flatten ++ ((presParts P f.parts ++ presCharge P f.charge) ++ renderSuffix f.suffix)

mutual
/-- every bracket of the term satisfies `ok` -/
def termBrAll (ok : Br → Bool) : Term → Bool
  | .elem _ _ _ _ => true
  | .group b body _ _ _ => ok b && termsBrAll ok body
  | .cage body => termsBrAll ok body
def termsBrAll (ok : Br → Bool) : Terms → Bool
  | .nil => true
  | .cons t ts => termBrAll ok t && termsBrAll ok ts
end

/-- no `{ }` group anywhere (LaTeX escapes the braces of the whole formula before anything else) -/
def noCurly (f : Formula) : Bool := f.parts.all (fun p => termsBrAll (fun b => b != .curly) p.terms)

/-- the symbol of a prefix key in a prefix table (the key itself when absent) -/
def valOf (tbl : List (Str × Str)) (k : Str) : Str :=
  match tbl.lookup k with
  | some v => v
  | none => k

def lookupD (tbl : List (Char × Char)) (c : Char) : Char :=
  match tbl.lookup c with
  | some d => d
  | none => c

/-- LaTeX: `_{n}`, `^{q}`, `\cdot `, `\{ \}` for curly brackets -/
def latexPres : Pres :=
  { sub := fun x => Render.latexSubPre ++ (x ++ Render.latexSubPost)
    sup := fun x => Render.latexSupPre ++ (x ++ Render.latexSupPost)
    infx := subs Render.infixSource Render.latexInfixMap
    pre := valOf Render.latexMap
    op := fun b => match b with | .curly => ['\\', '{'] | b => [b.op]
    cl := fun b => match b with | .curly => ['\\', '}'] | b => [b.cl] }

/-- Unicode: subscript / superscript code points -/
def unicodePres : Pres :=
  { sub := fun x => x.map (lookupD Render.unicodeSub)
    sup := fun x => x.map (lookupD Render.unicodeSup)
    infx := subs Render.infixSource Render.unicodeInfixMap
    pre := valOf Render.unicodeMap
    op := fun b => [b.op], cl := fun b => [b.cl] }

/-- HTML: `<sub>n</sub>`, `<sup>q</sup>`, `&sdot;` -/
def htmlPres : Pres :=
  { sub := fun x => Render.htmlSubPre ++ (x ++ Render.htmlSubPost)
    sup := fun x => Render.htmlSupPre ++ (x ++ Render.htmlSupPost)
    infx := subs Render.infixSource Render.htmlInfixMap
    pre := valOf Render.htmlMap
    op := fun b => [b.op], cl := fun b => [b.cl] }

/-! ### SPECIFICATION: canonical form (presentation-only normalisations) -/

/-- a leading count / charge magnitude up to presentation: `1` is not written, no leading zeros -/
def canonN : Option Str → Option Str
  | none => none
  | some ds => if digitsVal ds = 1 then none else some (natStr (digitsVal ds))

def canonPart (p : Part) : Part := { p with n := canonN p.n }
def canonCharge (c : Charge) : Charge := { c with mag := canonN c.mag }
/-- a charge written with value zero is not presented at all -/
def canonChargeOpt (c : Charge) : Option Charge := if c.val = 0 then none else some (canonCharge c)

/-- the formula the presentations determine: separator written `..`, hydrate counts and charge magnitude normalised,
    a zero charge token dropped -/
def canon (f : Formula) : Formula :=
  { f with sep := .dots, parts := f.parts.map canonPart, charge := f.charge.bind canonChargeOpt }

/-! ### SPECIFICATION: the phase index a written suffix selects -/

/-- position (1-based, counted from `i`) of the first phase equal to the written suffix -/
def selSeq : List Str → Nat → Option Str → Option Nat
  | [], _, _ => none
  | p :: ps, i, sx => if sx = some p then some (i + 1) else selSeq ps (i + 1) sx

/-- value of the first dict entry whose key is the written suffix -/
def selDict : List (Str × Int) → Option Str → Option Int
  | [], _ => none
  | (k, v) :: ps, sx => if sx = some k then some v else selDict ps sx

/-- the index `phases` assigns to the written suffix (none: no suffix, or a suffix `phases` does not list) -/
def selectIdx (phases : Phases) (sx : Option Str) : Option Int :=
  match phases with
  | .seq l => (match selSeq l 0 sx with | some n => some (Int.ofNat n) | none => none)
  | .dict l => selDict l sx

/-! ### the inverse presentation maps -/

/-- what a token of the presented text stands for -/
inductive Act
  /-- these characters of the formula -/
  | emit (s : Str)
  /-- switch to mode 0 = normal, 1 = inside a subscript, 2 = inside a superscript -/
  | mode (m : Nat)
  /-- a digit of the charge magnitude (kept until the sign arrives) -/
  | acc (d : Char)
  /-- the charge sign: written before the magnitude in the formula -/
  | flush (sg : Char)

structure Tok where
  mode : Nat
  text : Str
  act : Act

def findTok (toks : List Tok) (m : Nat) (s : Str) : Option Tok :=
  toks.find? (fun t => t.mode == m && t.text.isPrefixOf s)

/-- left-to-right token scanner: the first token of the current mode that matches is undone; any other character is
    copied.  `skip` = characters of the current token still to be dropped, `acc` = pending magnitude digits. -/
def scan (toks : List Tok) : Nat → Nat → Str → Str → Str
  | _, _, acc, [] => acc
  | skip + 1, m, acc, _ :: r => scan toks skip m acc r
  | 0, m, acc, c :: r =>
    match findTok toks m (c :: r) with
    | none => c :: scan toks 0 m acc r
    | some t =>
      match t.act with
      | .emit s => s ++ scan toks (t.text.length - 1) m acc r
      | .mode m' => scan toks (t.text.length - 1) m' acc r
      | .acc d => scan toks (t.text.length - 1) m (acc ++ [d]) r
      | .flush sg => sg :: (acc ++ scan toks (t.text.length - 1) m [] r)

def digitChars : Str := ['0', '1', '2', '3', '4', '5', '6', '7', '8', '9']

/-- inside a `^{…}` / `<sup>…</sup>`: digits are collected, the sign flushes them -/
def supToks : List Tok :=
  digitChars.map (fun d => ⟨2, [d], .acc d⟩) ++ [⟨2, ['+'], .flush '+'⟩, ⟨2, ['-'], .flush '-'⟩]

/-- tokens of a template format: delimiters of sub / superscripts, the hydrate infix -/
def tmplToks (subPre subPost supPre supPost infixV : Str) : List Tok :=
  [⟨0, subPre, .mode 1⟩, ⟨0, supPre, .mode 2⟩, ⟨0, infixV, .emit Render.infixSource⟩,
   ⟨1, subPost, .mode 0⟩, ⟨2, supPost, .mode 0⟩] ++ supToks

def latexToks : List Tok :=
  [⟨0, ['\\', '{'], .emit ['{']⟩, ⟨0, ['\\', '}'], .emit ['}']⟩] ++
  tmplToks Render.latexSubPre Render.latexSubPost Render.latexSupPre Render.latexSupPost (subs Render.infixSource Render.latexInfixMap)

def htmlToks : List Tok :=
  tmplToks Render.htmlSubPre Render.htmlSubPost Render.htmlSupPre Render.htmlSupPost (subs Render.infixSource Render.htmlInfixMap)

/-- Unicode has no delimiters: every subscript code point is a digit, every superscript code point a magnitude digit or the sign -/
def unicodeToks : List Tok :=
  ((Render.unicodeSub.filter (fun kv => kv.1 != kv.2)).map (fun kv => (⟨0, [kv.2], .emit [kv.1]⟩ : Tok))) ++
  (Render.unicodeSup.map (fun kv => (⟨0, [kv.2], if kv.1.isDigit then .acc kv.1 else .flush kv.1⟩ : Tok))) ++
  [⟨0, subs Render.infixSource Render.unicodeInfixMap, .emit Render.infixSource⟩]

/-- the key a prefix symbol stands for -/
def keyOf (tbl : List (Str × Str)) (v : Str) : Str :=
  match tbl.find? (fun kv => kv.2 == v) with
  | some kv => kv.1
  | none => v

/-- undo a presentation: leading prefix symbols (in table order, each at most once) back to their keys, then the token scan -/
def unFormat (tbl : List (Str × Str)) (toks : List Tok) (s : Str) : Str :=
  ((stripPrefixes (tbl.map Prod.snd) s).1.map (keyOf tbl)).flatten ++ scan toks 0 0 [] (stripPrefixes (tbl.map Prod.snd) s).2

def unLatex (s : Str) : Str := unFormat Render.latexMap latexToks s
def unUnicode (s : Str) : Str := unFormat Render.unicodeMap unicodeToks s
def unHtml (s : Str) : Str := unFormat Render.htmlMap htmlToks s

end ChemModel.FormulaFormat
