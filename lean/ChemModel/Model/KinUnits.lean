/-
Model of the unit handling of chempy's kinetics (property C10), on top of the units model of C09
(`Model/Units.lean`: `quantities` = positive factor × integer exponent vector, modelled, never verified).

Mirrored code (docstrings give the lines):
* chempy/kinetics/rates.py   `args_dimensionality` of MassAction / Arrhenius / Eyring / Radiolytic: the dictionaries
                              are GENERATED (`Gen/Dims.lean`, integer-linear in `order`); `MassAction.__call__`
* chempy/chemistry.py        `Reaction.check_consistent_units`, `Equilibrium.check_consistent_units`
* chempy/util/_expr.py       `Expr.dedimensionalisation` (arguments that are not themselves `Expr`)
* chempy/kinetics/ode.py     `_get_derived_unit`, `get_odesys`: `_reg_unique_unit`, `p_units`, the three
                              `to_arrays_callbacks`, `post_processor`; `_mk_dedim.dedim_tcp`; the unit test of `_validate`

A Python value is a `PyVal` (plain number | Quantity).  For `param` arguments `.num` stands for everything for which
`is_quantity(param)` is False (numbers, strings, `Expr`, and bare `UnitQuantity` objects such as `u.second`, whose class
name is not "Quantity"), `.qty` for instances of `quantities.Quantity`.
Import-free apart from the number classes, the generated tables and the units model.
-/
import ChemModel.Basic.Num
import ChemModel.Gen.Units
import ChemModel.Gen.Dims
import ChemModel.Model.Units
import ChemModel.Model.Kinetics

namespace ChemModel.KinUnits
open ChemModel ChemModel.Units

/-! ## `args_dimensionality` (generated dictionaries) -/

/-- a generated dict evaluated at `order = reaction.order()`: `(key, exponent)` items in dict order -/
def dictItems (d : List (String × Int × Int)) (order : Int) : List (String × Int) :=
  d.map fun e => (e.1, e.2.1 * order + e.2.2)

/-- the exponent vector (over the keys of `SI_base_registry`) denoted by a list of `(key, exponent)` items:
    `Σ exponent • basis(key)`.  (A key outside the registry contributes nothing here; `regPowersByName` below
    raises KeyError for it, and the extractor refuses such a dictionary.) -/
def itemsDims : List (String × Int) → Dims
  | [] => Dims.zero
  | (k, v) :: r => match keyIndex? k with
    | some i => (Dims.smul v (Dims.basis i)).add (itemsDims r)
    | none => itemsDims r

/-- the dictionaries of one rate-expression class evaluated at `order`, as exponent vectors -/
def argsDims (tab : List (List (String × Int × Int))) (order : Int) : List Dims :=
  tab.map fun d => itemsDims (dictItems d order)

/-- `MassAction.args_dimensionality(reaction)[0]` as an exponent vector (rates.py 187-189) -/
def rateConstDims (order : Int) : Dims := itemsDims (dictItems (Gen.Dims.massAction.headD []) order)

/-- the table of a rate-expression class by its Python name; Radiolytic: the same dict for each of `nargs` arguments
    (rates.py 110-113) -/
def classTable (cls : String) (nargs : Nat) : Option (List (List (String × Int × Int))) :=
  if cls = "MassAction" then some Gen.Dims.massAction
  else if cls = "Arrhenius" then some Gen.Dims.arrhenius
  else if cls = "Eyring" then some Gen.Dims.eyring
  else if cls = "Radiolytic" then some (List.replicate nargs Gen.Dims.radiolytic)
  else none

section Generic
variable {α : Type} [Add α] [Sub α] [Mul α] [Div α] [Neg α] [NatCast α] [DecidableEq α]

/-! ## the two units chempy hard-codes in its checks -/

/-- `default_units.molar` as a Python value (a `UnitQuantity`: magnitude 1); `none` = AttributeError -/
def molar? : Option (PyVal α) := (ownUnit? "molar").map fun M => .qty ⟨((1 : Nat) : α), M⟩

/-- `default_units.s` / `default_units.second`: the unit `SI_base_registry["time"]` is bound to -/
def second? : Option (PyVal α) := (keyIndex? "time").bind fun i => (siRegistry : Registry α)[i]?

/-- run for the exception only: `try: f() … else: return True` / a call whose result is dropped -/
def discard {β : Type} : Except Err β → Except Err Unit
  | .ok _ => .ok ()
  | .error e => .error e

/-! ## chemistry.py: `check_consistent_units` -/

/-- `Reaction.check_consistent_units(throw=True)` (chemistry.py 598-620): `.ok ()` = returns True, `.error e` = raises.
    `order = sum(self.reac.values())`.
    Not a Quantity → True.  Otherwise `to_unitless(param / (default_units.molar ** (1 - order) / default_units.s))`
    (target `None` → `pq.dimensionless`); ANY exception is re-raised.  (The branch for a Quantity wrapping an `Expr`
    is not modelled.) -/
def reactionCheck (param : PyVal α) (order : Int) : Except Err Unit :=
  match param with
  | .num _ => .ok ()
  | .qty _ =>
    match (molar? : Option (PyVal α)), (second? : Option (PyVal α)) with
    | some M, some s =>
      discard (toUnitlessScalar (param.div ((M.pow (1 - order)).div s)) (.qty Quantity.dimensionless))
    | _, _ => .error .attributeError

/-- the unit-related part of `Reaction.__init__` (chemistry.py 487-493): `checks` and `dont_check` both given → ValueError;
    `checks = default_checks ^ dont_check` when `checks` is None; every selected check runs with `throw=True`.
    `unitSelected`: `'consistent_units'` is among the checks that run (given explicitly, or not opted out of); the other
    checks are assumed to pass. -/
def reactionCtor (param : PyVal α) (order : Int) (checksGiven dontCheckGiven unitSelected : Bool) : Except Err Unit :=
  if checksGiven && dontCheckGiven then .error .valueError
  else if unitSelected then reactionCheck param order
  else .ok ()

/-- `Reaction.check_consistent_units` for a Quantity holding `size` values (chemistry.py 601): `self.param.item()` is evaluated
    OUTSIDE the `try` — for an array-valued rate constant of size ≠ 1 it raises ValueError ("can only convert an array of
    size 1 to a Python scalar") whatever the dimension and whatever `throw`; a size-1 array is treated like the scalar. -/
def reactionCheckSized (size : Nat) (param : PyVal α) (order : Int) : Except Err Unit :=
  match param with
  | .num _ => .ok ()
  | .qty _ => if size ≠ 1 then .error .valueError else reactionCheck param order

/-- `check_consistent_units(throw=False)`: `except Exception: return False` -/
def reactionCheckBool (param : PyVal α) (order : Int) : Bool :=
  match reactionCheck param order with
  | .ok _ => true
  | .error _ => false

/-- `q.units.simplified` of `quantities` (third party, modelled): the unit expressed in SI base units — a quantity whose
    magnitude is the scale factor and whose unit is the coherent SI unit of the same exponent vector -/
def unitsSimplified (q : Quantity α) : PyVal α := .qty ⟨q.unit.factor, ⟨((1 : Nat) : α), q.unit.dims⟩⟩

/-- `unit_of(expr, simplified=True)` for a scalar (units.py 330-336): AttributeError → the int 1 -/
def unitOfSimplified : PyVal α → PyVal α
  | .num _ => PyVal.one
  | .qty q => unitsSimplified q

/-- `Equilibrium.check_consistent_units(throw=True)` (chemistry.py 1030-1046).
    `exponent = sum(prod.values()) - sum(reac.values())`; `unit_of(param, simplified=True) == unit_of(molar ** exponent,
    simplified=True)`: quantities' `==` rescales the right operand (incompatible → False) and compares MAGNITUDES, i.e. the
    scale factors: `3/mM` is refused for `2 A = B` although its dimension is right.  Inconsistent → ValueError. -/
def equilibriumCheck (param : PyVal α) (nprod nreac : Int) : Except Err Unit :=
  match param with
  | .num _ => .ok ()
  | .qty _ =>
    match (molar? : Option (PyVal α)) with
    | none => .error .attributeError
    | some M =>
      if pyEq (unitOfSimplified param) (unitOfSimplified (M.pow (nprod - nreac))) then .ok () else .error .valueError

/-- the four stoichiometry dictionaries of a `Reaction` / `Equilibrium` (coefficients in dict order): active reactants and
    products, and the INACTIVE (parenthesised, e.g. solvent) ones, which take part in the net stoichiometry but not in the
    mass-action expression -/
structure Stoich where
  reac : List Nat
  prod : List Nat
  inactReac : List Nat := []
  inactProd : List Nat := []
  deriving Repr

/-- `Reaction.order()` (chemistry.py 643-645): `sum(self.reac.values())` — active reactants only -/
def Stoich.order (s : Stoich) : Int := (s.reac.sum : Nat)

/-- `sum(self.prod.values())` — active products only -/
def Stoich.nprod (s : Stoich) : Int := (s.prod.sum : Nat)

/-- `Reaction.check_consistent_units` on a reaction with all four dictionaries: only `self.order()` is read -/
def reactionCheckS (param : PyVal α) (s : Stoich) : Except Err Unit := reactionCheck param s.order

/-- `Equilibrium.check_consistent_units` on an equilibrium with all four dictionaries (chemistry.py 1032):
    `exponent = sum(self.prod.values()) - sum(self.reac.values())` — `inact_reac` / `inact_prod` are not read -/
def equilibriumCheckS (param : PyVal α) (s : Stoich) : Except Err Unit := equilibriumCheck param s.nprod s.order

/-- `c0` of `as_reactions`: `1 * units.molar`, or the int 1 for `units=None` (a rate with `.units` → ValueError "units missing") -/
def standardConc (kf kb : Option (PyVal α)) (units : Bool) : Except Err (PyVal α) :=
  if units then (match (molar? : Option (PyVal α)) with | some M => .ok M | none => .error .attributeError)
  else if (kf.any PyVal.isQty) || (kb.any PyVal.isQty) then .error .valueError else .ok PyVal.one

/-- the two rate constants: `kf = kb * K * c0 ** (nb - nf)` resp. `kb = kf / (K * c0 ** (nb - nf))`;
    none or both given → ValueError -/
def ratePair (K : PyVal α) (kf kb : Option (PyVal α)) (nf nb : Int) (c0 : PyVal α) : Except Err (PyVal α × PyVal α) :=
  match kf, kb with
  | none, some b => .ok ((b.mul K).mul (c0.pow (nb - nf)), b)
  | some f, none => .ok (f, f.div (K.mul (c0.pow (nb - nf))))
  | _, _ => .error .valueError

/-- the two `Reaction(...)` constructor calls with their default checks: forward (order `nf`), then backward (order `nb`) -/
def checkPair (nf nb : Int) (f b : PyVal α) : Except Err (PyVal α × PyVal α) :=
  match reactionCheck f nf with
  | .error e => .error e
  | .ok _ => match reactionCheck b nb with
    | .error e => .error e
    | .ok _ => .ok (f, b)

/-- `Equilibrium.as_reactions(kf=…, kb=…, units=…)` (chemistry.py 1048-1113) → `(kf, kb)` of the forward / backward `Reaction`.
    `nf = Σ reac`, `nb = Σ prod`; `c0 = 1 * units.molar` or the int 1 (`units=None`; then a rate with `.units` → ValueError);
    `kf = kb * K * c0 ** (nb - nf)` resp. `kb = kf / (K * c0 ** (nb - nf))`; none or both given → ValueError
    (`param=(kf, kb)` tuples are not modelled).  Both reactions are built by the `Reaction` constructor with its default
    checks, i.e. `check_consistent_units(throw=True)` with order `nf` (forward) and `nb` (backward). -/
def asReactions (K : PyVal α) (kf kb : Option (PyVal α)) (nf nb : Int) (units : Bool) : Except Err (PyVal α × PyVal α) :=
  match standardConc kf kb units with
  | .error e => .error e
  | .ok c0 => match ratePair K kf kb nf nb c0 with
    | .error e => .error e
    | .ok p => checkPair nf nb p.1 p.2

/-! ## util/_expr.py: `dedimensionalisation` -/

/-- one non-`Expr` argument of `Expr.dedimensionalisation(unit_registry)` (_expr.py 386-404):
    `unit = default_unit_in_registry(arg, unit_registry)`, `dedim = to_unitless(arg, unit)` → `(unit, dedim)` -/
def dedimArg (reg : Registry α) (arg : PyVal α) : Except Err (PyVal α × α) :=
  match defaultUnitInRegistry (.scalar arg) reg with
  | .error e => .error e
  | .ok unit => match toUnitlessScalar arg unit with
    | .error e => .error e
    | .ok x => .ok (unit, x)

/-- all arguments, in order (units first for all of them, then the conversions: the first failure decides) -/
def dedimArgs (reg : Registry α) : List (PyVal α) → Except Err (List (PyVal α × α))
  | [] => .ok []
  | a :: r => match dedimArg reg a with
    | .error e => .error e
    | .ok p => match dedimArgs reg r with
      | .error e => .error e
      | .ok ps => .ok (p :: ps)

/-! ## kinetics/ode.py: `get_odesys` with a `unit_registry` -/

/-- Python `"_".join(key.split("_")[:-1])` -/
def dropLastWord (key : String) : String := "_".intercalate (key.splitOn "_").dropLast

/-- `_get_derived_unit(reg, key)` (ode.py 34-38): on KeyError retry without the last `_`-separated word
    (`doserate_alpha` → `doserate`) -/
def getDerivedUnitFallback (reg : Registry α) (key : String) : Except Err (PyVal α) :=
  match getDerivedUnit (some reg) key with
  | .error .keyError => getDerivedUnit (some reg) (dropLastWord key)
  | r => r

/-- `[unit_registry[dim] ** v for dim, v in arg_dim[idx].items()]` (ode.py 212): KeyError for a key the registry lacks -/
def regPowersByName (reg : Registry α) : List (String × Int) → Except Err (List (PyVal α))
  | [] => .ok []
  | (k, v) :: r => match keyIndex? k with
    | none => .error .keyError
    | some i => match reg[i]? with
      | none => .error .keyError
      | some u => match regPowersByName reg r with
        | .error e => .error e
        | .ok us => .ok (u.pow v :: us)

/-- `_reg_unique_unit(k, arg_dim, idx)` (ode.py 208-213): `reduce(mul, [1] + [unit_registry[dim] ** v …])` where
    `arg_dim = expr.args_dimensionality(reaction=rxn)`; `arg_dim[idx]` → IndexError -/
def regUniqueUnit (reg : Registry α) (argDim : List (List (String × Int × Int))) (idx : Nat) (order : Int) :
    Except Err (PyVal α) :=
  match argDim[idx]? with
  | none => .error .indexError
  | some d => match regPowersByName reg (dictItems d order) with
    | .error e => .error e
    | .ok us => .ok (us.foldl PyVal.mul PyVal.one)

/-- `[f(k) for k in keys]`, first failure decides -/
def mapExcept {β γ : Type} (f : β → Except Err γ) : List β → Except Err (List γ)
  | [] => .ok []
  | a :: r => match f a with
    | .error e => .error e
    | .ok x => match mapExcept f r with
      | .error e => .error e
      | .ok xs => .ok (x :: xs)

/-- what `get_odesys(rsys, unit_registry=reg)` fixes at construction (ode.py 299-317) -/
structure OdeUnits (α : Type) where
  /-- `extra['p_units']` -/
  pUnits : List (PyVal α)
  timeUnit : PyVal α
  concUnit : PyVal α

/-- a free ("unique") parameter registered by `_reg_unique`: the dictionaries of its rate expression, the index of the
    argument, and the order of its reaction -/
abbrev UniqueSpec := List (List (String × Int × Int)) × Nat × Int

/-- ode.py 304-317 (the `unique_units` are registered earlier, 287-289, so their errors come first):
    `pk_units = [_get_derived_unit(reg, k) for k in all_pk]`,
    `p_units = pk_units if include_params else pk_units + [unique_units[k] for k in unique]`,
    `time_unit = get_derived_unit(reg, "time")`, `conc_unit = get_derived_unit(reg, "concentration")` -/
def mkOdeUnits (reg : Registry α) (allPk : List String) (includeParams : Bool) (unique : List UniqueSpec) :
    Except Err (OdeUnits α) :=
  let uu : Except Err (List (PyVal α)) :=
    if includeParams then .ok [] else mapExcept (fun s => regUniqueUnit reg s.1 s.2.1 s.2.2) unique
  match uu with
  | .error e => .error e
  | .ok uus => match mapExcept (getDerivedUnitFallback reg) allPk with
    | .error e => .error e
    | .ok pk => match getDerivedUnit (some reg) "time" with
      | .error e => .error e
      | .ok t => match getDerivedUnit (some reg) "concentration" with
        | .error e => .error e
        | .ok c => .ok ⟨pk ++ uus, t, c⟩

/-- first callback of `to_arrays_callbacks` (ode.py 335): `to_unitless(x, time_unit)` -/
def toArraysX (ou : OdeUnits α) (x : List (PyVal α)) : Except Err (List α) := toUnitlessFlat x ou.timeUnit

/-- second callback (ode.py 336): `to_unitless(y, conc_unit)` -/
def toArraysY (ou : OdeUnits α) (y : List (PyVal α)) : Except Err (List α) := toUnitlessFlat y ou.concUnit

/-- `[to_unitless(px, p_unit) for px, p_unit in zip(p, p_units)]` (ode.py 337-342): `zip` stops at the shorter list -/
def zipToUnitless : List (PyVal α) → List (PyVal α) → Except Err (List α)
  | px :: ps, u :: us => match toUnitlessScalar px u with
    | .error e => .error e
    | .ok x => match zipToUnitless ps us with
      | .error e => .error e
      | .ok xs => .ok (x :: xs)
  | _, _ => .ok []

/-- third callback -/
def toArraysP (ou : OdeUnits α) (p : List (PyVal α)) : Except Err (List α) := zipToUnitless p ou.pUnits

/-- `rescale(v, unit)` when an output unit was given (ode.py 321-325), element-wise on an array -/
def rescaleOpt (unit : Option (PyVal α)) (vs : List (PyVal α)) : Except Err (List (PyVal α)) :=
  match unit with
  | none => .ok vs
  | some u => mapExcept (fun v => rescale v u) vs

/-- `post_processor(x, y, p)` (ode.py 319-332): `x * time_unit` (rescaled to `output_time_unit`), `y * conc_unit`
    (rescaled to `output_conc_unit`), `[elem * p_unit for elem, p_unit in zip(p, p_units)]` -/
def postProcessor (ou : OdeUnits α) (outT outC : Option (PyVal α)) (x y p : List α) :
    Except Err (List (PyVal α) × List (PyVal α) × List (PyVal α)) :=
  match rescaleOpt outT (x.map (timesUnit · ou.timeUnit)) with
  | .error e => .error e
  | .ok time => match rescaleOpt outC (y.map (timesUnit · ou.concUnit)) with
    | .error e => .error e
    | .ok conc => .ok (time, conc, (p.zip ou.pUnits).map fun ep => timesUnit ep.1 ep.2)

/-! ## mass-action rates: the shared kinetics model of C03 / C04 -/

/-- `MassAction.active_conc_prod` on unit-carrying values (`Reaction.rate` / `_validate` with quantities):
    `result = 1; for k, v in reaction.reac.items(): result *= variables[k] ** v` -/
def activeConcProdPy (cs : List (PyVal α × Nat)) : PyVal α :=
  cs.foldl (fun acc cv => acc.mul (cv.1.pow (cv.2 : Int))) PyVal.one

def massActionRatePy (k : PyVal α) (cs : List (PyVal α × Nat)) : PyVal α := k.mul (activeConcProdPy cs)

/-- a reaction as `get_odesys` sees it: the `reac` and `prod` dictionaries over substance indices (position in
    `rsys.substances`), in dict order; the rate constant travels separately -/
structure Rxn where
  reac : List (Nat × Nat)
  prod : List (Nat × Nat)
  /-- inactive (parenthesised) reactants / products: part of the net stoichiometry, not of the mass-action product -/
  inactReac : List (Nat × Nat) := []
  inactProd : List (Nat × Nat) := []
  deriving Repr

/-- `sum(reac.values())` -/
def Rxn.order (r : Rxn) : Int := ((r.reac.map fun p => p.2).sum : Nat)

/-- the reaction of the shared kinetics model (`Model/Kinetics.lean`, properties C03/C04) with a plain rate constant -/
def Rxn.toKin (k : α) (r : Rxn) : Kinetics.Reaction Nat α :=
  { reac := r.reac, prod := r.prod, inactReac := r.inactReac, inactProd := r.inactProd, param := k }

/-- `[exprs[k] for k in names]` on the rate dictionary: `none` = KeyError -/
def readAll (rates : List (Nat × α)) : List Nat → Option (List α)
  | [] => some []
  | s :: t => match Kinetics.dget? rates s with
    | none => none
    | some e => match readAll rates t with
      | none => none
      | some es => some (e :: es)

/-- the right-hand side on plain numbers, as the real pipeline produces it once everything is unitless
    (and what a user computes by hand in one fixed unit set):
    * `dydt` calls `rsys.rates(variables, ratexs=r_exprs)` = `Kinetics.sysRates` (C03) with `substance_keys=None`, no CSTR:
      a dictionary over the substances that OCCUR IN SOME REACTION (`variables[k]` for a reactant outside the state → KeyError);
    * `SymbolicSys.from_callback(dydt, dep_by_name=True, names=…)` (pyodesys, as modelled for C04 in `OdeBuild.readExprs`)
      requires one expression per substance — a spectator substance (in `rsys.substances`, in no reaction) makes
      `get_odesys` raise ValueError ("Callback returned unexpected (3) number of expressions: 2") — and reads `exprs[name]`.
    `y.getD i 0`: the default is unreachable under the KeyError guard. -/
def plainRhs [IntCast α] (ks : List α) (rxns : List Rxn) (y : List α) (ns : Nat) : Except Err (List α) :=
  if (ks.zip rxns).any (fun kr => kr.2.reac.any fun p => decide (y.length ≤ p.1)) then .error .keyError
  else
    let rates := Kinetics.sysRates (fun i => y.getD i ((0 : Nat) : α)) ((ks.zip rxns).map fun kr => kr.2.toKin kr.1) none none
    if rates.length ≠ ns then .error .valueError
    else match readAll rates (List.range ns) with
      | none => .error .keyError
      | some l => .ok l

/-- `odesys.f_cb(*odesys.to_arrays(t, y, ()))` for `get_odesys(rsys, include_params=True, unit_registry=reg)`:
    constants dedimensionalised at construction (ode.py 311-314), concentrations by the `to_arrays` callback;
    the result is unitless, in `conc_unit / time_unit` -/
def odeRhs [IntCast α] (reg : Registry α) (ks : List (PyVal α)) (rxns : List Rxn) (y : List (PyVal α)) (ns : Nat) :
    Except Err (List α) :=
  match mkOdeUnits reg [] true [] with
  | .error e => .error e
  | .ok ou => match dedimArgs reg ks with
    | .error e => .error e
    | .ok kus => match toArraysY ou y with
      | .error e => .error e
      | .ok ys => plainRhs (kus.map (·.2)) rxns ys ns

/-- the same for `include_params=False` with every rate constant a named parameter (`Reaction(…, 'k1')`):
    the constants arrive through the third `to_arrays` callback, converted with `p_units` built from
    `MassAction.args_dimensionality` -/
def odeRhsNamed [IntCast α] (reg : Registry α) (p : List (PyVal α)) (rxns : List Rxn) (y : List (PyVal α)) (ns : Nat) :
    Except Err (List α) :=
  match mkOdeUnits reg [] false (rxns.map fun r => (Gen.Dims.massAction, 0, r.order)) with
  | .error e => .error e
  | .ok ou => match toArraysY ou y with
    | .error e => .error e
    | .ok ys => match toArraysP ou p with
      | .error e => .error e
      | .ok ks => plainRhs ks rxns ys ns


/-! ## an `Expr`-valued rate constant: `MassAction(Arrhenius([A, Ea_over_R]))` -/

/-- `Arrhenius.__call__` (rates.py 262-268) on plain numbers: `A * exp(-Ea_over_R / T)` -/
def arrheniusEval [HasExp α] (A EaR T : α) : α := A * HasExp.exp (-(EaR / T))

/-- the three unitless numbers the unit-aware system evaluates the Arrhenius expression on:
    `Expr.dedimensionalisation(unit_registry)` converts each argument with the registry unit of ITS OWN dimension
    (`dedimArg`: `A`, then `Ea_over_R`), and the temperature arrives through the third `to_arrays` callback with
    `p_unit = _get_derived_unit(reg, "temperature")` (ode.py 304, 337-342) -/
def arrheniusArgs (reg : Registry α) (A EaR T : PyVal α) : Except Err (α × α × α) :=
  match dedimArg reg A with
  | .error e => .error e
  | .ok (_, a) => match dedimArg reg EaR with
    | .error e => .error e
    | .ok (_, e) => match getDerivedUnitFallback reg "temperature" with
      | .error er => .error er
      | .ok U => match toUnitlessScalar T U with
        | .error er => .error er
        | .ok t => .ok (a, e, t)

/-- the unitless rate constant of the unit-aware system -/
def arrheniusDedim [HasExp α] (reg : Registry α) (A EaR T : PyVal α) : Except Err α :=
  match arrheniusArgs reg A EaR T with
  | .error e => .error e
  | .ok (a, e, t) => .ok (arrheniusEval a e t)

/-- `odesys.f_cb(*to_arrays(t, y, {'temperature': T}))` for a system all of whose rate constants are
    `MassAction(Arrhenius([A_i, EaR_i]))` (one temperature for the whole system) -/
def odeRhsArrhenius [HasExp α] [IntCast α] (reg : Registry α) (params : List (PyVal α × PyVal α)) (T : PyVal α)
    (rxns : List Rxn) (y : List (PyVal α)) (ns : Nat) : Except Err (List α) :=
  match mkOdeUnits reg ["temperature"] true [] with
  | .error e => .error e
  | .ok ou => match mapExcept (fun p : PyVal α × PyVal α => arrheniusDedim reg p.1 p.2 T) params with
    | .error e => .error e
    | .ok ks => match toArraysY ou y with
      | .error e => .error e
      | .ok ys => plainRhs ks rxns ys ns


/-! ## `Eyring` and `Radiolytic` rate expressions, and unitless constants in general -/

/-- `Eyring.__call__` (rates.py 294-297) on plain numbers: `c0 * T * exp(-c1 / T) * conc0 ** (1 - order)` -/
def eyringEval [HasExp α] (c0 c1 conc0 T : α) (order : Int) : α :=
  c0 * T * HasExp.exp (-(c1 / T)) * zpow conc0 (1 - order)

/-- the four unitless numbers the unit-aware system evaluates an Eyring expression on: the three arguments
    (`kB_h_times_exp_dS_R`, `dH_over_R`, and `conc0`, whose default `1 molar` is appended to `args` by `Expr.__init__`) through
    `Expr.dedimensionalisation`, the temperature through the third `to_arrays` callback -/
def eyringArgs (reg : Registry α) (c0 c1 conc0 T : PyVal α) : Except Err (α × α × α × α) :=
  match dedimArg reg c0 with
  | .error e => .error e
  | .ok (_, a) => match dedimArg reg c1 with
    | .error e => .error e
    | .ok (_, b) => match dedimArg reg conc0 with
      | .error e => .error e
      | .ok (_, c) => match getDerivedUnitFallback reg "temperature" with
        | .error er => .error er
        | .ok U => match toUnitlessScalar T U with
          | .error er => .error er
          | .ok t => .ok (a, b, c, t)

/-- the unitless Eyring rate constant of the unit-aware system -/
def eyringDedim [HasExp α] (reg : Registry α) (c0 c1 conc0 T : PyVal α) (order : Int) : Except Err α :=
  match eyringArgs reg c0 c1 conc0 T with
  | .error e => .error e
  | .ok (a, b, c, t) => .ok (eyringEval a b c t order)

/-- `Radiolytic.__call__` (rates.py 125-135) with one dose rate, on plain numbers: `density * (doserate * g)` -/
def radiolyticEval (g rho D : α) : α := rho * (D * g)

/-- the three unitless numbers of a Radiolytic rate: the yield `g` through `Expr.dedimensionalisation`, `density` and
    `doserate` through the third `to_arrays` callback with `p_units = [_get_derived_unit(reg, k) for k in all_pk]` -/
def radiolyticArgs (reg : Registry α) (g rho D : PyVal α) : Except Err (α × α × α) :=
  match dedimArg reg g with
  | .error e => .error e
  | .ok (_, a) => match getDerivedUnitFallback reg "density" with
    | .error er => .error er
    | .ok Ur => match getDerivedUnitFallback reg "doserate" with
      | .error er => .error er
      | .ok Ud => match toUnitlessScalar rho Ur with
        | .error er => .error er
        | .ok r => match toUnitlessScalar D Ud with
          | .error er => .error er
          | .ok d => .ok (a, r, d)

/-- the unitless radiolytic production rate of the unit-aware system -/
def radiolyticDedim (reg : Registry α) (g rho D : PyVal α) : Except Err α :=
  match radiolyticArgs reg g rho D with
  | .error e => .error e
  | .ok (a, r, d) => .ok (radiolyticEval a r d)

/-- `odesys.f_cb` once every rate constant is a unitless NUMBER (however it was obtained: plain constants, Arrhenius, Eyring,
    radiolytic rates as zero-order constants): concentrations through `to_arrays`, then the plain right-hand side -/
def odeRhsUnitless [IntCast α] (reg : Registry α) (ks : List α) (rxns : List Rxn) (y : List (PyVal α)) (ns : Nat) :
    Except Err (List α) :=
  match mkOdeUnits reg [] true [] with
  | .error e => .error e
  | .ok ou => match toArraysY ou y with
    | .error e => .error e
    | .ok ys => plainRhs ks rxns ys ns

/-! ## the alternative builder `_create_odesys` -/

/-- `_mk_dedim(unit_registry)["dedim_tcp"](t, c, p)` (ode.py 682-699) with the default `param_unit`:
    `_t = to_unitless(t, unit_time)`, `_c = to_unitless(c, unit_conc)`, and per parameter
    `pu = default_unit_in_registry(v, reg)`, `_p = to_unitless(v, pu)` → `(_t, _c, [(pu, _p)…])` -/
def dedimTcp (reg : Registry α) (t : PyVal α) (c p : List (PyVal α)) : Except Err (α × List α × List (PyVal α × α)) :=
  match getDerivedUnit (some reg) "time" with
  | .error e => .error e
  | .ok ut => match getDerivedUnit (some reg) "concentration" with
    | .error e => .error e
    | .ok uc => match toUnitlessScalar t ut with
      | .error e => .error e
      | .ok t' => match toUnitlessFlat c uc with
        | .error e => .error e
        | .ok c' => match dedimArgs reg p with
          | .error e => .error e
          | .ok p' => .ok (t', c', p')

/-- the unit test of `_validate` (ode.py 786-789) on one mass-action term `k * ∏ c ** ν` evaluated with quantities:
    `to_unitless(result, u.molar / u.second)` "raises an exception upon unit error" -/
def validateTerm (k : PyVal α) (cs : List (PyVal α × Nat)) : Except Err Unit :=
  match (molar? : Option (PyVal α)), (second? : Option (PyVal α)) with
  | some M, some s => discard (toUnitlessScalar (massActionRatePy k cs) (M.div s))
  | _, _ => .error .attributeError

end Generic
end ChemModel.KinUnits
