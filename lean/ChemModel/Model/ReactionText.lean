/-
Executable model of chempy's reaction text reader and printer (property C12).

Mirrors, as they are:
* `chempy/util/parsing.py`: `_parse_multiplicity`, `_is_inactive_term`, `to_reaction`
* `chempy/chemistry.py`: `Reaction._init_stoich`, `__init__` (default checks), `from_string`, `__eq__`, `copy`, `keys`,
  `net_stoich`, `Equilibrium._str_arrow`
* `chempy/printing/string.py` (`StrPrinter._Reaction_parts/_Reaction_str/_print_Reaction/_print_ReactionSystem`)
* `chempy/reactionsystem.py`: `ReactionSystem.from_string` (line filtering)

Python strings are `List Char` (sequences of code points).  Every separator / arrow comes from
`Gen/Printing.lean`, regenerated from the source on every run.

NOT modelled (opaque): `eval` of the parameter text and of the `; key=value` parts, the quoted `'k'` parameter form;
unit-carrying parameters; `%.3g` (C20 models it; the printer takes the parameter text as an argument).
Numeric coefficient tokens outside the grammar described at `pyInt` / `pyFloat` yield `Err.unmodelled`.
-/
import ChemModel.Gen.Printing

namespace ChemModel.ReactionText
open ChemModel.Gen

abbrev Str := List Char

/-! ### Python `str` primitives -/

/-- code points with `str.isspace()` true (CPython 3.12, checked against `chr(i).isspace()` for all i) -/
def pySpaceCodes : List Nat :=
  [9, 10, 11, 12, 13, 28, 29, 30, 31, 32, 0x85, 0xa0, 0x1680, 0x2000, 0x2001, 0x2002, 0x2003, 0x2004, 0x2005,
   0x2006, 0x2007, 0x2008, 0x2009, 0x200a, 0x2028, 0x2029, 0x202f, 0x205f, 0x3000]

def isPySpace (c : Char) : Bool := pySpaceCodes.contains c.toNat

/-- `s.lstrip()` -/
def lstrip (s : Str) : Str := s.dropWhile isPySpace
/-- `s.rstrip()` -/
def rstrip (s : Str) : Str := (s.reverse.dropWhile isPySpace).reverse
/-- `s.strip()` -/
def strip (s : Str) : Str := rstrip (lstrip s)
/-- `s.rstrip(chars)` for a set of characters (used as `line.rstrip('\n')`) -/
def rstripChars (chars : Str) (s : Str) : Str := (s.reverse.dropWhile (fun c => chars.contains c)).reverse

/-- `s.startswith(p)` -/
def startsWith (p s : Str) : Bool := p.isPrefixOf s
/-- `s.endswith(p)` -/
def endsWith (p s : Str) : Bool := p.reverse.isPrefixOf s.reverse

/-- `sep in s` (substring test) -/
def isInfixB (sep : Str) : Str → Bool
  | [] => sep.isPrefixOf []
  | c :: cs => sep.isPrefixOf (c :: cs) || isInfixB sep cs

/-- put a character in front of the first piece -/
def consHead (c : Char) : List Str → List Str
  | [] => [[c]]
  | h :: t => (c :: h) :: t

/-- `s.split(sep)` for a non-empty `sep`: leftmost, non-overlapping occurrences.
    The counter is the number of characters of a matched separator still to be skipped. -/
def splitGo (sep : Str) : Str → Nat → List Str
  | [], _ => [[]]
  | _ :: cs, k + 1 => splitGo sep cs k
  | c :: cs, 0 =>
    if sep.isPrefixOf (c :: cs) then [] :: splitGo sep cs (sep.length - 1)
    else consHead c (splitGo sep cs 0)

def pySplit (sep s : Str) : List Str := splitGo sep s 0

/-- `sep.join(l)` -/
def joinStrs (sep : Str) : List Str → Str
  | [] => []
  | [x] => x
  | x :: y :: r => x ++ sep ++ joinStrs sep (y :: r)

/-- `re.split(" \\* | ", s)`: at each position the alternative `" * "` is tried first, then `" "`. -/
def reSplitGo : Str → Nat → List Str
  | [], _ => [[]]
  | _ :: cs, k + 1 => reSplitGo cs k
  | c :: cs, 0 =>
    if [' ', '*', ' '].isPrefixOf (c :: cs) then [] :: reSplitGo cs 2
    else if c == ' ' then [] :: reSplitGo cs 0
    else consHead c (reSplitGo cs 0)

def reSplit (s : Str) : List Str := reSplitGo s 0

/-- `s.split()` (runs of whitespace separate, no empty pieces) -/
def pyWordsGo : Str → Str → List Str
  | [], cur => if cur.isEmpty then [] else [cur.reverse]
  | c :: cs, cur =>
    if isPySpace c then (if cur.isEmpty then pyWordsGo cs [] else cur.reverse :: pyWordsGo cs [])
    else pyWordsGo cs (c :: cur)

def pyWords (s : Str) : List Str := pyWordsGo s []

/-- Python `<` on str: lexicographic by code point, a proper prefix is smaller. Here `≤`. -/
def strLe : Str → Str → Bool
  | [], _ => true
  | _ :: _, [] => false
  | a :: as, b :: bs => a.toNat < b.toNat || (a == b && strLe as bs)

/-! ### numbers written in the text -/

inductive Err
  | missingToken | tooManyParts | badNumber | unknownKey | noEffect | negative | nonIntegral | emptySeparator
  | unmodelled
  deriving DecidableEq, Repr

/-- a stoichiometric coefficient: exact value and whether Python holds it as a `float` -/
structure Coef where
  val : Rat
  isFloat : Bool
  deriving DecidableEq, Repr

def Coef.ofNat (n : Nat) : Coef := ⟨(n : Rat), false⟩
def Coef.ofInt (n : Int) : Coef := ⟨(n : Rat), false⟩
def Coef.add (a b : Coef) : Coef := ⟨a.val + b.val, a.isFloat || b.isFloat⟩

/-- value of a run of ASCII digits, most significant first -/
def digitsVal : Str → Nat → Option Nat
  | [], acc => some acc
  | c :: cs, acc => if c.isDigit then digitsVal cs (acc * 10 + (c.toNat - 48)) else none

/-- placement rule of `_` in numeric literals: not first, not last, not doubled -/
def underscoresOK : Str → Bool
  | [] => false
  | s@(c :: _) => c != '_' && s.getLast? != some '_' && !isInfixB ['_', '_'] s

/-- digits possibly grouped by single underscores -/
def digitPart (s : Str) : Option Nat :=
  if underscoresOK s then
    match s.filter (· != '_') with
    | [] => none
    | ds => digitsVal ds 0
  else none

def splitSign : Str → Bool × Str
  | '-' :: r => (true, r)
  | '+' :: r => (false, r)
  | r => (false, r)

/-- `int(text)`: surrounding whitespace ignored, optional sign, ASCII digits with `_` grouping.
    A non-ASCII character (e.g. a Unicode digit, which Python accepts) is outside the model. -/
def pyInt (s : Str) : Except Err Int :=
  let t := strip s
  if t.any (fun c => c.toNat ≥ 128) then .error .unmodelled else
  let (neg, body) := splitSign t
  match digitPart body with
  | some n => .ok (if neg then -(n : Int) else (n : Int))
  | none => .error .badNumber

/-- `x * 10^e` exactly -/
def scale10 (x : Rat) (e : Int) : Rat :=
  if e ≥ 0 then x * ((10 ^ e.toNat : Nat) : Rat) else x / ((10 ^ (-e).toNat : Nat) : Rat)

def optDigits (s : Str) : Option Nat := if s.isEmpty then some 0 else digitPart s

/-- is `m · 10^E` (m ≠ 0) outside [1e-300, 1e300)?  Integer arithmetic only; `|E| ≤ 400` is checked first so that no
    astronomically large power is ever computed. -/
def outOfRange (m : Nat) (E : Int) : Bool :=
  if E > 400 || E < -400 then true
  else if E ≥ 0 then decide (m * 10 ^ E.toNat ≥ 10 ^ 300)
  else decide (m ≥ 10 ^ (300 + (-E).toNat)) || decide (m * 10 ^ 300 < 10 ^ (-E).toNat)

/-- `float(text)` for decimal literals `[sign] digits [. [digits]] [e [sign] digits]` / `[sign] . digits …`;
    the exact rational value of the text is returned.  Outside the model (`unmodelled`): non-ASCII characters,
    `inf`/`nan` spellings, more than 15 mantissa digits (double rounding could decide integrality), non-zero
    magnitudes outside [1e-300, 1e300) (the real float under/overflows). -/
def pyFloat (s : Str) : Except Err Rat :=
  let t := strip s
  if t.any (fun c => c.toNat ≥ 128) then .error .unmodelled else
  let (neg, body) := splitSign t
  let lower := body.map Char.toLower
  if lower == "inf".toList || lower == "infinity".toList || lower == "nan".toList then .error .unmodelled else
  let mant := body.takeWhile (fun c => c != 'e' && c != 'E')
  let rest := body.dropWhile (fun c => c != 'e' && c != 'E')
  let expo : Option Int :=
    match rest with
    | [] => some 0
    | _ :: er =>
      let (eneg, eb) := splitSign er
      match digitPart eb with
      | some n => some (if eneg then -(n : Int) else (n : Int))
      | none => none
  let ip := mant.takeWhile (· != '.')
  let fp := (mant.dropWhile (· != '.')).drop 1
  if ip.isEmpty && fp.isEmpty then .error .badNumber else
  match optDigits ip, optDigits fp, expo with
  | some i, some f, some e =>
    let nfrac := (fp.filter (· != '_')).length
    let m : Nat := i * 10 ^ nfrac + f
    let ndig := (ip.filter (· != '_')).length + nfrac
    if ndig > 15 then .error .unmodelled
    else if m == 0 then .ok 0
    else if outOfRange m (e - nfrac) then .error .unmodelled
    else .ok (if neg then -(scale10 (m : Rat) (e - nfrac)) else scale10 (m : Rat) (e - nfrac))
  | _, _, _ => .error .badNumber

/-! ### `_parse_multiplicity` -/

abbrev Dict := List (Str × Coef)

/-- `if k not in result: result[k] = 0` then `result[k] += c` (insertion order kept) -/
def dictAdd : Dict → Str → Coef → Dict
  | [], k, c => [(k, Coef.add (Coef.ofNat 0) c)]
  | (k', v) :: t, k, c => if k' = k then (k', v.add c) :: t else (k', v) :: dictAdd t k c

def dictGet : Dict → Str → Option Coef
  | [], _ => none
  | (k', v) :: t, k => if k' = k then some v else dictGet t k

/-- `substance_keys` as `_parse_multiplicity` sees it -/
inductive Allowed
  | none
  | list (ks : List Str)
  /-- a `str` without a space stays a `str`: `k not in substance_keys` is then a SUBSTRING test -/
  | str (s : Str)
  deriving Repr

/-- `Reaction.from_string`: `if isinstance(substance_keys, str): if " " in substance_keys: substance_keys = substance_keys.split()` -/
def Allowed.ofStr (s : Str) : Allowed := if s.contains ' ' then .list (pyWords s) else .str s

def Allowed.has : Allowed → Str → Bool
  | .none, _ => true
  | .list ks, k => ks.contains k
  | .str s, k => isInfixB k s

/-- one iteration of the loop of `_parse_multiplicity` -/
def parseItem (d : Dict) (s : Str) : Except Err Dict :=
  match (reSplit s).filter (fun x => x != []) with
  | [] => .ok d
  | [k] => .ok (dictAdd d k (Coef.ofNat 1))
  | [n, k] =>
    if n.any (fun c => Printing.floatMarkers.contains c) then
      match pyFloat n with
      | .ok q => .ok (dictAdd d k ⟨q, true⟩)
      | .error e => .error e
    else
      match pyInt n with
      | .ok i => .ok (dictAdd d k (Coef.ofInt i))
      | .error e => .error e
  | _ => .error .tooManyParts

def parseItems : Dict → List Str → Except Err Dict
  | d, [] => .ok d
  | d, s :: ss =>
    match parseItem d s with
    | .ok d' => parseItems d' ss
    | .error e => .error e

/-- `_parse_multiplicity(strings, substance_keys)` -/
def parseMultiplicity (strings : List Str) (allowed : Allowed) : Except Err Dict :=
  match parseItems [] strings with
  | .ok d => if d.all (fun kv => allowed.has kv.1) then .ok d else .error .unknownKey
  | .error e => .error e

/-! ### `_is_inactive_term` -/

/-- the `for idx, char in enumerate(term)` loop; `d` is `depth` -/
def scanDepth : Str → Int → Bool
  | [], _ => false
  | c :: cs, d =>
    if c == '(' then scanDepth cs (d + 1)
    else if c == ')' then (if d - 1 == 0 then cs.isEmpty else scanDepth cs (d - 1))
    else scanDepth cs d

def isInactiveTerm (t : Str) : Bool :=
  if !(startsWith ['('] t && endsWith [')'] t) then false else scanDepth t 0

/-- `x[1:-1]` -/
def inner (t : Str) : Str := (t.drop 1).dropLast

/-! ### `to_reaction` up to the constructor call -/

structure RawReaction where
  reac : Dict
  prod : Dict
  inactReac : Dict
  inactProd : Dict
  /-- text of the second `;` part, stripped (what `eval` would receive); `none` when the line has one part -/
  paramText : Option Str
  /-- the third and further `;` parts (passed to `eval("dict(...)")`, not modelled further) -/
  kwParts : List Str
  deriving Repr

/-- the loop `for elements in reac_prod` : (act, inact) per side, errors in the order Python meets them -/
def parseSides (allowed : Allowed) : List (List Str) → Except Err (List (Dict × Dict))
  | [] => .ok []
  | elements :: rest =>
    match parseMultiplicity (elements.filter (fun x => !isInactiveTerm x)) allowed with
    | .error e => .error e
    | .ok a =>
      match parseMultiplicity ((elements.filter isInactiveTerm).map inner) allowed with
      | .error e => .error e
      | .ok i =>
        match parseSides allowed rest with
        | .error e => .error e
        | .ok r => .ok ((a, i) :: r)

/-- `to_reaction(line, substance_keys, token, Cls, globals_=False)` up to (excluding) `Cls(...)` -/
def toRaw (allowed : Allowed) (token : Str) (line : Str) : Except Err RawReaction :=
  let parts := pySplit Printing.partSep (rstripChars Printing.lineEnd line)
  let stoich := strip (parts.headD [])
  let paramText := match parts with
    | _ :: p :: _ => some (strip p)
    | _ => none
  if !isInfixB token stoich then .error .missingToken else
  if token.isEmpty then .error .emptySeparator else       -- str.split('') raises ValueError
  let reacProd := (pySplit token stoich).map (fun x => (pySplit Printing.termSep x).map strip)
  match parseSides allowed reacProd with
  | .error e => .error e
  | .ok (r :: p :: _) => .ok ⟨r.1, p.1, r.2, p.2, paramText, parts.drop 2⟩
  | .ok _ => .error .missingToken    -- unreachable: the token occurs, so split yields ≥ 2 sides

/-! ### `Reaction.__init__` -/

def insertByKey (kv : Str × Coef) : Dict → Dict
  | [] => [kv]
  | h :: t => if strLe kv.1 h.1 then kv :: h :: t else h :: insertByKey kv t

/-- `_init_stoich` on a plain dict: `OrderedDict(sorted(container.items(), key=lambda kv: kv[0]))` -/
def sortDict (d : Dict) : Dict := d.foldr insertByKey []

/-- what the caller hands to the constructor for a stoichiometry: a plain `dict`, an `OrderedDict`, or a `set` of keys -/
inductive ContainerKind
  | dict | ordered | set
  deriving DecidableEq, Repr

/-- `Reaction._init_stoich(container)`: a `set` becomes `{k: 1}`; a container whose type is exactly `dict` is rebuilt as an
    `OrderedDict` sorted by key; anything else (an `OrderedDict`) is kept as it is, in its own order -/
def initStoich (kind : ContainerKind) (items : Dict) : Dict :=
  match kind with
  | .set => sortDict (items.map fun kv => (kv.1, Coef.ofNat 1))
  | .dict => sortDict items
  | .ordered => items

structure Reaction where
  reac : Dict
  prod : Dict
  inactReac : Dict
  inactProd : Dict
  /-- the parameter; the model keeps its text (evaluation is not modelled) -/
  param : Option Str
  name : Option Str
  deriving Repr

def dictGetD (d : Dict) (k : Str) : Rat := match dictGet d k with | some c => c.val | none => 0

/-- `keys()` (as a list; only used through `any`) -/
def Reaction.keys (r : Reaction) : List Str :=
  r.reac.map (·.1) ++ r.prod.map (·.1) ++ r.inactReac.map (·.1) ++ r.inactProd.map (·.1)

/-- one entry of `net_stoich` -/
def Reaction.net (r : Reaction) (k : Str) : Rat :=
  dictGetD r.prod k - dictGetD r.reac k + dictGetD r.inactProd k - dictGetD r.inactReac k

def Reaction.allDicts (r : Reaction) : List Dict := [r.reac, r.prod, r.inactReac, r.inactProd]

/-- `check_any_effect` -/
def Reaction.anyEffect (r : Reaction) : Bool := r.keys.any (fun k => r.net k != 0)
/-- `check_all_positive` -/
def Reaction.allPositive (r : Reaction) : Bool := r.allDicts.all (fun d => d.all (fun kv => !(kv.2.val < 0)))
/-- `check_all_integral` (`v != int(v)`) -/
def Reaction.allIntegral (r : Reaction) : Bool := r.allDicts.all (fun d => d.all (fun kv => kv.2.val.den == 1))

/-- the default checks; all raise ValueError (the order in which Python runs them is a set order, so the model
    reports the first failing one of a fixed order and the harness compares only the exception class) -/
def Reaction.check (r : Reaction) : Except Err Reaction :=
  if !r.anyEffect then .error .noEffect
  else if !r.allPositive then .error .negative
  else if !r.allIntegral then .error .nonIntegral
  else .ok r

/-- `Cls(act[0], act[1], param, inact_reac=…, inact_prod=…)` with plain dicts: sorted by key, default checks -/
def mkReaction (raw : RawReaction) : Except Err Reaction :=
  Reaction.check ⟨initStoich .dict raw.reac, initStoich .dict raw.prod, initStoich .dict raw.inactReac,
    initStoich .dict raw.inactProd, raw.paramText, none⟩

/-- `Cls(reac, prod, param, inact_reac=…, inact_prod=…, name=…, checks=())` for containers of the given kinds -/
def Reaction.construct (kr kp kir kip : ContainerKind) (reac prod inactReac inactProd : Dict) (param name : Option Str) :
    Reaction :=
  ⟨initStoich kr reac, initStoich kp prod, initStoich kir inactReac, initStoich kip inactProd, param, name⟩

/-- `d[new] = d.pop(old)` on an OrderedDict (an in-place edit after construction): the entry is removed and its value is
    stored under `new` — at the end when `new` is a new key; nothing happens when `old` is absent (the model of KeyError
    is left to the caller) -/
def dictRename (d : Dict) (old new : Str) : Dict :=
  match dictGet d old with
  | none => d
  | some v =>
    let d' := d.filter (fun kv => kv.1 != old)
    if d'.any (fun kv => kv.1 == new) then d'.map (fun kv => if kv.1 == new then (kv.1, v) else kv) else d' ++ [(new, v)]

/-- the part of `to_reaction` + constructor that does not involve `eval`: stoichiometry, classification, checks;
    the parameter is kept as the stripped text of the second `;` part -/
def toReactionCore (allowed : Allowed) (token : Str) (line : Str) : Except Err Reaction :=
  match toRaw allowed token line with
  | .error e => .error e
  | .ok raw => mkReaction raw

/-! ### the parameter text: `'k'` or an expression -/


/-- what `to_reaction` does with the (stripped) parameter text -/
inductive ParamKind
  /-- `'name'`: `MassAction(Symbol(unique_keys=(name,)))`, no `eval` -/
  | symbol (name : Str)
  /-- anything else: the text is handed to `eval` (or dropped when `globals_ is False`) -/
  | expr (text : Str)
  deriving DecidableEq, Repr

/-- `if param.startswith("'") and param.endswith("'") and "'" not in param[1:-1]` -/
def classifyParam (p : Str) : ParamKind :=
  if startsWith ['\''] p && endsWith ['\''] p && !(inner p).contains '\'' then .symbol (inner p) else .expr p

/-! ### what `eval` is given: keyword parts and the parameter expression

`to_reaction` first evaluates `dict(<parts[2:] joined by ";">)` (ALWAYS, even with `globals_=False`), then the parameter text
(unless it is the quoted form or `globals_ is False`), and only then looks for the token.  `eval` itself is not modelled:
the model recognises the texts whose evaluation cannot fail and has a known result, and answers `Err.unmodelled` for every
other text (so a failing or side-effecting keyword part such as `checks=()` is never silently passed over). -/

def isWs (c : Char) : Bool := c == ' ' || c == '\t'
def isIdentChar (c : Char) : Bool := c.isAlpha || c == '_'

/-- Python decimal integer literal: `0`, `00`… or digits without a leading zero -/
def intLit (s : Str) : Bool :=
  s != [] && s.all Char.isDigit && (s.all (· == '0') || s.head? != some '0')

/-- Python float/int literal without underscores, with an optional sign in front: the texts `eval` maps to a number -/
def pyNumLit (s : Str) : Bool :=
  let body := match s with
    | '-' :: r => r
    | '+' :: r => r
    | r => r
  let mant := body.takeWhile (fun c => c != 'e' && c != 'E')
  let rest := body.dropWhile (fun c => c != 'e' && c != 'E')
  let ip := mant.takeWhile (· != '.')
  let fpd := mant.dropWhile (· != '.')
  let expOK := match rest with
    | [] => true
    | _ :: er =>
      let eb := match er with
        | '-' :: r => r
        | '+' :: r => r
        | r => r
      eb != [] && eb.all Char.isDigit
  match fpd with
  | [] => if rest.isEmpty then intLit ip else (ip != [] && ip.all Char.isDigit && expOK)
  | _ :: fp => ip.all Char.isDigit && fp.all Char.isDigit && (ip != [] || fp != []) && expOK

/-- the keyword texts the model understands: `name='…'`, `ref='…'`, `ref=<int>` (each at most once, separated by commas,
    blanks allowed around the pieces, no quote/backslash/newline inside the strings); the result is the `name` -/
def parseKwItems : Nat → Str → List String → Option (Option Str) → Option (Option Str)
  | 0, _, _, _ => none
  | fuel + 1, s, seen, name =>
    let s1 := s.dropWhile isWs
    let ident := s1.takeWhile isIdentChar
    let s2 := ((s1.dropWhile isIdentChar).dropWhile isWs)
    let id := String.ofList ident
    if !(id == "name" || id == "ref") || seen.contains id then none else
    match s2 with
    | '=' :: s3 =>
      let s4 := s3.dropWhile isWs
      match s4 with
      | '\'' :: body =>
        let str := body.takeWhile (· != '\'')
        if str.any (fun c => c == '\\' || c == '\n') then none else
        match body.dropWhile (· != '\'') with
        | _ :: after =>
          let name' := if id == "name" then some (some str) else name
          match after.dropWhile isWs with
          | [] => name'
          | ',' :: more => parseKwItems fuel more (id :: seen) name'
          | _ => none
        | [] => none
      | _ =>
        let digits := s4.takeWhile Char.isDigit
        if id == "name" || !intLit digits then none else
        match (s4.dropWhile Char.isDigit).dropWhile isWs with
        | [] => name
        | ',' :: more => parseKwItems fuel more (id :: seen) name
        | _ => none
    | _ => none

/-- `none`: not a modelled keyword text; `some n`: evaluates without error, `n` is the name it sets (if any) -/
def parseKw (kw : Str) : Option (Option Str) :=
  if kw.all isWs then some none else parseKwItems (kw.length + 1) kw [] (some none)

/-- can the parameter text be given to `eval` with a known, failure-free result? (`'k'` is not evaluated at all) -/
def paramEvalOK (p : Option Str) : Bool :=
  match p with
  | none => true
  | some t =>
    match classifyParam t with
    | .symbol _ => true
    | .expr e => e == "None".toList || pyNumLit e

/-- the parameter the reaction finally holds (as text): the quoted form always, an expression only when it is evaluated
    (`globals_` not `False`), `None` for the text `None` -/
def finalParam (ev : Bool) (p : Option Str) : Option Str :=
  match p with
  | none => none
  | some t =>
    match classifyParam t with
    | .symbol _ => some t
    | .expr e => if ev && e != "None".toList then some t else none

/-- **`Reaction.from_string(line, substance_keys, globals_=…)` / `Equilibrium.from_string`** (token by class).
    `ev = false` is `globals_=False` (the parameter expression is not evaluated), `ev = true` any evaluating context.
    Order as in `to_reaction`: keyword parts, parameter, then everything else. -/
def toReaction (ev : Bool) (allowed : Allowed) (token : Str) (line : Str) : Except Err Reaction :=
  let parts := pySplit Printing.partSep (rstripChars Printing.lineEnd line)
  let kw := if parts.length > 2 then parseKw (joinStrs Printing.partSep (parts.drop 2)) else some none
  match kw with
  | none => .error .unmodelled
  | some name =>
    if ev && !paramEvalOK ((parts.drop 1).head?.map strip) then .error .unmodelled else
    match toReactionCore allowed token line with
    | .error e => .error e
    | .ok r => .ok { r with param := finalParam ev r.param, name := name }

/-! ### the `checks` / `dont_check` arguments of the constructor -/

inductive CheckErr
  | both        -- ValueError("Cannot specify both checks and dont_check")
  | unknownCheck  -- AttributeError: no method check_<name>
  | failed      -- ValueError raised by a check
  deriving DecidableEq, Repr

/-- one named check with `throw=True` -/
def Reaction.runCheck (r : Reaction) (name : String) : Except CheckErr Unit :=
  if name == "any_effect" then (if r.anyEffect then .ok () else .error .failed)
  else if name == "all_positive" then (if r.allPositive then .ok () else .error .failed)
  else if name == "all_integral" then (if r.allIntegral then .ok () else .error .failed)
  else if name == "consistent_units" then .ok ()       -- unit-less parameter: always True
  else .error .unknownCheck

/-- `checks = self.default_checks ^ (dont_check or set())` – a symmetric difference: a name that is not a default check is ADDED -/
def symDiff (a b : List String) : List String := a.filter (fun x => !b.contains x) ++ b.filter (fun x => !a.contains x)

/-- the tail of `Reaction.__init__`: which checks run, and their verdict (the set order of Python is not modelled:
    the first failure in list order is reported, the harness never mixes an unknown name with a failing check) -/
def Reaction.runChecks (r : Reaction) : List String → Except CheckErr Unit
  | [] => .ok ()
  | c :: cs =>
    match r.runCheck c with
    | .ok () => r.runChecks cs
    | .error e => .error e

def Reaction.initChecks (r : Reaction) (checks dontCheck : Option (List String)) : Except CheckErr Reaction :=
  match checks, dontCheck with
  | some _, some _ => .error .both
  | some cs, none => (r.runChecks cs.eraseDups).map fun _ => r
  | none, dc => (r.runChecks (symDiff Printing.defaultChecks ((dc.getD []).eraseDups))).map fun _ => r

/-! ### `__eq__`, `copy` -/

/-- `OrderedDict.__eq__(OrderedDict)`: same length, same keys in the same order, equal values (2 == 2.0) -/
def dictEq : Dict → Dict → Bool
  | [], [] => true
  | (k, v) :: t, (k', v') :: t' => k == k' && v.val == v'.val && dictEq t t'
  | _, _ => false

/-- `Reaction.__eq__` over `_cmp_attr = (reac, prod, param, inact_reac, inact_prod)` – the name is not compared -/
def Reaction.eq (a b : Reaction) : Bool :=
  dictEq a.reac b.reac && dictEq a.prod b.prod && a.param == b.param && dictEq a.inactReac b.inactReac
    && dictEq a.inactProd b.inactProd

/-- `copy()`: `copy.copy` of every attribute handed to the constructor with `checks=()`.  The attributes are OrderedDicts
    (whatever the caller gave originally), `copy.copy` keeps that type, so `_init_stoich` keeps their order. -/
def Reaction.copy (r : Reaction) : Reaction :=
  Reaction.construct .ordered .ordered .ordered .ordered r.reac r.prod r.inactReac r.inactProd r.param r.name

/-- what `copy` would be if it handed plain `dict`s to the constructor (`dict(v)` instead of `copy.copy(v)`) -/
def Reaction.copyThroughDict (r : Reaction) : Reaction :=
  Reaction.construct .dict .dict .dict .dict r.reac r.prod r.inactReac r.inactProd r.param r.name

/-! ### `StrPrinter` -/

/-- `str(v)` of a coefficient: `int` → decimal digits; integral `float` below 1e16 → digits + ".0"; else not modelled -/
def coefStr (c : Coef) : Option Str :=
  if c.val.den != 1 then none else
  let sign : Str := if c.val.num < 0 then ['-'] else []
  let digits := Nat.toDigits 10 c.val.num.natAbs
  if c.isFloat then
    (if c.val.num.natAbs < 10000000000000000 then some (sign ++ digits ++ ['.', '0']) else none)
  else some (sign ++ digits)

/-- one side of `_Reaction_parts`: zero coefficients are filtered out, 1 is not printed -/
def termStrs : Dict → Option (List Str)
  | [] => some []
  | (k, v) :: t =>
    if v.val == 0 then termStrs t else
    match (if v.val == 1 then some [] else (coefStr v).map (· ++ Printing.coeffSpace)), termStrs t with
    | some c, some r => some ((c ++ k) :: r)
    | _, _ => none

/-- `_Reaction_str` : `"{}{}%s{}%s{}{}" % around_arrow` filled with `_Reaction_parts` -/
def reactionStr (arrow : Str) (r : Reaction) : Option Str :=
  match termStrs r.reac, termStrs r.prod, termStrs r.inactReac, termStrs r.inactProd with
  | some re, some pr, some ir, some ip =>
    let irStr := if ir.length > 0 then Printing.inactOpen ++ joinStrs Printing.inactJoin ir ++ Printing.inactClose else []
    let ipStr := if ip.length > 0 then Printing.inactOpenProd ++ joinStrs Printing.inactJoinProd ip ++ Printing.inactCloseProd else []
    some (joinStrs Printing.termJoin re ++ irStr ++ Printing.aroundArrowL ++ arrow ++ Printing.aroundArrowR
          ++ joinStrs Printing.termJoinProd pr ++ ipStr)
  | _, _, _, _ => none

/-- `_print_Reaction`; `paramStr` is the already formatted parameter (`%.3g` / `str`), supplied by the caller -/
def printReaction (arrow : Str) (withParam withName : Bool) (r : Reaction) : Option Str :=
  match reactionStr arrow r with
  | none => none
  | some s =>
    let s1 := match withParam, r.param with
      | true, some p => s ++ Printing.paramSeparator ++ p
      | _, _ => s
    some (match withName, r.name with
      | true, some n => s1 ++ Printing.paramSeparator ++ n
      | _, _ => s1)

/-- `str_(rxn, **settings)` with extra settings: an unknown setting name is refused by `Printer.__init__`
    (`ValueError("Unknown setting …")`); with `fallback_print_fn=None` a species key (a plain `str`) cannot be printed
    (`ValueError("Don't know how to print …")`) – raised as soon as one term is printed -/
inductive PrintErr
  | unknownSetting | cannotPrint
  deriving DecidableEq, Repr

def printReactionWith (settingNames : List String) (noFallback : Bool) (arrow : Str) (withParam withName : Bool)
    (r : Reaction) : Except PrintErr (Option Str) :=
  if settingNames.any (fun k => !Printing.settingKeys.contains k) then .error .unknownSetting
  else if noFallback && r.allDicts.any (fun d => d.any (fun kv => kv.2.val != 0)) then .error .cannotPrint
  else .ok (printReaction arrow withParam withName r)

/-! ### `ReactionSystem.from_string` / `_print_ReactionSystem` -/

/-- the lines handed to `Reaction.from_string`: not blank, not starting (after strip) with a comment token -/
def systemLines (commentTokens : List Str) (s : Str) : List Str :=
  (pySplit Printing.systemLineSep s).filter
    (fun r => strip r != [] && !(commentTokens.any (fun tok => startsWith tok (strip r))))

def mapExcept (f : Str → Except Err Reaction) : List Str → Except Err (List Reaction)
  | [] => .ok []
  | l :: ls =>
    match f l with
    | .error e => .error e
    | .ok r => match mapExcept f ls with
      | .error e => .error e
      | .ok rs => .ok (r :: rs)

/-- the `rxns` list built by `ReactionSystem.from_string(s, substances, comment_tokens=…)` (default: `Printing.commentTokens`); (constructor checks of the system not modelled) -/
def systemFromString (ev : Bool) (commentTokens : List Str) (allowed : Allowed) (token : Str) (s : Str) : Except Err (List Reaction) :=
  mapExcept (toReaction ev allowed token) (systemLines commentTokens s)

def mapOption (f : Reaction → Option Str) : List Reaction → Option (List Str)
  | [] => some []
  | r :: rs => match f r, mapOption f rs with
    | some s, some ss => some (s :: ss)
    | _, _ => none

/-- `_print_ReactionSystem`: `header + "\n".join(lines) + "\n"` -/
def printSystem (arrow : Str) (withParam withName : Bool) (name : Option Str) (rxns : List Reaction) : Option Str :=
  match mapOption (printReaction arrow withParam withName) rxns with
  | none => none
  | some ls =>
    let header : Str := match name with
      | some n => if n.isEmpty then [] else n ++ ['\n']
      | none => []
    some (header ++ joinStrs Printing.systemLineJoin ls ++ Printing.systemLineJoin)

/-! ### Specification side: the documented written notation (not a model of any chempy code)

A written reaction is two lists of terms.  A term is a species key with a coefficient written in one of four ways:
omitted (coefficient 1), `n X`, `n * X` (integer `n ≥ 1`), or as a decimal `n.ddd X` (`n ≥ 1`, at least one
fractional digit), optionally wrapped as an inactive group `(… X)`.  A line is `reactants token products` followed
by any number of `;`-separated parts (the first one is the parameter text, the others keyword parts). -/

inductive CoefForm
  | omit | plain | star
  /-- decimal coefficient `n.frac` (frac: the fractional digits as written) -/
  | dec (frac : Str)
  deriving DecidableEq, Repr

structure Term where
  key : Str
  n : Nat
  form : CoefForm
  inactive : Bool
  deriving Repr

/-- decimal digits of a natural number (Python `str(int)`) -/
def natStr (n : Nat) : Str := Nat.toDigits 10 n

/-- exact value of the decimal text `n.frac`: the digits of `n` followed by `frac`, read as an integer, over `10^|frac|` -/
def decValue (n : Nat) (frac : Str) : Rat :=
  ((n * 10 ^ frac.length + (digitsVal frac 0).getD 0 : Nat) : Rat) / ((10 ^ frac.length : Nat) : Rat)

def Term.isDec (t : Term) : Bool := match t.form with | .dec _ => true | _ => false

/-- the number the coefficient text denotes -/
def Term.value (t : Term) : Rat := match t.form with | .dec fr => decValue t.n fr | _ => (t.n : Rat)

/-- … as Python holds it: `int` for the integer forms, `float` for a decimal -/
def Term.coef (t : Term) : Coef := ⟨t.value, t.isDec⟩

def Term.body (t : Term) : Str :=
  match t.form with
  | .omit => t.key
  | .plain => natStr t.n ++ ' ' :: t.key
  | .star => natStr t.n ++ ' ' :: '*' :: ' ' :: t.key
  | .dec fr => natStr t.n ++ '.' :: fr ++ ' ' :: t.key

def Term.text (t : Term) : Str := if t.inactive then '(' :: t.body ++ [')'] else t.body

/-- one side: the terms joined by `" + "` -/
def sideText (ts : List Term) : Str := joinStrs [' ', '+', ' '] (ts.map Term.text)

/-- the written stoichiometry `reactants token products` -/
def writeLine (tok : Str) (reac prod : List Term) : Str := sideText reac ++ ' ' :: (tok ++ ' ' :: sideText prod)

/-- the `;`-separated tail: `; part₁; part₂ …` (each part written as it is, including its blanks) -/
def tailText : List Str → Str
  | [] => []
  | p :: ps => ';' :: p ++ tailText ps

/-- the terms of one side that are written for key `k` as active (`inact = false`) / inactive terms -/
def matching (inact : Bool) (k : Str) (ts : List Term) : List Term :=
  ts.filter (fun t => t.inactive == inact && t.key == k)

/-- what the written side denotes for key `k`: nothing when no such term is written, otherwise the sum of the written
    coefficients (exact), held as a `float` iff one of them is written as a decimal -/
def written (inact : Bool) (k : Str) (ts : List Term) : Option Coef :=
  match matching inact k ts with
  | [] => none
  | ms => some ⟨ms.foldl (fun s t => s + t.value) 0, ms.any Term.isDec⟩

def valD (c : Option Coef) : Rat := match c with | some c => c.val | none => 0

/-- integer-only reading: total written integer coefficient (used for sides without decimals) -/
def count (inact : Bool) (k : Str) : List Term → Nat
  | [] => 0
  | t :: ts => (if t.inactive = inact ∧ t.key = k then t.n else 0) + count inact k ts

/-- round parentheses balanced (needed for the key of an inactive group `(n X)`) -/
def parenBal : Str → Nat → Bool
  | [], d => d == 0
  | c :: cs, d =>
    if c == '(' then parenBal cs (d + 1)
    else if c == ')' then (d != 0 && parenBal cs (d - 1))
    else parenBal cs d

/-- admissible species key for the token `tok`: non-empty, no ASCII space, no `;`, does not contain the token,
    is not the lone `+`, does not begin or end with a white-space character -/
def keyOK (tok k : Str) : Bool :=
  k != [] && !k.contains ' ' && !k.contains ';' && !isInfixB tok k && k != ['+']
    && !(k.head?.any isPySpace) && !(k.getLast?.any isPySpace)

/-- admissible coefficient: `n ≥ 1`; omitted only when it is 1; a decimal has at least one fractional digit, only
    digits, and at most 15 digits in all (beyond that the double rounding of the real `float()` is not modelled) -/
def Term.coefOK (t : Term) : Bool :=
  decide (1 ≤ t.n) &&
  match t.form with
  | .omit => t.n == 1
  | .dec fr => fr != [] && fr.all Char.isDigit && decide ((natStr t.n).length + fr.length ≤ 15)
  | _ => true

/-- admissible written term: admissible key and coefficient; the key of an inactive group has balanced parentheses;
    a key written without coefficient is not itself of the shape `( … )` closed at its end -/
def Term.ok (tok : Str) (t : Term) : Bool :=
  keyOK tok t.key && t.coefOK
    && (if t.inactive then parenBal t.key 0 else (t.form != .omit || !isInactiveTerm t.key))

/-- admissible arrow token: non-empty, none of its characters is white space, a digit, or one of `; ( ) * + .` -/
def tokOK (tok : Str) : Bool :=
  tok != [] && tok.all (fun c => !isPySpace c && !c.isDigit && !([';', '(', ')', '*', '+', '.'].contains c))

/-- net stoichiometry of key `k` as written (products − reactants, active and inactive) -/
def netWritten (reac prod : List Term) (k : Str) : Rat :=
  valD (written false k prod) - valD (written false k reac) + valD (written true k prod) - valD (written true k reac)

/-- the reaction as written has a net effect on some species -/
def hasEffect (reac prod : List Term) : Bool :=
  (reac ++ prod).any (fun t => netWritten reac prod t.key != 0)

/-- the decimal coefficients are such that Python's `float` arithmetic is EXACT on them, so that the exact rational
    sums of `written` are what the doubles of the real code hold: every decimal fraction is dyadic with at most 14 binary
    places (`.0 .5 .25 .75 .125 …`) and every total that involves a decimal is below 2^38 — all partial sums are then
    multiples of 2^-14 below 2^38, i.e. 52-bit numbers, which doubles represent and add without rounding.
    (Without it the code differs: `1.2 A + 1.4 A + 1.4 A -> B` sums to 3.9999999999999996 and is refused.) -/
def floatSafe (reac prod : List Term) : Bool :=
  [reac, prod].all fun ts =>
    ts.all (fun t => match t.form with
      | .dec fr => ((digitsVal fr 0).getD 0 * 2 ^ 14) % 10 ^ fr.length == 0
      | _ => true) &&
    ts.all fun t => [false, true].all fun i =>
      match written i t.key ts with
      | some c => !c.isFloat || decide (c.val < 274877906944)
      | none => true

/-- every total written coefficient is a whole number (what `check_all_integral` demands) -/
def integralWritten (reac prod : List Term) : Bool :=
  [reac, prod].all fun ts => ts.all fun t =>
    [false, true].all fun i => match written i t.key ts with | some c => c.val.den == 1 | none => true

end ChemModel.ReactionText
