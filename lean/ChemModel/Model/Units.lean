/-
Model of chempy/units.py (unit bookkeeping), import-free apart from the generated tables.

## What is modelled, and how the third-party package is represented

`quantities` is NOT verified.  It is modelled as

  unit      = (positive scale factor relative to SI, integer exponent vector over the 7 SI base dimensions)
  quantity  = magnitude × unit

with its arithmetic `*`, `/`, `**` (integer exponent), `.units`, `.rescale`, `==` on those pairs
(section "quantities").  Everything after that section mirrors chempy's OWN code line by line:
same branches, same evaluation order, same error cases (`Except Err`).

The exponent vectors are `List Int` of length `nDims = 7` in the key order of `SI_base_registry`
(`Gen.Units.registryKeys`: length, mass, time, current, temperature, luminous_intensity, amount).
Well-formedness (length 7, factor ≠ 0 / > 0) is NOT built into the types; the theorems carry it
as explicit hypotheses (`Proofs/Units.lean`: `Unit.WF`, `Quantity.WF`, `RegistryWF`).

Everything is generic over the number type `α` (`Rat` in the driver, any `Field` in the proofs,
`Float` for `logspaceFromLin`).  Literals are written `((1 : Nat) : α)`.

A Python value that chempy passes around is a `PyVal`: a plain number (`int`/`float`; the int/float
distinction is not modelled) or a `Quantity`.  A "unit" argument is a `PyVal` as well: chempy uses the
integer `1`, `pq.dimensionless`, `q.units`, or any quantity such as `0.001*mol` (a registry entry).

Importers (C10, C19): use `Unit`, `Quantity`, `PyVal`, `toUnitlessScalar`, `toUnitless`, `unitOfScalar`,
`getDerivedUnit`, `defaultUnitInRegistry`, `unitlessInRegistry`, `ownUnit?`, `siRegistry`; the algebraic facts are in
`ChemModel/Proofs/Units.lean` (`toUnitlessScalar_eq`, `Quantity.si`, …).
-/
import ChemModel.Basic.Num
import ChemModel.Gen.Units

namespace ChemModel.Units
open ChemModel

/-- Python exception classes that the modelled code can raise -/
inductive Err
  | valueError | typeError | indexError | keyError | lookupError | attributeError
  /-- not an exception: the token for a float `inf`/`nan` RESULT (division by a target unit of magnitude 0) -/
  | nonFinite
  deriving DecidableEq, Repr

def Err.name : Err → String
  | .valueError => "ValueError" | .typeError => "TypeError" | .indexError => "IndexError"
  | .keyError => "KeyError" | .lookupError => "LookupError" | .attributeError => "AttributeError"
  | .nonFinite => "NonFinite"

/-! ## exponent vectors -/

/-- exponent vector over the base dimensions, in the key order of `SI_base_registry` -/
abbrev Dims := List Int

/-- number of base dimensions (keys of `SI_base_registry`) -/
def nDims : Nat := 7

namespace Dims
def zero : Dims := List.replicate nDims 0
def add (a b : Dims) : Dims := List.zipWith (· + ·) a b
def sub (a b : Dims) : Dims := List.zipWith (· - ·) a b
def smul (n : Int) (a : Dims) : Dims := a.map (n * ·)
/-- the dimension named by registry key number `i` -/
def basis (i : Nat) : Dims := (List.range nDims).map fun j => if j = i then 1 else 0
end Dims

/-- `dict.items()` of an exponent vector: the (key index, exponent) pairs with non-zero exponent,
    starting at key index `i`.  (The iteration order of quantities' simplified dimensionality is not
    modelled: the only consumer is a commutative product.) -/
def dimItems (i : Nat) : Dims → List (Nat × Int)
  | [] => []
  | e :: r => if e = 0 then dimItems (i + 1) r else (i, e) :: dimItems (i + 1) r

/-! ## plain numerical routines (NumPy, modelled) -/
section Plain
variable {α : Type} [Add α] [Sub α] [Mul α] [Div α] [NatCast α]

/-- `np.linspace(start, stop, num)` on plain numbers -/
def plainLinspace (a b : α) : Nat → List α
  | 0 => []
  | 1 => [a]
  | n + 2 => (List.range (n + 2)).map fun i => a + ((i : Nat) : α) * ((b - a) / ((n + 1 : Nat) : α))

/-- `np.log2` / `np.exp2` through the number classes -/
def log2 [HasLog α] (x : α) : α := HasLog.log x / HasLog.log (((2 : Nat) : α))
def exp2 [HasExp α] [HasLog α] (y : α) : α := HasExp.exp (y * HasLog.log (((2 : Nat) : α)))

/-- the numerical part of `logspace_from_lin`: `np.exp2(np.linspace(np.log2(s), np.log2(e), num))` -/
def logspaceCore [HasLog α] [HasExp α] (s e : α) (num : Nat) : List α :=
  (plainLinspace (log2 s) (log2 e) num).map exp2

/-- `np.polyval(p, x)`: Horner, highest power first -/
def plainPolyval (p : List α) (x : α) : α := p.foldl (fun acc c => acc * x + c) ((0 : Nat) : α)

end Plain

section Generic
variable {α : Type} [Add α] [Sub α] [Mul α] [Div α] [Neg α] [NatCast α] [DecidableEq α]

/-- `x ** n` for an integer `n` (numpy float power): repeated multiplication, reciprocal for `n < 0` -/
def zpow (x : α) : Int → α
  | .ofNat k => Num.npow x k
  | .negSucc k => ((1 : Nat) : α) / Num.npow x (k + 1)

/-! ## quantities (third party, modelled) -/

/-- a `quantities` unit after `.simplified`: scale factor relative to SI and exponent vector -/
structure Unit (α : Type) where
  factor : α
  dims : Dims
  deriving DecidableEq, Repr

namespace Unit
/-- `pq.dimensionless` -/
def one : Unit α := ⟨((1 : Nat) : α), Dims.zero⟩
def mul (a b : Unit α) : Unit α := ⟨a.factor * b.factor, a.dims.add b.dims⟩
def div (a b : Unit α) : Unit α := ⟨a.factor / b.factor, a.dims.sub b.dims⟩
def pow (a : Unit α) (n : Int) : Unit α := ⟨zpow a.factor n, Dims.smul n a.dims⟩
end Unit

/-- a scalar `quantities.Quantity`: magnitude × unit -/
structure Quantity (α : Type) where
  mag : α
  unit : Unit α
  deriving DecidableEq, Repr

namespace Quantity
/-- the physical value: magnitude expressed in SI -/
def si (q : Quantity α) : α := q.mag * q.unit.factor
/-- `1 * pq.dimensionless` -/
def dimensionless : Quantity α := ⟨((1 : Nat) : α), Unit.one⟩
/-- `q.units`: the unit as a quantity of magnitude 1 -/
def units (q : Quantity α) : Quantity α := ⟨((1 : Nat) : α), q.unit⟩
def mul (a b : Quantity α) : Quantity α := ⟨a.mag * b.mag, a.unit.mul b.unit⟩
def div (a b : Quantity α) : Quantity α := ⟨a.mag / b.mag, a.unit.div b.unit⟩
def pow (a : Quantity α) (n : Int) : Quantity α := ⟨zpow a.mag n, a.unit.pow n⟩
end Quantity

/-- a Python scalar as chempy sees it: plain number or Quantity -/
inductive PyVal (α : Type)
  | num (x : α)
  | qty (q : Quantity α)
  deriving DecidableEq, Repr

namespace PyVal
/-- a plain number read as a dimensionless quantity (what `quantities` does in mixed arithmetic) -/
def asQuantity : PyVal α → Quantity α
  | num x => ⟨x, Unit.one⟩
  | qty q => q

/-- the integer literal `1` -/
def one : PyVal α := num ((1 : Nat) : α)

/-- Python `a * b` -/
def mul : PyVal α → PyVal α → PyVal α
  | num x, num y => num (x * y)
  | num x, qty q => qty ⟨x * q.mag, q.unit⟩
  | qty q, num y => qty ⟨q.mag * y, q.unit⟩
  | qty a, qty b => qty (a.mul b)

/-- Python `a / b` -/
def div : PyVal α → PyVal α → PyVal α
  | num x, num y => num (x / y)
  | num x, qty q => qty ⟨x / q.mag, (Unit.one : Unit α).div q.unit⟩
  | qty q, num y => qty ⟨q.mag / y, q.unit⟩
  | qty a, qty b => qty (a.div b)

/-- Python `a ** n`, `n` an int -/
def pow : PyVal α → Int → PyVal α
  | num x, n => num (zpow x n)
  | qty q, n => qty (q.pow n)

/-- `magnitude(value)` (units.py 117-121) -/
def magnitude : PyVal α → α
  | num x => x
  | qty q => q.mag

/-- `unit == 1` as evaluated by Python: for a Quantity, `Quantity.__eq__` with a non-Quantity operand
    compares the bare magnitude (so `pq.metre == 1` is True) -/
def eqOne : PyVal α → Bool
  | num x => x = ((1 : Nat) : α)
  | qty q => q.mag = ((1 : Nat) : α)
end PyVal

/-- `Quantity.rescale(units)` of the third-party package: the target must be a quantity of magnitude 1
    (ValueError otherwise; TypeError for a non-quantity), the simplified dimensionalities must agree
    (ValueError otherwise); the magnitude is multiplied by the ratio of the two scale factors. -/
def quantitiesRescale (v : Quantity α) (target : PyVal α) : Except Err (Quantity α) :=
  match target with
  | .num _ => .error .typeError
  | .qty t =>
    if t.mag ≠ ((1 : Nat) : α) then .error .valueError
    else if v.unit.dims = t.unit.dims then .ok ⟨v.mag * (v.unit.factor / t.unit.factor), t.unit⟩
    else .error .valueError

/-! ## chempy/units.py -/

/-- `is_quantity`-style attribute test used all over units.py (`hasattr(expr, "dimensionality")`) is the
    constructor test of `PyVal`. -/
def PyVal.isQty : PyVal α → Bool
  | .num _ => false
  | .qty _ => true

/-- `unit_of(expr)` for a scalar (units.py 330-336): `expr.units`, or the int `1` on AttributeError -/
def unitOfScalar : PyVal α → PyVal α
  | .num _ => PyVal.one
  | .qty q => .qty q.units

/-- `unit_of(expr, simplified)` for a scalar: with `simplified=True` the unit is returned as `expr.units.simplified`, i.e. the
    scale factor moves into the magnitude and the unit becomes the product of SI base units (factor 1) -/
def unitOfScalarS (simplified : Bool) : PyVal α → PyVal α
  | .num _ => PyVal.one
  | .qty q => if simplified then .qty ⟨((1 : Nat) : α) * q.unit.factor, ⟨((1 : Nat) : α), q.unit.dims⟩⟩ else .qty q.units

/-- `rescale(value, unit)` (units.py 339-346): `value.rescale(unit)`; for a value without `.rescale`
    the value itself when `unit == 1`, else the AttributeError is re-raised.
    NOTE `unit == 1` is True for every unit of magnitude 1 (see `PyVal.eqOne`). -/
def rescale (value unit : PyVal α) : Except Err (PyVal α) :=
  match value with
  | .qty v => (quantitiesRescale v unit).map .qty
  | .num x => if unit.eqOne then .ok (.num x) else .error .attributeError

/-- `to_unitless(value, new_unit)` for a scalar `value` (units.py 380-402).
    * line 380-383: an `int`/`float` with `new_unit is 1` is returned unchanged;
    * line 389-392: `mag = magnitude(value); unt = unit_of(value); conv = rescale(unt/new_unit, pq.dimensionless);
      result = np.array(mag)*conv`, returned as `float(result)`.
    The `except AttributeError` handler (394-397) is not reachable from values of type `PyVal`
    (`rescale` onto `pq.dimensionless`, which `== 1`, never raises AttributeError); an error is propagated. -/
def toUnitlessScalar (value newUnit : PyVal α) : Except Err α :=
  if value.isQty = false ∧ newUnit = PyVal.one then .ok value.magnitude
  else
    let mag := value.magnitude
    let unt := unitOfScalar value
    match rescale (unt.div newUnit) (.qty Quantity.dimensionless) with
    | .ok conv => .ok (mag * conv.magnitude)
    | .error e => .error e

/-- element-wise `to_unitless` of a flat list of scalars -/
def toUnitlessFlat (l : List (PyVal α)) (newUnit : PyVal α) : Except Err (List α) :=
  match l with
  | [] => .ok []
  | v :: r => match toUnitlessScalar v newUnit with
    | .error e => .error e
    | .ok x => match toUnitlessFlat r newUnit with
      | .error e => .error e
      | .ok xs => .ok (x :: xs)

/-- `is_unitless` on a scalar (units.py 302-306): no `dimensionality` attribute → True; otherwise the
    (simplified) dimensionality is the dimensionless one -/
def isUnitlessScalar : PyVal α → Bool
  | .num _ => true
  | .qty q => q.unit.dims = Dims.zero

/-- nested Python containers of scalars (list/tuple/object array, dict, str) and plain numeric arrays -/
inductive Val (α : Type)
  | atom (a : PyVal α)
  | str
  | list (l : List (Val α))
  | dict (l : List (String × Val α))
  | ndarray (xs : List α)            -- a plain numeric `np.ndarray` (no units, dtype float)
  /-- an OBJECT-dtype `np.ndarray` of dimension ≥ 1 (elements: quantities, plain numbers, …; iterating a 2-D object array
      yields object-dtype rows, i.e. `objarray`s again) -/
  | objarray (l : List (Val α))
  /-- any other iterable that `np.array` cannot turn into a numeric array (generator, dict view, `map`/`iter` object): it falls
      through to the scalar `else` branch with `unit_of(value) = 1` -/
  | iterable (l : List (Val α))
  /-- a 0-d `np.ndarray` holding one scalar; `isObject` = its dtype is object (a numeric 0-d array holds a plain number) -/
  | zerod (isObject : Bool) (a : PyVal α)

/-- result of `to_unitless`: numbers in the same container shape (ndarray for list/tuple) -/
inductive Res (α : Type)
  | num (x : α)
  | list (l : List (Res α))
  | dict (l : List (String × Res α))

mutual
/-- `to_unitless(value, new_unit)` (units.py 349-404); `newUnit` already has `None` replaced by `pq.dimensionless`
    (line 366-367).  list/tuple: element-wise in order (369-370); dict: value-wise in key order (375-379);
    str: ValueError (384-385); plain ndarray: shortcut or element-wise (371-374); scalar: `toUnitlessScalar`.  A Quantity *array* behaves as the list of its
    elements (one common unit).  The first failing element decides the exception. -/
def toUnitless (v : Val α) (newUnit : PyVal α) : Except Err (Res α) :=
  match v with
  | .atom a => match toUnitlessScalar a newUnit with
    | .ok x => .ok (.num x)
    | .error e => .error e
  | .str => .error .valueError
  | .ndarray xs =>
    -- units.py 372-380 (after fix 005cbe4):
    -- `if is_unitless(new_unit) and rescale(new_unit, pq.dimensionless) == 1 and value.dtype != object: return value`,
    -- otherwise element-wise.  (`== 1` on the rescaled unit compares its magnitude, i.e. the SI value of `new_unit`.)
    let elementwise : Except Err (Res α) := match toUnitlessFlat (xs.map .num) newUnit with
      | .ok ys => .ok (.list (ys.map .num))
      | .error e => .error e
    if isUnitlessScalar newUnit then
      match rescale newUnit (.qty Quantity.dimensionless) with
      | .error e => .error e
      | .ok r => if r.eqOne then .ok (.list (xs.map .num)) else elementwise
    else elementwise
  | .list l => match toUnitlessList l newUnit with
    | .ok r => .ok (.list r)
    | .error e => .error e
  | .objarray l =>
    -- units.py 371-381: the shortcut `return value` requires `value.dtype != object`; an object array is ALWAYS converted
    -- element by element (conversion factor and compatibility check of every element), exactly like a list
    match toUnitlessList l newUnit with
    | .ok r => .ok (.list r)
    | .error e => .error e
  | .iterable l =>
    -- units.py 395-412 with `mag = value`, `unt = unit_of(value) = 1`: `conv = rescale(1/new_unit, pq.dimensionless)` raises
    -- ValueError for EVERY dimensional target before any element is looked at (NOTE: also for compatible elements, also when
    -- empty); for a dimensionless target `np.array(mag)*conv` raises TypeError and the handler converts element by element (412)
    match rescale ((PyVal.one : PyVal α).div newUnit) (.qty Quantity.dimensionless) with
    | .error e => .error e
    | .ok _ => match toUnitlessList l newUnit with
      | .ok r => .ok (.list r)
      | .error e => .error e
  | .zerod isObject a =>
    -- 0-d array (after fix d893461): unless the ratio-1 shortcut hands a NUMERIC 0-d array back untouched,
    -- `if value.ndim == 0: return to_unitless(value[()], new_unit)` — the conversion of its single element
    let element : Except Err (Res α) := match toUnitlessScalar a newUnit with
      | .ok x => .ok (.num x)
      | .error e => .error e
    if isObject then element
    else if isUnitlessScalar newUnit then
      match rescale newUnit (.qty Quantity.dimensionless) with
      | .error e => .error e
      | .ok r => if r.eqOne then .ok (.num a.magnitude) else element
    else element
  | .dict d => match toUnitlessDict d newUnit with
    | .ok r => .ok (.dict r)
    | .error e => .error e
def toUnitlessList (l : List (Val α)) (newUnit : PyVal α) : Except Err (List (Res α)) :=
  match l with
  | [] => .ok []
  | v :: r => match toUnitless v newUnit with
    | .error e => .error e
    | .ok x => match toUnitlessList r newUnit with
      | .error e => .error e
      | .ok xs => .ok (x :: xs)
def toUnitlessDict (l : List (String × Val α)) (newUnit : PyVal α) : Except Err (List (String × Res α)) :=
  match l with
  | [] => .ok []
  | (k, v) :: r => match toUnitless v newUnit with
    | .error e => .error e
    | .ok x => match toUnitlessDict r newUnit with
      | .error e => .error e
      | .ok xs => .ok ((k, x) :: xs)
end

/-- DOMAIN GUARD.  A target "unit" of magnitude 0 (`0*metre`) is not a unit: NumPy evaluates `unt/new_unit` to `inf` (or `nan`)
    without raising and `to_unitless` returns that.  The exact model has no `inf`; its field division would give `x/0 = 0`.
    The Python-facing entry point therefore answers with the explicit token `Err.nonFinite` instead, and every theorem about
    `toUnitlessScalar`/`toUnitless` carries the hypothesis `u.si ≠ 0`.  (Unit FACTORS are non-zero by well-formedness; the
    internally built targets — `unit_of(x)`, registry products, `u_y*u_x**k` — have non-zero magnitude whenever the registry
    entries have.) -/
def targetNonDegenerate (newUnit : PyVal α) : Bool := newUnit.magnitude ≠ ((0 : Nat) : α)

/-- `to_unitless(value, new_unit=None)` as called from outside: `None` becomes `pq.dimensionless` (line 366-367); a target of
    magnitude 0 yields the `nonFinite` token wherever Python would return a number (see `targetNonDegenerate`; exceptions —
    ValueError for another dimension, for a `str` — keep their precedence; an EMPTY container with such a target is outside the model) -/
def toUnitlessOpt (v : Val α) (newUnit : Option (PyVal α)) : Except Err (Res α) :=
  let u := newUnit.getD (.qty Quantity.dimensionless)
  match toUnitless v u with
  | .error e => .error e               -- dimension / type errors are raised before any number is produced
  | .ok r => if targetNonDegenerate u then .ok r else .error .nonFinite

mutual
/-- `is_unitless(expr)` (units.py 291-311): dict → all values, list/tuple → all elements, anything else True -/
def isUnitless : Val α → Bool
  | .atom a => isUnitlessScalar a
  | .str => true
  | .ndarray _ => true
  | .objarray _ => true               -- NOTE `is_unitless` does not look inside an ndarray (no `dimensionality`, not list/tuple/dict)
  | .zerod _ _ => true
  | .iterable _ => true
  | .list l => isUnitlessList l
  | .dict d => isUnitlessDict d
def isUnitlessList : List (Val α) → Bool
  | [] => true
  | v :: r => isUnitless v && isUnitlessList r
def isUnitlessDict : List (String × Val α) → Bool
  | [] => true
  | (_, v) :: r => isUnitless v && isUnitlessDict r
end

/-- a scalar or a flat container of scalars: the argument shapes of `uniform`, `unit_of`,
    `get_physical_dimensionality`, `default_unit_in_registry`, `unitless_in_registry` that are modelled -/
inductive Flat (α : Type)
  | scalar (a : PyVal α)
  | list (l : List (PyVal α))
  | dict (l : List (String × PyVal α))

def Flat.toVal : Flat α → Val α
  | .scalar a => .atom a
  | .list l => .list (l.map .atom)
  | .dict d => .dict (d.map fun p => (p.1, .atom p.2))

/-- `ndarray * unit` element: a unitless number times a unit (`1`, or a quantity) -/
def timesUnit (x : α) (unit : PyVal α) : PyVal α := (PyVal.num x).mul unit

/-- `uniform(container)` for a list/tuple (units.py 421-422, 430): `unit = unit_of(container[0])`
    (IndexError when empty), result `to_unitless(container, unit) * unit` -/
def uniformList (l : List (PyVal α)) : Except Err (List (PyVal α)) :=
  match l with
  | [] => .error .indexError
  | h :: _ =>
    let unit := unitOfScalar h
    match toUnitlessFlat l unit with
    | .error e => .error e
    | .ok xs => .ok (xs.map (timesUnit · unit))

/-- value-wise conversion of the dict branch of `uniform` (units.py 425-427) -/
def uniformDictGo (unit : PyVal α) : List (String × PyVal α) → Except Err (List (String × PyVal α))
  | [] => .ok []
  | (k, v) :: r => match toUnitlessScalar v unit with
    | .error e => .error e
    | .ok x => match uniformDictGo unit r with
      | .error e => .error e
      | .ok xs => .ok ((k, timesUnit x unit) :: xs)

/-- `uniform(container)` (units.py 407-430) -/
def uniform : Flat α → Except Err (Flat α)
  | .scalar a => .ok (.scalar a)
  | .list l => (uniformList l).map .list
  | .dict d => match d with
    | [] => .error .indexError            -- list(container.values())[0]
    | (_, v) :: _ => (uniformDictGo (unitOfScalar v) d).map .dict

/-- `unit_of(expr)` (units.py 314-336): for list/tuple the unit of `uniform(expr)[0]`, for a dict the unit of
    the first value of `uniform(expr)` -/
def unitOf : Flat α → Except Err (PyVal α)
  | .scalar a => .ok (unitOfScalar a)
  | .list l => match uniformList l with
    | .error e => .error e
    | .ok [] => .error .indexError
    | .ok (h :: _) => .ok (unitOfScalar h)
  | .dict d => match uniform (.dict d) with
    | .error e => .error e
    | .ok (.dict ((_, h) :: _)) => .ok (unitOfScalar h)
    | .ok _ => .error .indexError

/-- `unit_of(expr, simplified)` (units.py 314-336) with the `simplified` flag handed down through the container cases -/
def unitOfS (simplified : Bool) : Flat α → Except Err (PyVal α)
  | .scalar a => .ok (unitOfScalarS simplified a)
  | .list l => match uniformList l with
    | .error e => .error e
    | .ok [] => .error .indexError
    | .ok (h :: _) => .ok (unitOfScalarS simplified h)
  | .dict d => match uniform (.dict d) with
    | .error e => .error e
    | .ok (.dict ((_, h) :: _)) => .ok (unitOfScalarS simplified h)
    | .ok _ => .error .indexError

/-- `get_physical_dimensionality(value)` (units.py 433-448): `{}` when `is_unitless(value)`, otherwise the
    non-zero exponents of `uniform(value).simplified`, keyed through `_quantities_mapping` (key index here).
    A dict that is not unitless has no `.simplified` → AttributeError. -/
def getPhysicalDimensionality (v : Flat α) : Except Err (List (Nat × Int)) :=
  if isUnitless v.toVal then .ok []
  else match v with
    | .scalar a => .ok (dimItems 0 a.asQuantity.unit.dims)
    | .list l => match uniformList l with
      | .error e => .error e
      | .ok [] => .error .indexError
      | .ok (h :: _) => .ok (dimItems 0 h.asQuantity.unit.dims)
    | .dict _ => .error .attributeError

/-- a base-unit registry: one entry per key of `SI_base_registry`, in that order -/
abbrev Registry (α : Type) := List (PyVal α)

/-- `registry[k] ** v` for every item of the dimensionality dict; KeyError for a missing key -/
def registryPowers (reg : Registry α) : List (Nat × Int) → Except Err (List (PyVal α))
  | [] => .ok []
  | (k, v) :: r => match reg[k]? with
    | none => .error .keyError
    | some u => match registryPowers reg r with
      | .error e => .error e
      | .ok us => .ok (u.pow v :: us)

/-- `_get_unit_from_registry` (units.py 456-457): `reduce(mul, [registry[k] ** v for k, v in dimensionality.items()])` -/
def getUnitFromRegistry (dim : List (Nat × Int)) (reg : Registry α) : Except Err (PyVal α) :=
  match registryPowers reg dim with
  | .error e => .error e
  | .ok [] => .error .typeError          -- reduce() of an empty sequence
  | .ok (t :: r) => .ok (r.foldl PyVal.mul t)

/-- `default_unit_in_registry(value, registry)` (units.py 460-464): the int `1` for a unitless value -/
def defaultUnitInRegistry (value : Flat α) (reg : Registry α) : Except Err (PyVal α) :=
  match getPhysicalDimensionality value with
  | .error e => .error e
  | .ok [] => .ok PyVal.one
  | .ok (d :: ds) => getUnitFromRegistry (d :: ds) reg

/-- `unitless_in_registry(value, registry)` (units.py 467-469) -/
def unitlessInRegistry (value : Flat α) (reg : Registry α) : Except Err (Res α) :=
  match defaultUnitInRegistry value reg with
  | .error e => .error e
  | .ok u => toUnitless value.toVal u

/-- `∏ registry[key_i] ** e_i` over the non-zero entries of an exponent vector: the value of one
    expression of the `derived` dict (the order of the factors is not modelled; exact arithmetic) -/
def monomial (reg : Registry α) (e : Dims) : Except Err (PyVal α) :=
  match registryPowers reg (dimItems 0 e) with
  | .error e => .error e
  | .ok us => .ok (us.foldl PyVal.mul PyVal.one)

/-- all entries of the `derived` dict are built eagerly (units.py 182-200): a registry key missing for ANY of
    them is a KeyError whatever key is asked for -/
def derivedAll (reg : Registry α) : List (String × Dims) → Except Err (List (String × PyVal α))
  | [] => .ok []
  | (k, e) :: r => match monomial reg e with
    | .error err => .error err
    | .ok u => match derivedAll reg r with
      | .error err => .error err
      | .ok us => .ok ((k, u) :: us)

/-- position of a key in `SI_base_registry` -/
def keyIndex? (key : String) : Option Nat :=
  let i := Gen.Units.registryKeys.findIdx (· == key)
  if i < Gen.Units.registryKeys.length then some i else none

/-- `get_derived_unit(registry, key)` (units.py 159-205): `1.0` for `registry is None`; `derived[key]`, else
    `registry[key]`, else KeyError.  The exponents of each derived key are `Gen.Units.derivedTable`. -/
def getDerivedUnit (reg : Option (Registry α)) (key : String) : Except Err (PyVal α) :=
  match reg with
  | none => .ok PyVal.one
  | some reg => match derivedAll reg Gen.Units.derivedTable with
    | .error e => .error e
    | .ok ds => match ds.lookup key with
      | some u => .ok u
      | none => match keyIndex? key with
        | none => .error .keyError
        | some i => match reg[i]? with
          | none => .error .keyError
          | some u => .ok u

/-! ### registry ↔ human readable (units.py 208-223, 269-285) -/

/-- a `quantities` unit object as it appears in an unsimplified dimensionality: its plain `symbol` (ASCII, e.g. 'um';
    the name when no symbol was given) and its value.  The unicode `u_symbol` ('µm') is no longer used by chempy. -/
structure SymUnit (α : Type) where
  symbol : String
  unit : Unit α
  deriving DecidableEq, Repr

/-- a registry entry before simplification: a plain number (chempy uses the int `1`), or a quantity with its
    magnitude and its unsimplified dimensionality `[(unit object, exponent)]` -/
inductive RegEntry (α : Type)
  | num (x : α)
  /-- a float / NumPy number such as `1.0` or `np.int64(1)`: NOT the int `1` for the identity test `unit_registry[k] is integer_one` -/
  | floatNum (x : α)
  | q (mag : α) (dimy : List (SymUnit α × Int))
  deriving DecidableEq, Repr

/-- an entry of the serialised registry: `(1, 1)` or `(float(unit), symbol)` -/
inductive HumanEntry (α : Type)
  | one (factor : α)                       -- `(factor, 1)`; `to_human_readable` only writes `(1, 1)`
  | fs (factor : α) (symbol : String)
  deriving DecidableEq, Repr

/-- loop body of `unit_registry_to_human_readable` (units.py 215-223, after the fix that stores `.symbol`).  NOTE: only the NUMBER of distinct unit
    objects is checked; the exponent of a single one is dropped silently. -/
def toHumanEntry : RegEntry α → Except Err (HumanEntry α)
  | .num x => if x = ((1 : Nat) : α) then .ok (.one ((1 : Nat) : α)) else .error .attributeError   -- `x.dimensionality`
  | .floatNum _ => .error .attributeError            -- `is integer_one` is an identity test: 1.0 has no `.dimensionality`
  | .q mag dimy => match dimy with
    | [(u, _)] => .ok (.fs mag u.symbol)            -- `dim_list[0].symbol`
    | _ => .error .typeError               -- "Compound units not allowed"

def toHuman : List (RegEntry α) → Except Err (List (HumanEntry α))
  | [] => .ok []
  | e :: r => match toHumanEntry e with
    | .error err => .error err
    | .ok h => match toHuman r with
      | .error err => .error err
      | .ok hs => .ok (h :: hs)

/-- loop body of `unit_registry_from_human_readable` (units.py 275-284).  `lookup` models
    `pq.Quantity(0, symbol).dimensionality` (the third-party unit-string parser): `none` = LookupError. -/
def fromHumanEntry (lookup : String → Option (List (SymUnit α × Int))) : HumanEntry α → Except Err (RegEntry α)
  | .one factor => .ok (.num (factor * ((1 : Nat) : α)))           -- `factor * unit_quants[0]` with `unit_quants = [1]`
  | .fs factor sym => match lookup sym with
    | none => .error .lookupError
    | some [(u, _)] => .ok (.q factor [(u, 1)])            -- factor * unit_quants[0]
    | some _ => .error .typeError                           -- "Unknown UnitQuantity"

def fromHuman (lookup : String → Option (List (SymUnit α × Int))) : List (HumanEntry α) → Except Err (List (RegEntry α))
  | [] => .ok []
  | e :: r => match fromHumanEntry lookup e with
    | .error err => .error err
    | .ok h => match fromHuman lookup r with
      | .error err => .error err
      | .ok hs => .ok (h :: hs)

/-- `unit_registry_to_human_readable(None)` is `None` (units.py 210-211) -/
def toHumanOpt : Option (List (RegEntry α)) → Except Err (Option (List (HumanEntry α)))
  | none => .ok none
  | some reg => (toHuman reg).map some

/-- `unit_registry_from_human_readable(None)` is `None` (units.py 272-273) -/
def fromHumanOpt (lookup : String → Option (List (SymUnit α × Int))) :
    Option (List (HumanEntry α)) → Except Err (Option (List (RegEntry α)))
  | none => .ok none
  | some hs => (fromHuman lookup hs).map some

/-- the quantity denoted by a registry entry: `mag * ∏ unit_i ** e_i` -/
def RegEntry.value : RegEntry α → PyVal α
  | .num x => .num x
  | .floatNum x => .num x
  | .q mag dimy => .qty ⟨mag, dimy.foldl (fun acc p => acc.mul (p.1.unit.pow p.2)) Unit.one⟩

/-! ### NumPy-like helpers (units.py 475-577, 683-728) and the `Backend` wrapper (598-651) -/

/-- `a + b` / `a - b` of `quantities`: the right operand is rescaled to the unit of the left one; a plain number
    counts as dimensionless; incompatible dimensions raise ValueError.  `op` is applied to the magnitudes. -/
def addLike (op : α → α → α) (a b : PyVal α) : Except Err (PyVal α) :=
  match a, b with
  | .num x, .num y => .ok (.num (op x y))
  | _, _ =>
    let qa := a.asQuantity
    let qb := b.asQuantity
    if qa.unit.dims = qb.unit.dims then .ok (.qty ⟨op qa.mag (qb.mag * (qb.unit.factor / qa.unit.factor)), qa.unit⟩)
    else .error .valueError

/-- `a == b` of `quantities` for scalars: a Quantity right operand is rescaled to the left unit (incompatible → False);
    a plain right operand is compared with the bare magnitude of the left one. -/
def pyEq (a b : PyVal α) : Bool :=
  match a, b with
  | .num x, .num y => x = y
  | .qty qa, .num y => qa.mag = y
  | .num x, .qty qb => qb.mag = x          -- reflected `Quantity.__eq__`
  | .qty qa, .qty qb => qa.unit.dims = qb.unit.dims ∧ qa.mag = qb.mag * (qb.unit.factor / qa.unit.factor)

/-- `compare_equality(a, b)` for scalars (units.py 475-511): `a + b` raising ValueError → False, else `a == b` -/
def compareEquality (a b : PyVal α) : Bool :=
  match addLike (· + ·) a b with
  | .error _ => false
  | .ok _ => pyEq a b

/-- arguments of `compare_equality` beyond scalars: `None`, a string, a list / tuple, a dict (keys in order, values) -/
inductive CVal (α : Type)
  | none
  | atom (a : PyVal α)
  | str (s : String)
  | seq (isTuple : Bool) (l : List (CVal α))
  | dict (d : List (String × CVal α))

mutual
/-- Python `a == b` on such values: list/tuple equality is same type, same length and element-wise `==` (for quantities
    `Quantity.__eq__`, see `pyEq`); dict equality needs equal keys and `==` values; `None`/str compare by identity/text -/
def CVal.pyEq : CVal α → CVal α → Bool
  | .none, .none => true
  | .atom a, .atom b => Units.pyEq a b
  | .str s, .str t => s = t
  | .seq ta la, .seq tb lb => (ta == tb) && CVal.pyEqList la lb
  | .dict da, .dict db => CVal.pyEqDict da db
  | _, _ => false
def CVal.pyEqList : List (CVal α) → List (CVal α) → Bool
  | [], [] => true
  | x :: xs, y :: ys => CVal.pyEq x y && CVal.pyEqList xs ys
  | _, _ => false
def CVal.pyEqDict : List (String × CVal α) → List (String × CVal α) → Bool
  | [], [] => true
  | (k, x) :: xs, (k', y) :: ys => (k = k') && CVal.pyEq x y && CVal.pyEqDict xs ys
  | _, _ => false
end

/-- `len(x)`: `none` = TypeError (None and scalars have no length; a str has) -/
def CVal.len? : CVal α → Option Nat
  | .none => Option.none
  | .atom _ => Option.none
  | .str s => some s.length
  | .seq _ l => some l.length
  | .dict d => some d.length

/-- what iterating yields: elements of a sequence, KEYS of a dict, characters of a str -/
def CVal.iter : CVal α → List (CVal α)
  | .seq _ l => l
  | .dict d => d.map fun p => .str p.1
  | .str s => s.toList.map fun c => .str (String.singleton c)
  | _ => []

/-- outcome of `a + b` in `compare_equality`: `some true` = no exception, `some false` = ValueError, `none` = TypeError.
    (scalars: `addLike`; two lists, two tuples or two strings concatenate; everything else involving None, a dict, mixed
    sequence types or a str with a number is a TypeError) -/
def CVal.addOutcome : CVal α → CVal α → Option Bool
  | .atom a, .atom b => match addLike (· + ·) a b with
    | .ok _ => some true
    | .error _ => some false
  | .seq ta _, .seq tb _ => if ta == tb then some true else Option.none
  | .str _, .str _ => some true
  | .str _, .atom (.qty _) => some false      -- `str + Quantity`: quantities raises ValueError ("units must be a scalar Quantity …")
  | .atom (.qty _), .str _ => some false
  | _, _ => Option.none

/-- `compare_equality(a, b)` (units.py 483-519) beyond scalars.  `fuel` bounds the recursion depth (nesting depth of the arguments).
    TypeError of `a + b`: `len(a)` failing → `a == b`; otherwise `len(a) != len(b)` (a `len(b)` failing is an uncaught TypeError)
    → False, else `all(compare_equality(_a, _b) for … in zip(a, b))` — NOTE `zip` over two dicts pairs their KEYS only. -/
def compareEqualityC : Nat → CVal α → CVal α → Except Err Bool
  | 0, _, _ => .error .typeError
  | fuel + 1, a, b =>
    match CVal.addOutcome a b with
    | some false => .ok false
    | some true => .ok (CVal.pyEq a b)
    | Option.none =>
      match a.len? with
      | Option.none => .ok (CVal.pyEq a b)
      | some la => match b.len? with
        | Option.none => .error .typeError
        | some lb =>
          if la ≠ lb then .ok false
          else
            let rec go : List (CVal α) → List (CVal α) → Except Err Bool
              | x :: xs, y :: ys => match compareEqualityC fuel x y with
                | .error e => .error e
                | .ok false => .ok false
                | .ok true => go xs ys
              | _, _ => .ok true
            go a.iter b.iter


/-- `linspace(start, stop, num)` (units.py 548-562) -/
def linspace (start stop : PyVal α) (num : Nat) : Except Err (List (PyVal α)) :=
  let unit := unitOfScalar start
  match toUnitlessScalar start unit with
  | .error e => .error e
  | .ok s => match toUnitlessScalar stop unit with
    | .error e => .error e
    | .ok e => .ok ((plainLinspace s e num).map (timesUnit · unit))

/-- `logspace_from_lin(start, stop, num)` (units.py 565-577) -/
def logspaceFromLin [HasLog α] [HasExp α] (start stop : PyVal α) (num : Nat) : Except Err (List (PyVal α)) :=
  let unit := unitOfScalar start
  match toUnitlessScalar start unit with
  | .error e => .error e
  | .ok s => match toUnitlessScalar stop unit with
    | .error e => .error e
    | .ok e => .ok ((logspaceCore s e num).map (timesUnit · unit))

/-- element-wise `to_unitless(arr, unit)` of every array, concatenated (units.py 694) -/
def concatGo (unit : PyVal α) : List (List (PyVal α)) → Except Err (List α)
  | [] => .ok []
  | a :: r => match toUnitlessFlat a unit with
    | .error e => .error e
    | .ok xs => match concatGo unit r with
      | .error e => .error e
      | .ok ys => .ok (xs ++ ys)

/-- `concatenate(arrays)` (units.py 683-695), 1-d arrays -/
def concatenate (arrays : List (List (PyVal α))) : Except Err (List (PyVal α)) :=
  match arrays with
  | [] => .error .indexError
  | a0 :: _ => match unitOf (.list a0) with
    | .error e => .error e
    | .ok unit => match concatGo unit arrays with
      | .error e => .error e
      | .ok xs => .ok (xs.map (timesUnit · unit))

/-- `np.tile(a, reps)` for a 1-d array and an integer `reps` -/
def plainTile {β : Type} (l : List β) : Nat → List β
  | 0 => []
  | n + 1 => l ++ plainTile l n

/-- `tile(array, reps)` (units.py 698-707), 1-d array -/
def tile (array : List (PyVal α)) (reps : Nat) : Except Err (List (PyVal α)) :=
  match array with
  | [] => .error .indexError
  | elem :: _ =>
    let unit := unitOfScalar elem
    match toUnitlessFlat array unit with
    | .error e => .error e
    | .ok xs => .ok ((plainTile xs reps).map (timesUnit · unit))

/-- the unit chempy gives coefficient `i` (highest power first) of a degree-`deg` fit:
    `u_y * u_x ** (i - deg)` (units.py 715, 725) -/
def coeffUnit (ux uy : PyVal α) (deg i : Nat) : PyVal α := uy.mul (ux.pow ((i : Int) - (deg : Int)))

/-- `polyfit(x, y, deg)` (units.py 710-715); `fit` stands for `np.polyfit` (third party, a parameter) -/
def polyfit (fit : List α → List α → Nat → List α) (x y : List (PyVal α)) (deg : Nat) : Except Err (List (PyVal α)) :=
  match x, y with
  | x0 :: _, y0 :: _ =>
    let ux := unitOfScalar x0
    let uy := unitOfScalar y0
    match toUnitlessFlat x ux with
    | .error e => .error e
    | .ok xs => match toUnitlessFlat y uy with
      | .error e => .error e
      | .ok ys => .ok ((fit xs ys deg).zipIdx.map fun p => ((PyVal.num p.1).mul uy).mul (ux.pow ((p.2 : Int) - (deg : Int))))
  | _, _ => .error .indexError

/-- `to_unitless(v, u_y * u_x ** (i - deg))` for the coefficients from index `i` on (units.py 725) -/
def polyvalCoeffs (ux uy : PyVal α) (deg : Nat) : Nat → List (PyVal α) → Except Err (List α)
  | _, [] => .ok []
  | i, v :: r => match toUnitlessScalar v (coeffUnit ux uy deg i) with
    | .error e => .error e
    | .ok c => match polyvalCoeffs ux uy deg (i + 1) r with
      | .error e => .error e
      | .ok cs => .ok (c :: cs)

/-- `polyval(p, x)` (units.py 718-728) for a scalar `x` or a flat list of scalars -/
def polyval (p : List (PyVal α)) (x : Flat α) : Except Err (List (PyVal α)) :=
  let ux? : Except Err (PyVal α) := match x with
    | .list (x0 :: _) => .ok (unitOfScalar x0)      -- unit_of(x[0])
    | other => unitOf other                        -- except (TypeError, IndexError): unit_of(x)
  match ux? with
  | .error e => .error e
  | .ok ux => match p.getLast? with
    | none => .error .indexError                   -- p[-1]
    | some pl =>
      let uy := unitOfScalar pl
      match polyvalCoeffs ux uy (p.length - 1) 0 p with
      | .error e => .error e
      | .ok cs =>
        let xs : Except Err (List α) := match x with
          | .scalar a => (toUnitlessScalar a ux).map ([·])
          | .list l => toUnitlessFlat l ux
          | .dict _ => .error .typeError
        match xs with
        | .error e => .error e
        | .ok xs => .ok (xs.map fun x => timesUnit (plainPolyval cs x) uy)

/-- `Backend.__getattr__` (units.py 646-651): every positional argument goes through `to_unitless(arg)`
    (target `pq.dimensionless`) before the wrapped function `f` sees it -/
def backendCall {β : Type} (f : List α → β) (args : List (PyVal α)) : Except Err β :=
  match toUnitlessFlat args (.qty Quantity.dimensionless) with
  | .error e => .error e
  | .ok xs => .ok (f xs)

/-- `Backend.__getattr__` / `_wrap_numpy` with CONTAINER arguments (`be.sum([[1000*m/km, 1], [3, 4]], axis=1)`): every positional argument,
    scalar or container, goes through `to_unitless(arg)` (target `pq.dimensionless`), in order; the wrapped function receives the results -/
def backendCallV {β : Type} (f : List (Res α) → β) (args : List (Val α)) : Except Err β :=
  match toUnitlessList args (.qty Quantity.dimensionless) with
  | .error e => .error e
  | .ok rs => .ok (f rs)

/-- `_wrap_numpy(k)` (units.py 731-744), the wrapper behind `patched_numpy.log/log10/log2/log1p/exp/expm1/logaddexp/logaddexp2`:
    `numpy_func(*map(to_unitless, args), **kwargs)` — literally the `Backend` wrapper -/
def wrapNumpy {β : Type} (numpyFunc : List α → β) (args : List (PyVal α)) : Except Err β :=
  match toUnitlessFlat args (.qty Quantity.dimensionless) with
  | .error e => .error e
  | .ok xs => .ok (numpyFunc xs)

/-! ### generated tables as model values -/

/-- exact fraction `(n, d)` of a Gen table as a number -/
def fracOf (p : Int × Nat) : α := Num.frac p.1 p.2

/-- the unit bound to `default_units.<name>` by units.py (`Gen.Units.ownUnits`) -/
def ownUnit? (name : String) : Option (Unit α) :=
  (Gen.Units.ownUnits.find? (·.1 == name)).map fun r => ⟨fracOf r.2.1, r.2.2.1⟩

/-- `SI_base_registry` as a model registry -/
def siRegistry : Registry α :=
  Gen.Units.siRegistry.map fun r => .qty ⟨((1 : Nat) : α), ⟨fracOf r.2.1, r.2.2⟩⟩

/-- a named derived unit of `quantities` (`Gen.Units.namedUnits`: litre, joule, newton, pascal, …) after `.simplified` -/
def namedUnit? (name : String) : Option (Unit α) :=
  (Gen.Units.namedUnits.find? (·.1 == name)).map fun r => ⟨fracOf r.2.1, r.2.2⟩

/-- a row of `Gen.Units.hrUnits` (a standard prefixed unit of the installed `quantities`) as a unit object -/
def hrSymUnit (r : Nat × String × String × (Int × Nat) × List Int) : SymUnit α :=
  ⟨r.2.2.1, ⟨fracOf r.2.2.2.1, r.2.2.2.2⟩⟩

/-- the standard prefixed units with the registry key (index) they belong to -/
def standardUnits : List (Nat × SymUnit α) := Gen.Units.hrUnits.map fun r => (r.1, hrSymUnit r)

/-- the unit-string parser of `quantities` (`pq.Quantity(0, symbol).dimensionality`) on the extracted symbols
    (`Gen.Units.hrParse`); any other string: `none` here (the real parser knows many more) -/
def hrLookup (s : String) : Option (List (SymUnit α × Int)) :=
  (Gen.Units.hrParse.lookup s).map fun l => l.map fun p => ((⟨p.1, ⟨fracOf p.2.1, p.2.2.1⟩⟩ : SymUnit α), p.2.2.2)

end Generic

/-! ### `allclose` (units.py 514-545) needs an order -/
section Ordered
variable {α : Type} [Add α] [Sub α] [Mul α] [Div α] [Neg α] [NatCast α] [DecidableEq α]
  [LT α] [DecidableLT α] [LE α] [DecidableLE α]

def absv (x : α) : α := if x < ((0 : Nat) : α) then -x else x

/-- `np.allclose`-like test on plain numbers as chempy writes it: `|a - b| <= |a|*rtol (+ atol)` -/
def plainAllclose (a b rtol : α) (atol : Option α) : Bool :=
  let lim := absv a * rtol
  let lim := match atol with | none => lim | some t => lim + t
  absv (a - b) ≤ lim

/-- `allclose(a, b, rtol, atol)` for scalars (units.py 521-538).
    `d = abs(a - b)`: any exception → (scalars have no `len`) → False.
    `lim = abs(a)*rtol`; `lim += atol` (ValueError propagates when the dimensions differ); `d <= lim`
    (`quantities` rescales the right operand to the unit of the left one). -/
def allcloseScalar (a b : PyVal α) (rtol : α) (atol : Option (PyVal α)) : Except Err Bool :=
  match addLike (· - ·) a b with
  | .error _ => .ok false
  | .ok d =>
    let lim : PyVal α := match a with
      | .num x => .num (absv x * rtol)
      | .qty q => .qty ⟨absv q.mag * rtol, q.unit⟩
    let lim? : Except Err (PyVal α) := match atol with
      | none => .ok lim
      | some t => addLike (· + ·) lim t
    match lim? with
    | .error e => .error e
    | .ok lim =>
      let qd := d.asQuantity
      let ql := lim.asQuantity
      if qd.unit.dims = ql.unit.dims then .ok (decide (absv qd.mag ≤ ql.mag * (ql.unit.factor / qd.unit.factor)))
      else .error .valueError

/-- `allclose` on two Python lists of scalars (units.py 521-530): `a - b` raises for lists, then equal length and
    pairwise close; ANY exception of an element comparison is swallowed by the enclosing `except Exception` → False -/
def allcloseList (a b : List (PyVal α)) (rtol : α) (atol : Option (PyVal α)) : Bool :=
  if a.length ≠ b.length then false
  else
    let rec go : List (PyVal α) → List (PyVal α) → Bool
      | x :: xs, y :: ys => match allcloseScalar x y rtol atol with
        | .error _ => false
        | .ok false => false              -- `all(...)` stops at the first False
        | .ok true => go xs ys
      | _, _ => true
    go a b

/-- an argument of `allclose` on `quantities` values: a scalar quantity / number, or a 1-d array (2-d is reduced to 1-d by the harness) -/
inductive ArrArg (α : Type)
  | scalar (x : PyVal α)
  | arr (l : List (PyVal α))

/-- `len(x)`; `none` for a scalar (TypeError) -/
def ArrArg.len? : ArrArg α → Option Nat
  | .scalar _ => none
  | .arr l => some l.length

/-- NumPy broadcasting of a list to length `n`: a single element is repeated -/
def expandList {β : Type} (n : Nat) : List β → List β
  | [x] => List.replicate n x
  | l => l

def ArrArg.expand (n : Nat) : ArrArg α → List (PyVal α)
  | .scalar x => List.replicate n x
  | .arr l => expandList n l

/-- broadcast length of `a - b`: `none` = not broadcastable, `some none` = both scalars, `some (some n)` = a length-`n` array -/
def broadcastLen : Option Nat → Option Nat → Option (Option Nat)
  | none, none => some none
  | none, some k => some (some k)
  | some k, none => some (some k)
  | some j, some k => if j = k then some (some k) else if j = 1 then some (some k) else if k = 1 then some (some j) else none

/-- the (a_i, b_i, atol_i) triples over the BROADCAST shape, as `allclose` compares them after the fix 32ccfa8 (units.py 529-553).
    `a - b` that cannot be broadcast, or whose operands differ in dimension → `none` (the call ends in the list branch: False).  `lim = abs(a)*rtol` has the shape of `a` and
    `lim += atol` is IN PLACE: an array `atol` must have the length of `a` (or 1); with a scalar `a`, or a longer `atol`, NumPy raises
    ValueError.  `lim` is then broadcast against `d` (`lim + 0*d`, the fix) or used as a scalar. -/
def allcloseTriples (a b : ArrArg α) (atol : Option (ArrArg α)) :
    Option (Except Err (List (PyVal α × PyVal α × Option (PyVal α)))) :=
  match broadcastLen a.len? b.len? with
  | none => none
  | some shape =>
    let n := shape.getD 1
    -- `a - b` also raises (ValueError) when a pair has different dimensions: list branch again, every pair False
    if ((a.expand n).zip (b.expand n)).any (fun p => decide (p.1.asQuantity.unit.dims ≠ p.2.asQuantity.unit.dims)) then none else
    -- `lim = abs(a)*rtol + atol` (not in place, fix e80401e) and, when the lengths differ, `lim, d = lim + 0*d, d + 0*lim`
    -- (fix dadaf52): a, b and an array atol are broadcast to ONE common shape; an atol that cannot be broadcast against the
    -- shape of `a - b` is a ValueError.  Two scalars with an array atol: `np.all(d <= lim)` over the elements of atol.
    let shapeAll : Option (Option Nat) := match atol with
      | some (.arr ts) => broadcastLen shape (some ts.length)
      | _ => some shape
    match shapeAll with
    | none => some (.error .valueError)
    | some sh =>
      let m := sh.getD 1
      let ats : List (Option (PyVal α)) := match atol with
        | none => List.replicate m none
        | some (.scalar t) => List.replicate m (some t)
        | some (.arr ts) => (expandList m ts).map some
      some (.ok ((expandList m (a.expand n)).zip ((expandList m (b.expand n)).zip ats)))

/-- `np.all` of the pairwise tests; the first exception (a `lim += atol` of another dimension) propagates -/
def allcloseAll (rtol : α) : List (PyVal α × PyVal α × Option (PyVal α)) → Bool → Except Err Bool
  | [], acc => .ok acc
  | (x, y, t) :: r, acc => match allcloseScalar x y rtol t with
    | .error e => .error e
    | .ok ok => allcloseAll rtol r (acc && ok)

/-- `allclose(a, b, rtol, atol)` on `quantities` scalars / 1-d arrays with NumPy broadcasting (units.py 529-553, after fix 32ccfa8).
    A dimension mismatch of `a - b` makes every pair False (the list branch); shapes that cannot be broadcast give False. -/
def allcloseArrays (a b : ArrArg α) (rtol : α) (atol : Option (ArrArg α)) : Except Err Bool :=
  match allcloseTriples a b atol with
  | none => .ok false
  | some (.error e) => .error e
  | some (.ok ts) => allcloseAll rtol ts true

/-- an argument of `allclose` that may be an `UncertainQuantity` (value ± uncertainty) -/
inductive MaybeUncertain (α : Type)
  | plain (v : PyVal α)
  | uncertain (q : Quantity α) (uncertainty : α)

/-- `pq.Quantity(a)`: the nominal quantity, the uncertainty is dropped (units.py 524-527) -/
def MaybeUncertain.strip : MaybeUncertain α → PyVal α
  | .plain v => v
  | .uncertain q _ => .qty q

/-- `allclose` with possibly uncertain arguments: `a`, `b` and (since 6280738) `atol` are unwrapped to their nominal quantity
    by the three leading clauses of `allclose`, then the plain comparison runs -/
def allcloseU (a b : MaybeUncertain α) (rtol : α) (atol : Option (MaybeUncertain α)) : Except Err Bool :=
  allcloseScalar a.strip b.strip rtol (atol.map MaybeUncertain.strip)

end Ordered

end ChemModel.Units
