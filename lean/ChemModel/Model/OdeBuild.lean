/-
Executable model of the construction of the ODE right-hand side from a reaction system (C04).

Mirrors (line numbers of the pinned tree):
* `chempy/kinetics/ode.py`     get_odesys (114-492): `_ori_pk/_ori_uk`, the substitution check, `all_pk`, `_reg_unique`
                               (MassAction with unique key / Symbol argument / plain argument), `param_names_for_odesys`, the
                               closures `dydt` / `reaction_rates` (variables dict: y, then p, then passive substitutions),
                               `names`, `extra['unique']`, `extra['param_keys']`, `extra['rate_exprs_cb']`, cstr=True;
                               _create_odesys (546-679): collection of `keys`, "Duplicates in keys", time-symbol clash, `varbls`,
                               `parameter_expressions`, `rates_kw={'cstr_fr_fc': …}`, `[rates[key] for key in rsys.substances]`
* `chempy/chemistry.py`        Reaction.rate_expr (915-941): number → `MassAction([k])`, str → `MassAction.fk(key)`
* `chempy/util/_expr.py`       Expr.arg (290-318): unique key looked up in `variables`, fall-back to the stored argument,
                               `KeyError("Unique key missing")`; Symbol.__call__; Constant.__call__
* `pyodesys/symbolic.py`       SymbolicSys.from_callback (third party, *modelled* only): names/param_names clash → ValueError,
                               the callback is run on fresh symbols, "unexpected number of expressions" → ValueError,
                               `[exprs[k] for k in names]`
The rate computation itself is `ChemModel.Kinetics.sysRates` (C03's model of `ReactionSystem.rates`), instantiated at the
number type `Poly String`: running chempy's duck-typed code on sympy symbols *is* running it in a polynomial ring.

Symbols are identified by their name (what `_create_odesys` does literally: `backend.Symbol(key)`; `get_odesys` uses
`y_i`/`p_j` but rejects a name shared by a substance and a parameter, so the identification loses nothing).
-/
import ChemModel.Model.Kinetics

namespace ChemModel.OdeBuild
open ChemModel.Kinetics

/-! ## Multivariate polynomials over ℚ in normal form -/

/-- a monomial: variables with positive exponents, sorted by variable, no variable twice -/
abbrev Mono (σ : Type) := List (σ × Nat)

section Poly
variable {σ : Type} [DecidableEq σ] [Ord σ]

/-- multiply a monomial by `v ^ e` keeping it sorted and merged -/
def monoInsert (v : σ) (e : Nat) : Mono σ → Mono σ
  | [] => [(v, e)]
  | (w, f) :: t =>
    if w = v then (w, f + e) :: t
    else if compare v w = .lt then (v, e) :: (w, f) :: t
    else (w, f) :: monoInsert v e t

/-- product of two monomials -/
def monoMul (m₁ m₂ : Mono σ) : Mono σ := m₁.foldr (fun ve acc => monoInsert ve.1 ve.2 acc) m₂

/-- lexicographic comparison of monomials (only used to fix the order of the terms) -/
def cmpMono : Mono σ → Mono σ → Ordering
  | [], [] => .eq
  | [], _ :: _ => .lt
  | _ :: _, [] => .gt
  | a :: as, b :: bs => ((compare a.1 b.1).then (compare a.2 b.2)).then (cmpMono as bs)

/-- add `c · m` to a sorted, merged list of terms -/
def insertTerm (m : Mono σ) (c : Rat) : List (Mono σ × Rat) → List (Mono σ × Rat)
  | [] => [(m, c)]
  | (m', c') :: t =>
    if m' = m then (m', c' + c) :: t
    else if cmpMono m m' = .lt then (m, c) :: (m', c') :: t
    else (m', c') :: insertTerm m c t

/-- normal form of a list of terms: sorted by monomial, equal monomials merged, zero coefficients removed -/
def normalise (ts : List (Mono σ × Rat)) : List (Mono σ × Rat) :=
  (ts.foldr (fun t acc => insertTerm t.1 t.2 acc) []).filter (fun t => !(decide (t.2 = 0)))

/-- a polynomial is the list of its terms (kept in normal form by every operation below) -/
structure Poly (σ : Type) where
  terms : List (Mono σ × Rat)
  deriving DecidableEq

/-- a rational constant (a Python int / Fraction / sympy.Rational inside a sympy expression) -/
def Poly.const (c : Rat) : Poly σ := ⟨normalise [([], c)]⟩
/-- a symbol -/
def Poly.var (v : σ) : Poly σ := ⟨[([(v, 1)], 1)]⟩
def Poly.add (p q : Poly σ) : Poly σ := ⟨normalise (p.terms ++ q.terms)⟩
def Poly.neg (p : Poly σ) : Poly σ := ⟨p.terms.map fun t => (t.1, -t.2)⟩
def Poly.sub (p q : Poly σ) : Poly σ := ⟨normalise (p.terms ++ (Poly.neg q).terms)⟩
def Poly.mul (p q : Poly σ) : Poly σ :=
  ⟨normalise (p.terms.flatMap fun t => q.terms.map fun u => (monoMul t.1 u.1, t.2 * u.2))⟩

instance : Add (Poly σ) := ⟨Poly.add⟩
instance : Sub (Poly σ) := ⟨Poly.sub⟩
instance : Mul (Poly σ) := ⟨Poly.mul⟩
instance : NatCast (Poly σ) := ⟨fun n => Poly.const (n : Rat)⟩
instance : IntCast (Poly σ) := ⟨fun i => Poly.const (i : Rat)⟩

end Poly

section Eval
variable {σ α : Type} [Add α] [Mul α] [NatCast α]

/-- value of a monomial under an assignment of the symbols -/
def evalMono (env : σ → α) (m : Mono σ) : α :=
  m.foldr (fun ve acc => Num.npow (env ve.1) ve.2 * acc) ((1 : Nat) : α)

/-- value of a list of terms; `ofRat` embeds the rational coefficients into the number type -/
def evalTerms (ofRat : Rat → α) (env : σ → α) (ts : List (Mono σ × Rat)) : α :=
  ts.foldr (fun t acc => ofRat t.2 * evalMono env t.1 + acc) ((0 : Nat) : α)

/-- value of a polynomial: binding every symbol -/
def evalPoly (ofRat : Rat → α) (env : σ → α) (p : Poly σ) : α := evalTerms ofRat env p.terms

end Eval

/-! ## Reaction systems with the kinds of rate parameter the builders distinguish -/

/-- what `Reaction.param` is, as far as the builders care -/
inductive RateParam where
  /-- a plain number `k` (`rate_expr()` turns it into `MassAction([k])`; `_create_odesys` refuses it) -/
  | raw (k : Rat)
  /-- `MassAction([k])` -/
  | ma (k : Rat)
  /-- `MassAction([k], unique_keys=[uk])`: a named constant with a stored value -/
  | named (uk : String) (k : Rat)
  /-- a string `uk` (`rate_expr()` gives `MassAction.fk(uk)`: `args is None`, `unique_keys == (uk,)`) -/
  | key (uk : String)
  /-- `MassAction([Symbol(unique_keys=(uk,))])` -/
  | sym (uk : String)
  deriving DecidableEq

/-- a reaction: the four stoichiometry dictionaries as chempy stores them, and the parameter -/
structure Rxn where
  reac : List (String × Nat)
  prod : List (String × Nat)
  inactReac : List (String × Nat) := []
  inactProd : List (String × Nat) := []
  param : RateParam

/-- a reaction system: `rsys.substances.keys()` and `rsys.rxns`.  Both builders name the dependent variables by these KEYS
    (`get_odesys`: `names = list(rsys.substances.keys())` since fix 0466445, before that `Substance.name`, which raised KeyError
    for a substance registered under a key different from its name; `_create_odesys` always used the keys); `Substance.name`
    only reaches `latex_names`, which is not part of the model. -/
structure Sys where
  subst : List String
  rxns : List Rxn

/-- outcome classes of the builders -/
inductive BuildErr where
  | typeError
  | valueError
  | keyError
  | notImplementedError
  /-- pyodesys met a right-hand side that is a plain Python number (no `.free_symbols` / `.diff`) -/
  | attributeError
  /-- the input leaves the modelled fragment (stated in notes/C04.md); the harness never accepts this as agreement -/
  | unmodelled
  deriving DecidableEq, Repr

/-- `Expr.all_unique_keys()` of the rate expression (a set with at most one element here) -/
def RateParam.uniqueKey? : RateParam → Option String
  | .raw _ => none
  | .ma _ => none
  | .named uk _ => some uk
  | .key uk => some uk
  | .sym uk => some uk

/-- `Expr.arg(variables, 0)` for the single argument of the `MassAction` (`_expr.py` 290-318) on a dict of polynomials:
    a unique key found in `variables` wins, otherwise the stored argument, otherwise `KeyError` (`none`) -/
def resolve (vars : List (String × Poly String)) : RateParam → Option (Poly String)
  | .raw k => some (Poly.const k)
  | .ma k => some (Poly.const k)
  | .named uk k =>
    match dget? vars uk with
    | some v => some v
    | none => some (Poly.const k)
  | .key uk => dget? vars uk
  | .sym uk => dget? vars uk

/-- the reaction as C03's model sees it once the rate coefficient has been looked up -/
def toReaction (r : Rxn) (coeff : Poly String) : Reaction String (Poly String) :=
  { reac := r.reac, prod := r.prod, inactReac := r.inactReac, inactProd := r.inactProd, param := coeff }

/-- reactions with their coefficients resolved, in order; `none` = `KeyError` (a unique key or an active reactant missing
    from `variables`; `rate_coeff` is evaluated before `active_conc_prod`, both are `KeyError`) -/
def resolveAll (vars : List (String × Poly String)) : List Rxn → Option (List (Reaction String (Poly String)))
  | [] => some []
  | r :: rs =>
    match resolve vars r.param with
    | none => none
    | some k =>
      if (dkeys r.reac).all (dmem vars) then
        match resolveAll vars rs with
        | none => none
        | some out => some (toReaction r k :: out)
      else none

/-- total reading of the `variables` dict; the default is unreachable behind the guards of the builders -/
def lookup (vars : List (String × Poly String)) (k : String) : Poly String := dgetD vars k (Poly.const 0)

/-- `cstr=True` of `get_odesys` / `rates_kw={'cstr_fr_fc': (fr, fc)}` as the tests build it:
    `("feedratio", OrderedDict([(sk, "fc_" + sk) for sk in rsys.substances]))` -/
def cstrOf (cstr : Bool) (subst : List String) : Option (Cstr String) :=
  if cstr then some { frKey := "feedratio", fc := subst.map fun s => (s, "fc_" ++ s) } else none

/-- the parameter keys a CSTR adds (`_ori_pk.add(cstr_fr_fc[0])`, `… .values()`) -/
def cstrKeys : Option (Cstr String) → List String
  | none => []
  | some cs => cs.frKey :: cs.fc.map Prod.snd

/-- keys read by the CSTR block of `ReactionSystem.rates`: all must be in `variables` -/
def cstrNeeded : Option (Cstr String) → List String
  | none => []
  | some cs => (cs.fc.map fun kv => [cs.frKey, kv.2, kv.1]).flatten

/-- every key that a reaction hands to `variables[...]` -/
def referenced (rxns : List Rxn) : List String :=
  (rxns.map fun r => dkeys r.reac ++ (match r.param.uniqueKey? with | some uk => [uk] | none => [])).flatten

/-- The rate of a reaction is a plain Python number (not a sympy object) exactly when the constants are Python numbers,
    there is no active reactant (`result = 1`, no `variables[k] ** v`) and the coefficient is a number, not a symbol. -/
def pyRate (r : Reaction String (Poly String)) : Bool :=
  r.reac.isEmpty && r.param.terms.all fun t => t.1.isEmpty

/-- The entry of substance `s` in the dict returned by `ReactionSystem.rates` is a plain Python number: no feed term and
    every reaction that reports `s` (it reports its own keys) has a Python-number rate.  pyodesys (third party, modelled)
    then fails with `AttributeError` (`'int' object has no attribute 'free_symbols'` / `'diff'`). -/
def pyNumberEntry (pyNums : Bool) (rs : List (Reaction String (Poly String))) (cstr? : Option (Cstr String)) (s : String) : Bool :=
  pyNums && cstr?.isNone && (rs.filter fun r => decide (s ∈ rxnKeys r)).all pyRate

/-- all species a reaction reports a rate for (`Reaction.keys()`) -/
def rxnSpecies (r : Rxn) : List String :=
  dedupKeys (dkeys r.reac ++ dkeys r.prod ++ dkeys r.inactReac ++ dkeys r.inactProd)

/-- the rate coefficient is a plain Python number: `pyKeys` are the entries of `variables` that hold Python numbers (passive
    values, active expressions made of Python numbers only).  A sympy expression that happens to simplify to a constant
    (`0 * Symbol`) is NOT a Python number — Python-number-ness is a matter of provenance, not of value. -/
def pyCoeff (vars : List (String × Poly String)) (pyKeys : List String) : RateParam → Bool
  | .raw _ => true
  | .ma _ => true
  | .named uk _ => if dmem vars uk then decide (uk ∈ pyKeys) else true
  | .key uk => decide (uk ∈ pyKeys)
  | .sym uk => decide (uk ∈ pyKeys)

/-- `pyNumberEntry` by provenance (see `pyCoeff`): the entry of `s` in the rate dict is a plain Python number -/
def pyNumberEntryG (pyNums : Bool) (vars : List (String × Poly String)) (pyKeys : List String) (rxns : List Rxn)
    (cstr? : Option (Cstr String)) (s : String) : Bool :=
  pyNums && cstr?.isNone &&
    (rxns.filter fun r => decide (s ∈ rxnSpecies r)).all fun r => r.reac.isEmpty && pyCoeff vars pyKeys r.param

/-! ## `get_odesys` -/

/-- build configuration of `get_odesys`: `include_params`, passive (numeric) `substitutions`, `cstr` -/
structure Cfg where
  includeParams : Bool := true
  subs : List (String × Rat) := []
  cstr : Bool := false
  /-- the constants are Python numbers (int / Fraction), not sympy numbers: see `pyNumberEntry` -/
  pyNums : Bool := false

/-- what is observable of the result: `odesys.names`, `odesys.param_names`, `extra['param_keys']`, `extra['unique']`,
    `odesys.exprs` (one per substance, in substance order) and the expressions behind `extra['rate_exprs_cb']` -/
structure OdeSys where
  names : List String
  paramNames : List String
  paramKeys : List String
  unique : List (String × Option Rat)
  exprs : List (Poly String)
  rateExprs : List (Poly String)

/-- `_ori_uk`: union of the unique keys of all rate expressions -/
def oriUk (rxns : List Rxn) : List String := rxns.filterMap fun r => r.param.uniqueKey?

/-- `all_pk` (ode.py 272-285): the parameter keys (here: the CSTR keys; a `MassAction` has no `parameter_keys`) that are
    not substituted and are not `'time'`.  `_ori_pk` is a Python *set*: the order of `all_pk` depends on the string hash
    seed; the model lists it in construction order and the harness compares this part as a set. -/
def allPk (cfg : Cfg) (subst : List String) : List String :=
  (dedupKeys (cstrKeys (cstrOf cfg.cstr subst))).filter fun pk => !(dmem cfg.subs pk) && !(decide (pk = "time"))

/-- `_reg_unique(ratex, rxn)` (ode.py 221-254) on the ordered dict `unique`:
    * `MassAction.fk(uk)` (`args is None`) and `MassAction([Symbol(uk)])`: `unique[uk] = None` unless `uk` is substituted
      (then the generic branch below finds nothing to register);
    * `MassAction([k], unique_keys=[uk])`: generic branch, `unique[uk] = k` unless substituted;
    * `MassAction([k])`: nothing. -/
def regUnique (subs : List (String × Rat)) (unique : List (String × Option Rat)) : RateParam → List (String × Option Rat)
  | .raw _ => unique
  | .ma _ => unique
  | .named uk k => if dmem subs uk then unique else dset unique uk (some k)
  | .key uk => if dmem subs uk then unique else dset unique uk none
  | .sym uk => if dmem subs uk then unique else dset unique uk none

/-- `unique` after `if not include_params: for rxn, ratex in zip(rsys.rxns, r_exprs): _reg_unique(ratex, rxn)` -/
def uniqueDict (cfg : Cfg) (rxns : List Rxn) : List (String × Option Rat) :=
  if cfg.includeParams then [] else rxns.foldl (fun u r => regUnique cfg.subs u r.param) []

/-- `param_names_for_odesys` (ode.py 291-297) -/
def paramNamesOf (cfg : Cfg) (sys : Sys) : List String :=
  let pk := allPk cfg sys.subst
  if cfg.includeParams then pk
  else pk ++ (dkeys (uniqueDict cfg sys.rxns)).filter fun k => !(decide (k ∈ pk))

/-- the `variables` dict inside `dydt` (ode.py 346-355): `dict(chain(y.items(), p.items()))`, then
    `variables.update(_passive_subst)`; every symbol is the polynomial variable of its name.
    (`variables['time'] = t` is left out: a system that reads it is reported `unmodelled`.) -/
def mkVars (names paramNames : List String) (passive : List (String × Rat)) : List (String × Poly String) :=
  let y : List (String × Poly String) := dictOf (names.map fun n => (n, Poly.var n))
  let yp := paramNames.foldl (fun d p => dset d p (Poly.var p)) y
  passive.foldl (fun d kv => dset d kv.1 (Poly.const kv.2)) yp

/-- `[exprs[k] for k in names]`: `none` = `KeyError` -/
def readAll (rates : List (String × Poly String)) : List String → Option (List (Poly String))
  | [] => some []
  | s :: t =>
    match dget? rates s with
    | none => none
    | some e =>
      match readAll rates t with
      | none => none
      | some es => some (e :: es)

/-- `SymbolicSys.from_callback(dydt, dep_by_name=True, …)`: the callback's dict must have as many entries as there are
    names (else ValueError), then `[exprs[k] for k in names]` (KeyError) -/
def readExprs (names : List String) (rates : List (String × Poly String)) : Except BuildErr (List (Poly String)) :=
  if rates.length ≠ names.length then .error .valueError
  else
    match readAll rates names with
    | none => .error .keyError
    | some l => .ok l

/-- `get_odesys(rsys, include_params, substitutions, cstr=…)` as far as the generated right-hand side is concerned -/
def buildRhs (cfg : Cfg) (sys : Sys) : Except BuildErr OdeSys :=
  let cstr? := cstrOf cfg.cstr sys.subst
  -- `set.union(*(… for ratex in r_exprs))` with no reaction: TypeError
  if sys.rxns.isEmpty then .error .typeError
  -- "Substitution: '%s' does not appear in any rate expressions."
  else if cfg.subs.any (fun kv => !(decide (kv.1 ∈ cstrKeys cstr?) || decide (kv.1 ∈ oriUk sys.rxns))) then .error .valueError
  else
    let names := sys.subst
    let paramNames := paramNamesOf cfg sys
    -- pyodesys: "Names of dependent variables cannot be used a parameter names"
    if names.any (fun n => decide (n ∈ paramNames)) then .error .valueError
    -- "Key 'time' is reserved."
    else if decide ("time" ∈ names) || decide ("time" ∈ paramNames) then .error .valueError
    else if decide ("time" ∈ referenced sys.rxns) then .error .unmodelled
    else
      let vars := mkVars names paramNames cfg.subs
      match resolveAll vars sys.rxns with
      | none => .error .keyError
      | some rs =>
        if (cstrNeeded cstr?).all (dmem vars) then
          match readExprs names (sysRates (lookup vars) rs none cstr?) with
          | .error e => .error e
          | .ok exprs =>
            if names.any (pyNumberEntryG cfg.pyNums vars (dkeys cfg.subs) sys.rxns cstr?) then .error .attributeError else
            .ok { names := names, paramNames := paramNames, paramKeys := allPk cfg sys.subst,
                  unique := uniqueDict cfg sys.rxns, exprs := exprs,
                  rateExprs := rs.map (massAction (lookup vars)) }
        else .error .keyError

/-! ## `get_odesys`, general form: Expr-valued (active) substitutions and `constants=` -/

/-- polynomial expressions of `chempy.util._expr`: `Constant([c])`, `Symbol(unique_keys=(k,))`, `_AddExpr([a, b])`,
    `_MulExpr([a, b])` — what an `Expr`-valued entry of `substitutions` is built from (non-polynomial classes: C16) -/
inductive PExpr where
  | const (c : Rat)
  | sym (k : String)
  | add (a b : PExpr)
  | mul (a b : PExpr)

/-- `act(variables, backend=backend)`: `Constant.__call__` → its argument, `Symbol.__call__` → `variables[uk]` (KeyError = `none`),
    `_BinaryExpr.__call__` → `op(arg0, arg1)` -/
def evalPExpr (vars : List (String × Poly String)) : PExpr → Option (Poly String)
  | .const c => some (Poly.const c)
  | .sym k => dget? vars k
  | .add a b =>
    match evalPExpr vars a, evalPExpr vars b with
    | some x, some y => some (x + y)
    | _, _ => none
  | .mul a b =>
    match evalPExpr vars a, evalPExpr vars b with
    | some x, some y => some (x * y)
    | _, _ => none

/-- `_reg_unique(sv)` for an active substitution (ode.py 264-265): a `Symbol` has `args is None`, so the generic branch
    registers its unique key with value `None` unless it is substituted; a `Constant` registers nothing; a binary
    expression recurses into its two arguments, left first -/
def regExpr (subsKeys : List String) (unique : List (String × Option Rat)) : PExpr → List (String × Option Rat)
  | .const _ => unique
  | .sym k => if decide (k ∈ subsKeys) then unique else dset unique k none
  | .add a b => regExpr subsKeys (regExpr subsKeys unique a) b
  | .mul a b => regExpr subsKeys (regExpr subsKeys unique a) b

/-- general configuration of `get_odesys`: the entries of `substitutions` split into the passive (numeric) ones and the
    active (`Expr`-valued) ones, each in dict order, and the attributes of the object passed as `constants=` -/
structure GCfg where
  includeParams : Bool := true
  subs : List (String × Rat) := []
  active : List (String × PExpr) := []
  consts : List (String × Rat) := []
  cstr : Bool := false
  pyNums : Bool := false

/-- the configuration without active substitutions and constants -/
def GCfg.toCfg (g : GCfg) : Cfg := { includeParams := g.includeParams, subs := g.subs, cstr := g.cstr, pyNums := g.pyNums }

/-- all keys of `substitutions` (`k not in substitutions`) -/
def subsKeysG (g : GCfg) : List String := dkeys g.subs ++ dkeys g.active

/-- `substitutions` as far as membership goes (the values of the active entries are irrelevant for `_reg_unique`) -/
def subsForMembership (g : GCfg) : List (String × Rat) := g.subs ++ g.active.map fun kv => (kv.1, 0)

/-- the parameter keys considered in ode.py 272-285: `_ori_pk ∪ _subst_pk` (`_subst_pk` = `sv.parameter_keys` is empty for
    the modelled expression classes) minus the substituted ones and `'time'` -/
def candidatePk (g : GCfg) (subst : List String) : List String :=
  (dedupKeys (cstrKeys (cstrOf g.cstr subst))).filter fun pk => !(dmem (subsForMembership g) pk) && !(decide (pk = "time"))

/-- `hasattr(constants, pk)` → `_passive_subst[pk] = magnitude(getattr(constants, pk))` -/
def usedConsts (g : GCfg) (subst : List String) : List (String × Rat) :=
  (candidatePk g subst).filterMap fun pk => (dget? g.consts pk).map fun c => (pk, c)

/-- `all_pk`: the candidates that `constants` does not provide -/
def allPkG (g : GCfg) (subst : List String) : List String :=
  (candidatePk g subst).filter fun pk => !(dmem g.consts pk)

/-- `unique`: first the keys registered by the active substitutions (in the loop over `substitutions`), then the reactions -/
def uniqueDictG (g : GCfg) (rxns : List Rxn) : List (String × Option Rat) :=
  if g.includeParams then []
  else rxns.foldl (fun u r => regUnique (subsForMembership g) u r.param)
    (g.active.foldl (fun u kv => regExpr (subsKeysG g) u kv.2) [])

def paramNamesG (g : GCfg) (sys : Sys) : List String :=
  let pk := allPkG g sys.subst
  if g.includeParams then pk
  else pk ++ (dkeys (uniqueDictG g sys.rxns)).filter fun k => !(decide (k ∈ pk))

/-- an expression made of Python numbers only (`Constant`s and entries of `variables` that are Python numbers) evaluates to a
    Python number; as soon as a sympy object takes part the result is a sympy object, whatever its value -/
def pyExpr (pyKeys : List String) : PExpr → Bool
  | .const _ => true
  | .sym k => decide (k ∈ pyKeys)
  | .add a b => pyExpr pyKeys a && pyExpr pyKeys b
  | .mul a b => pyExpr pyKeys a && pyExpr pyKeys b

/-- the keys of `variables` holding Python numbers after the active substitutions -/
def pyKeysActive (pyKeys : List String) : List (String × PExpr) → List String
  | [] => pyKeys
  | (k, e) :: t =>
    pyKeysActive (if pyExpr pyKeys e then k :: pyKeys else pyKeys.filter fun x => !(decide (x = k))) t

/-- … and after the passive values (all of them numbers) were written -/
def pyKeysG (g : GCfg) (sys : Sys) : List String :=
  pyKeysActive [] g.active ++ dkeys (g.subs ++ usedConsts g sys.subst)

/-- `for k, act in _active_subst.items(): variables[k] = act(variables, backend=backend)` — sequential, each expression sees
    the entries written before it; `none` = KeyError -/
def applyActive (d : List (String × Poly String)) : List (String × PExpr) → Option (List (String × Poly String))
  | [] => some d
  | (k, e) :: t =>
    match evalPExpr d e with
    | none => none
    | some v => applyActive (dset d k v) t

/-- `variables.update(_passive_subst)` -/
def applyPassive (d : List (String × Poly String)) (passive : List (String × Rat)) : List (String × Poly String) :=
  passive.foldl (fun d kv => dset d kv.1 (Poly.const kv.2)) d

/-- the `variables` dict of `dydt` in the general case: y, p, active substitutions (evaluated in order), then the passive ones
    (numeric substitutions, then the constants taken from `constants=`) -/
def mkVarsG (g : GCfg) (sys : Sys) : Option (List (String × Poly String)) :=
  match applyActive (mkVars sys.subst (paramNamesG g sys) []) g.active with
  | none => none
  | some d => some (applyPassive d (g.subs ++ usedConsts g sys.subst))

/-- `get_odesys(rsys, include_params, substitutions (numbers and Exprs), cstr=True/False, constants=…)` -/
def buildRhsG (g : GCfg) (sys : Sys) : Except BuildErr OdeSys :=
  let cstr? := cstrOf g.cstr sys.subst
  if sys.rxns.isEmpty then .error .typeError
  else if (subsKeysG g).any (fun k => !(decide (k ∈ cstrKeys cstr?) || decide (k ∈ oriUk sys.rxns))) then .error .valueError
  else
    let names := sys.subst
    let paramNames := paramNamesG g sys
    if names.any (fun n => decide (n ∈ paramNames)) then .error .valueError
    else if decide ("time" ∈ names) || decide ("time" ∈ paramNames) then .error .valueError
    else if decide ("time" ∈ referenced sys.rxns) then .error .unmodelled
    else
      match mkVarsG g sys with
      | none => .error .keyError
      | some vars =>
        match resolveAll vars sys.rxns with
        | none => .error .keyError
        | some rs =>
          if (cstrNeeded cstr?).all (dmem vars) then
            match readExprs names (sysRates (lookup vars) rs none cstr?) with
            | .error e => .error e
            | .ok exprs =>
              if names.any (pyNumberEntryG g.pyNums vars (pyKeysG g sys) sys.rxns cstr?) then .error .attributeError else
              .ok { names := names, paramNames := paramNames, paramKeys := allPkG g sys.subst,
                    unique := uniqueDictG g sys.rxns, exprs := exprs,
                    rateExprs := rs.map (massAction (lookup vars)) }
          else .error .keyError

/-! ## `_create_odesys` -/

/-- configuration of `_create_odesys`: `rates_kw={'cstr_fr_fc': …}` (all substances fed, as for `cstr=True`) and
    `parameter_expressions={key: Constant(c)}` -/
structure Cfg' where
  cstr : Bool := false
  paramExprs : List (String × Rat) := []
  pyNums : Bool := false

/-- contribution of one reaction to `keys` (ode.py 614-627) -/
def keysOfParam (pe : List (String × Rat)) : RateParam → Except BuildErr (List String)
  | .raw _ => .error .notImplementedError
  | .ma _ => .ok []
  | .named uk _ => .ok [uk]
  | .key uk => .ok (if dmem pe uk then [] else [uk])
  | .sym uk => .ok [uk]

def collectKeys (pe : List (String × Rat)) : List Rxn → Except BuildErr (List String)
  | [] => .ok []
  | r :: rs =>
    match keysOfParam pe r.param with
    | .error e => .error e
    | .ok ks =>
      match collectKeys pe rs with
      | .error e => .error e
      | .ok out => .ok (ks ++ out)

/-- `varbls` (ode.py 640-645): substance symbols, parameter symbols, then `varbls.update(parameter_expressions)`.
    A `Constant(c)` is evaluated to `c` by `Expr.arg` (the path of `named`/`key` parameters); read any other way
    (a `Symbol` argument, a concentration, a CSTR key) it is an `Expr` object inside arithmetic: `unmodelled`. -/
def mkVars' (names params : List String) (pe : List (String × Rat)) : List (String × Poly String) :=
  mkVars names params pe

/-- keys whose `variables[...]` value is used raw (not through `Expr.arg`) -/
def rawReads (rxns : List Rxn) (cstr? : Option (Cstr String)) : List String :=
  (rxns.map fun r => dkeys r.reac ++ (match r.param with | .sym uk => [uk] | _ => [])).flatten ++ cstrNeeded cstr?

/-- what is observable of `_create_odesys`'s result: `odesys.names`, `odesys.param_names`, `odesys.exprs` -/
structure OdeSys' where
  names : List String
  paramNames : List String
  exprs : List (Poly String)

/-- `_create_odesys(rsys, rates_kw=…, parameter_expressions=…)` with default symbols -/
def buildRhs' (cfg : Cfg') (sys : Sys) : Except BuildErr OdeSys' :=
  let cstr? := cstrOf cfg.cstr sys.subst
  match collectKeys cfg.paramExprs sys.rxns with
  | .error e => .error e
  | .ok ks =>
    let keys := ks ++ cstrKeys cstr?
    -- "Duplicates in keys"
    if (dedupKeys keys).length ≠ keys.length then .error .valueError
    else if decide ("time" ∈ sys.subst) || decide ("time" ∈ keys) || decide ("time" ∈ referenced sys.rxns)
        || decide ("time" ∈ dkeys cfg.paramExprs) then .error .unmodelled
    -- "time_symbol already in use (name clash?)": the time symbol is `Symbol('t')`
    else if decide ("t" ∈ sys.subst) || decide ("t" ∈ keys) then .error .valueError
    else if (rawReads sys.rxns cstr?).any (dmem cfg.paramExprs) then .error .unmodelled
    else
      let vars := mkVars' sys.subst keys cfg.paramExprs
      match resolveAll vars sys.rxns with
      | none => .error .keyError
      | some rs =>
        if (cstrNeeded cstr?).all (dmem vars) then
          -- `[rates[key] for key in rsys.substances]`
          match readAll (sysRates (lookup vars) rs none cstr?) sys.subst with
          | none => .error .keyError
          | some exprs =>
            if sys.subst.any (pyNumberEntry cfg.pyNums rs cstr?) then .error .attributeError
            else .ok { names := sys.subst, paramNames := keys, exprs := exprs }
        else .error .keyError

/-! ## `_create_odesys` with user-supplied symbol dictionaries -/

/-- everything of `_create_odesys` after `parameter_symbols` is known (ode.py 640 ff.), `keys` = its keys -/
def buildTail' (cfg : Cfg') (sys : Sys) (keys : List String) : Except BuildErr OdeSys' :=
  let cstr? := cstrOf cfg.cstr sys.subst
  if decide ("time" ∈ sys.subst) || decide ("time" ∈ keys) || decide ("time" ∈ referenced sys.rxns)
      || decide ("time" ∈ dkeys cfg.paramExprs) then .error .unmodelled
  else if decide ("t" ∈ sys.subst) || decide ("t" ∈ keys) then .error .valueError
  else if (rawReads sys.rxns cstr?).any (dmem cfg.paramExprs) then .error .unmodelled
  else
    let vars := mkVars' sys.subst keys cfg.paramExprs
    match resolveAll vars sys.rxns with
    | none => .error .keyError
    | some rs =>
      if (cstrNeeded cstr?).all (dmem vars) then
        match readAll (sysRates (lookup vars) rs none cstr?) sys.subst with
        | none => .error .keyError
        | some exprs =>
          if sys.subst.any (pyNumberEntry cfg.pyNums rs cstr?) then .error .attributeError
          else .ok { names := sys.subst, paramNames := keys, exprs := exprs }
      else .error .keyError

/-- user-supplied dictionaries: `substance_symbols = OrderedDict((k, Symbol(k)) …)` over `substKeys`, and
    `parameter_symbols` over `paramKeys` as an `OrderedDict` (`ordered = true`) or a plain `dict` -/
structure UCfg' where
  cfg : Cfg' := {}
  substKeys : Option (List String) := none
  paramKeys : Option (Bool × List String) := none

/-- `_create_odesys(rsys, substance_symbols=…, parameter_symbols=…, …)`:
    an `OrderedDict` of substance symbols must have the substances' keys in order (ValueError, ode.py 608-612);
    a given `parameter_symbols` replaces the collection of keys (no NotImplementedError for plain numbers, no duplicate
    check) but must be an `OrderedDict` (ValueError, ode.py 639-640) -/
def buildRhs'U (u : UCfg') (sys : Sys) : Except BuildErr OdeSys' :=
  if (match u.substKeys with | some ks => !(decide (ks = sys.subst)) | none => false) then .error .valueError
  else
    match u.paramKeys with
    | none => buildRhs' u.cfg sys
    | some (ordered, keys) => if ordered then buildTail' u.cfg sys keys else .error .valueError

/-- `substance_symbols` given as a PLAIN `dict` over the keys `plain` (any insertion order): the order check of ode.py 608-612
    applies to `OrderedDict`s only, and the dependent symbols are looked up BY KEY
    (`[substance_symbols[key] for key in rsys.substances]`, evaluated after `rsys.rates(...)` and before `SymbolicSys(...)` runs), so
    the insertion order is irrelevant; a missing substance key is a KeyError unless an earlier refusal wins -/
def buildRhs'P (u : UCfg') (plain : Option (List String)) (sys : Sys) : Except BuildErr OdeSys' :=
  match plain with
  | none => buildRhs'U u sys
  | some ks =>
    if sys.subst.all (fun k => decide (k ∈ ks)) then buildRhs'U u sys
    else
      match buildRhs'U u sys with
      | .ok _ => .error .keyError
      | .error .attributeError => .error .keyError
      | .error e => .error e

end ChemModel.OdeBuild
