/-
Line-protocol driver for the kinetics-units model (C10).  One op per modelled function.

JSON encodings (rationals as `[num, den]` or a bare integer; as in Driver/C09):
  Quantity   {"m": rat, "f": rat, "d": [7 ints]}
  PyVal      {"n": rat} | Quantity              (`null` where an optional unit is absent)
  registry   [7 PyVal]
  Rxn        {"reac": [[substance index, coefficient]…], "prod": [[substance index, coefficient]…]}   (dict order)
  UniqueSpec {"cls": name, "nargs": n, "idx": i, "order": o}
Output: JSON text with rationals as strings "n/d"; a unit-carrying value is printed as {"m","f","d"} / {"n"};
exceptions by class name.
-/
import ChemModel.Basic.Proto
import ChemModel.Model.Units
import ChemModel.Model.KinUnits
open ChemModel.Proto ChemModel.Units ChemModel.KinUnits Lean

abbrev Q := Rat

def sr (q : Rat) : String := "\"" ++ showRat q ++ "\""
def showDims (d : Dims) : String := showIntList d
def showPy : PyVal Q → String
  | .num x => "{\"n\":" ++ sr x ++ "}"
  | .qty q => "{\"m\":" ++ sr q.mag ++ ",\"f\":" ++ sr q.unit.factor ++ ",\"d\":" ++ showDims q.unit.dims ++ "}"
def showPyList (l : List (PyVal Q)) : String := "[" ++ ",".intercalate (l.map showPy) ++ "]"
def showQList (l : List Q) : String := "[" ++ ",".intercalate (l.map sr) ++ "]"

def out {β : Type} (f : β → String) : Except Err β → Except String String
  | .ok x => .ok (f x)
  | .error e => .ok e.name

def asPy (j : Json) : Except String (PyVal Q) :=
  match j.getObjVal? "n" with
  | .ok v => do pure (.num (← asRat v))
  | .error _ => do
    let m ← getRat j "m"
    let f ← getRat j "f"
    let d ← getIntList j "d"
    if d.length ≠ nDims then .error "!bad-arg:dims" else
    pure (.qty ⟨m, ⟨f, d⟩⟩)

def getPy (j : Json) (k : String) : Except String (PyVal Q) :=
  match j.getObjVal? k with
  | .ok v => asPy v
  | .error _ => .error s!"!bad-arg:{k}"

def getPyOpt (j : Json) (k : String) : Except String (Option (PyVal Q)) :=
  match j.getObjVal? k with
  | .ok .null => pure none
  | .ok v => do pure (some (← asPy v))
  | .error _ => .error s!"!bad-arg:{k}"

def getPyList (j : Json) (k : String) : Except String (List (PyVal Q)) := do (← getArr j k).mapM asPy

def getReg (j : Json) : Except String (Registry Q) := do
  let r ← getPyList j "reg"
  if r.length ≠ nDims then .error "!bad-arg:reg" else pure r

def asNatPair (j : Json) : Except String (Nat × Nat) :=
  match j with
  | .arr #[a, b] => do
      let a ← asInt a
      let b ← asInt b
      if a < 0 ∨ b < 0 then .error "!bad-arg:natpair" else pure (a.toNat, b.toNat)
  | _ => .error "!bad-arg:natpair"

def asRxn (j : Json) : Except String Rxn := do
  let reac ← (← getArr j "reac").mapM asNatPair
  let prod ← (← getArr j "prod").mapM asNatPair
  let opt := fun (k : String) => match j.getObjVal? k with
    | .ok (.arr a) => a.toList.mapM asNatPair
    | _ => pure []
  pure ⟨reac, prod, ← opt "inact_reac", ← opt "inact_prod"⟩

def getRxns (j : Json) : Except String (List Rxn) := do (← getArr j "rxns").mapM asRxn

def getTable (j : Json) : Except String (List (List (String × Int × Int))) := do
  let cls ← getStr j "cls"
  let nargs ← getNat j "nargs"
  match classTable cls nargs with
  | some t => pure t
  | none => .error "!bad-arg:cls"

def asUnique (j : Json) : Except String UniqueSpec := do
  pure (← getTable j, ← getNat j "idx", ← getInt j "order")

def getOdeUnits (j : Json) : Except String (Except Err (OdeUnits Q)) := do
  let reg ← getReg j
  let pk ← getStrList j "pk"
  let incl ← getBool j "include"
  let uniq ← (← getArr j "unique").mapM asUnique
  pure (mkOdeUnits reg pk incl uniq)

def showOdeUnits (ou : OdeUnits Q) : String :=
  "{\"p_units\":" ++ showPyList ou.pUnits ++ ",\"time\":" ++ showPy ou.timeUnit ++ ",\"conc\":" ++ showPy ou.concUnit ++ "}"

def asConcItem (j : Json) : Except String (PyVal Q × Nat) :=
  match j with
  | .arr #[c, n] => do
      let n ← asInt n
      if n < 0 then .error "!bad-arg:coeff" else pure (← asPy c, n.toNat)
  | _ => .error "!bad-arg:concitem"

def showOk : Unit → String := fun _ => "ok"

def getNatList (j : Json) (k : String) : Except String (List Nat) := do
  (← getIntList j k).mapM fun i => if i < 0 then .error s!"!bad-arg:{k}" else pure i.toNat

def getStoich (j : Json) : Except String Stoich := do
  pure ⟨← getNatList j "reac", ← getNatList j "prod", ← getNatList j "inact_reac", ← getNatList j "inact_prod"⟩

def showPairs (l : List (PyVal Q × Q)) : String :=
  "[" ++ ",".intercalate (l.map fun p => "[" ++ showPy p.1 ++ "," ++ sr p.2 ++ "]") ++ "]"

def h : Handler := fun op j =>
  match op with
  | "args_dims" => do
      let t ← getTable j
      pure ("[" ++ ",".intercalate ((argsDims t (← getInt j "order")).map showDims) ++ "]")
  | "reaction_check" => do out showOk (reactionCheck (← getPy j "param") (← getInt j "order"))
  | "reaction_check_sized" => do
      out showOk (reactionCheckSized (← getNat j "size") (← getPy j "param") (← getInt j "order"))
  | "reaction_ctor" => do
      out showOk (reactionCtor (← getPy j "param") (← getInt j "order") (← getBool j "checks_given") (← getBool j "dont_check_given")
        (← getBool j "unit_selected"))
  | "plain_rhs" => do
      out showQList (plainRhs (← getRatList j "ks") (← getRxns j) (← getRatList j "y") (← getNat j "ns"))
  | "reaction_check_s" => do out showOk (reactionCheckS (← getPy j "param") (← getStoich j))
  | "equilibrium_check_s" => do out showOk (equilibriumCheckS (← getPy j "param") (← getStoich j))
  | "equilibrium_check" => do
      out showOk (equilibriumCheck (← getPy j "param") (← getInt j "nprod") (← getInt j "nreac"))
  | "dedim_args" => do out showPairs (dedimArgs (← getReg j) (← getPyList j "args"))
  | "derived_fallback" => do out showPy (getDerivedUnitFallback (← getReg j) (← getStr j "key"))
  | "unique_unit" => do
      out showPy (regUniqueUnit (← getReg j) (← getTable j) (← getNat j "idx") (← getInt j "order"))
  | "ode_units" => do out showOdeUnits (← getOdeUnits j)
  | "roundtrip" => do
      -- to_arrays callbacks followed by the post-processor on what they returned
      let ou ← getOdeUnits j
      let x ← getPyList j "x"
      let y ← getPyList j "y"
      let p ← getPyList j "p"
      let outT ← getPyOpt j "out_t"
      let outC ← getPyOpt j "out_c"
      let r : Except Err String := do
        let ou ← ou
        let x' ← toArraysX ou x
        let y' ← toArraysY ou y
        let p' ← toArraysP ou p
        let (t, c, pp) ← postProcessor ou outT outC x' y' p'
        pure ("{\"x\":" ++ showQList x' ++ ",\"y\":" ++ showQList y' ++ ",\"p\":" ++ showQList p' ++
              ",\"time\":" ++ showPyList t ++ ",\"conc\":" ++ showPyList c ++ ",\"params\":" ++ showPyList pp ++ "}")
      out id r
  | "ode_rhs" => do
      out showQList (odeRhs (← getReg j) (← getPyList j "ks") (← getRxns j) (← getPyList j "y") (← getNat j "ns"))
  | "ode_rhs_named" => do
      out showQList (odeRhsNamed (← getReg j) (← getPyList j "p") (← getRxns j) (← getPyList j "y") (← getNat j "ns"))
  | "dedim_tcp" => do
      out (fun (r : Q × List Q × List (PyVal Q × Q)) =>
            "{\"t\":" ++ sr r.1 ++ ",\"c\":" ++ showQList r.2.1 ++ ",\"p\":" ++ showPairs r.2.2 ++ "}")
        (dedimTcp (← getReg j) (← getPy j "t") (← getPyList j "c") (← getPyList j "p"))
  | "as_reactions" => do
      out (fun (p : PyVal Q × PyVal Q) => "[" ++ showPy p.1 ++ "," ++ showPy p.2 ++ "]")
        (asReactions (← getPy j "K") (← getPyOpt j "kf") (← getPyOpt j "kb") (← getInt j "nf") (← getInt j "nb") (← getBool j "units"))
  | "arrhenius_args" => do
      out (fun (r : Q × Q × Q) => showQList [r.1, r.2.1, r.2.2])
        (arrheniusArgs (← getReg j) (← getPy j "A") (← getPy j "EaR") (← getPy j "T"))
  | "validate_term" => do
      let cs ← (← getArr j "cs").mapM asConcItem
      out showOk (validateTerm (← getPy j "k") cs)
  | _ => .error "!bad-op"

def main : IO Unit := run h
