import ChemModel.Basic.Proto
import ChemModel.Model.Expr
import ChemModel.Gen.FnRateConst
/-!
Driver for C16.

`eval`   {"num": "rat" | "float", "prog": P, "vars": [[name, N], …], "rxn": null | "none" | [[substance, int], …]}
         builds the tree described by the build program P with the MODEL's constructors (`mkNode`, `pyAdd`, …: the
         operator short-cuts are part of what is compared), prints its structure and its value:
             <structure> = <value>            value: rational text | bits of the double | `!py:<ExceptionClass>`
         or `!py:<ExceptionClass>` alone when the construction itself raises.
         P ::= {"t":"num","v":N} | {"t":"str","v":S}
             | {"t":"new","k":K,"args": null | {"l":[P…]} | {"s":P},"uk": null | [S…]}
             | {"t":"op","o":"add|sub|mul|div|pow","a":P,"b":P} | {"t":"op","o":"neg","a":P}
             | {"t":"arrp","A":N,"Ea":N,"uk":…}    ArrheniusParam(A, Ea).as_RateExpr(uk)     (float only)
             | {"t":"eyrp","dH":N,"dS":N,"uk":…}   EyringParam(dH, dS).as_RateExpr(uk)       (float only)
         K ::= {"c": <class>, …}  (Poly: param, recip, shift; Piecewise: param; Radiolytic: names)
         N ::= rat mode: an integer or [num, den];  float mode: the integer value of the IEEE-754 bit pattern
`arrhenius`, `eyring`, `from_rateconst`   {"a":[bits…]}   the generated functions of Gen/FnRateConst at Float
-/
open ChemModel.Proto ChemModel.Gen ChemModel ChemModel.PyExpr Lean

def bits (x : Float) : String := toString x.toBits

/-- floats inside `eval` output carry a `#` marker -/
def hbits (x : Float) : String := "#" ++ bits x

def asBits (v : Json) : Except String Float := do
  let i ← asInt v
  if i < 0 || i ≥ 18446744073709551616 then .error "!bad-arg:bits" else
  pure (Float.ofBits (UInt64.ofNat i.toNat))

def field (j : Json) (k : String) : Except String Json :=
  match j.getObjVal? k with
  | .ok v => .ok v
  | _ => .error s!"!bad-arg:{k}"

def py {β : Type} : Except Err β → Except String β
  | .ok v => .ok v
  | .error e => .error ("!py:" ++ e.name)

def asKind (j : Json) : Except String Kind := do
  match ← getStr j "c" with
  | "Mul" => pure .mul      -- a `_MulExpr` constructed directly (its arguments may then be bare numbers)
  | "Constant" => pure .const | "Symbol" => pure .symbol | "Log10" => pure .log10 | "Exp" => pure .exp
  | "Poly" => pure (.poly (← getStr j "param") (← getBool j "recip") (← getBool j "shift"))
  | "Piecewise" => pure (.piecewise (← getStr j "param"))
  | "MassAction" => pure .massAction | "Arrhenius" => pure .arrhenius | "Eyring" => pure .eyring
  | "EyringHS" => pure .eyringHS
  | "Radiolytic" => pure (.radiolytic (← getStrList j "names"))
  | "RampedTemp" => pure .rampedTemp | "SinTemp" => pure .sinTemp | "MassActionEq" => pure .massActionEq
  | "GibbsEqConst" => pure .gibbsEqConst
  | _ => .error "!bad-arg:class"

def asUk (j : Json) : Except String (Option (List String)) :=
  match j.getObjVal? "uk" with
  | .ok .null => pure none
  | .ok (.arr a) => do pure (some (← a.toList.mapM asStr))
  | _ => .error "!bad-arg:uk"

section
variable {α : Type} [Mul α] [NatCast α] [PyNum α]

/-- builds the tree; `special` handles the float-only program nodes -/
partial def build (pn : Json → Except String α) (special : String → Json → Except String (Val α)) (j : Json) :
    Except String (Val α) := do
  match ← getStr j "t" with
  | "num" => pure (.num (← pn (← field j "v")))
  | "str" => pure (.str (← getStr j "v"))
  | "new" =>
      let k ← asKind (← field j "k")
      let uk ← asUk j
      let args : InitArgs α ← match ← field j "args" with
        | .null => pure InitArgs.none
        | a =>
          match a.getObjVal? "l", a.getObjVal? "s" with
          | .ok (.arr l), _ => do pure (InitArgs.list (← l.toList.mapM (build pn special)))
          | _, .ok s => do pure (InitArgs.scalar (← build pn special s))
          | _, _ => .error "!bad-arg:args"
      py (mkNode k args uk)
  | "op" =>
      let a ← build pn special (← field j "a")
      match ← getStr j "o" with
      | "neg" => py (pyNeg a)
      | o =>
        let b ← build pn special (← field j "b")
        match o with
        | "add" => py (pyAdd a b) | "sub" => py (pySub a b) | "mul" => py (pyMul a b)
        | "div" => py (pyDivOp a b) | "pow" => py (pyPow a b)
        | _ => .error "!bad-arg:o"
  | t => special t j
end

def kindName : Kind → String
  | .const => "Constant" | .symbol => "Symbol" | .neg => "Neg" | .add => "Add" | .sub => "Sub" | .mul => "Mul"
  | .div => "Div" | .pow => "Pow" | .log10 => "Log10" | .exp => "Exp"
  | .poly p r s => s!"Poly:{p}:{if r then 1 else 0}:{if s then 1 else 0}"
  | .piecewise p => s!"Piecewise:{p}"
  | .massAction => "MassAction" | .arrhenius => "Arrhenius" | .eyring => "Eyring" | .eyringHS => "EyringHS"
  | .radiolytic names => "Radiolytic:" ++ ",".intercalate names
  | .rampedTemp => "RampedTemp" | .sinTemp => "SinTemp" | .massActionEq => "MassActionEq" | .gibbsEqConst => "GibbsEqConst"

partial def showVal {α : Type} (sn : α → String) : Val α → String
  | .num x => sn x
  | .str s => (Json.str s).compress
  | .node k na args uks =>
      kindName k ++ "[" ++ (if na then "-" else ",".intercalate (args.map (showVal sn))) ++ "]"
        ++ (match uks with | none => "" | some u => "{" ++ ",".intercalate u ++ "}")

def asRxn (j : Json) : Except String RxnArg :=
  match j.getObjVal? "rxn" with
  | .ok .null => pure .absent
  | .ok (.str "none") => pure .none
  | .ok (.arr a) => do
      let l ← a.toList.mapM fun p =>
        match p with
        | .arr #[k, v] => do pure (← asStr k, ← asInt v)
        | _ => .error "!bad-arg:rxn"
      pure (.some l)
  | _ => .error "!bad-arg:rxn"

def asVars {α : Type} (pn : Json → Except String α) (j : Json) : Except String (String → Option α) := do
  let l ← (← getArr j "vars").mapM fun p =>
    match p with
    | .arr #[k, v] => do pure (← asStr k, ← pn v)
    | _ => .error "!bad-arg:vars"
  pure fun k => (l.find? (fun kv => kv.1 == k)).map (·.2)

def noSpecial {α : Type} : String → Json → Except String (Val α) := fun _ _ => .error "!bad-arg:t"

def floatSpecial : String → Json → Except String (Val Float)
  | "arrp", j => do
      let a ← asBits (← field j "A")
      let ea ← asBits (← field j "Ea")
      py (arrheniusRateExpr a (arrheniusEaOverR ea) (← asUk j))
  | "eyrp", j => do
      let dH ← asBits (← field j "dH")
      let dS ← asBits (← field j "dS")
      py (eyringRateExpr (eyringKBhExpDSR dS) (eyringDHOverR dH) (← asUk j))
  | _, _ => .error "!bad-arg:t"

def showRes {α : Type} (sn : α → String) : Except Err α → String
  | .ok v => sn v
  | .error e => "!py:" ++ e.name

def floatArgs (j : Json) (n : Nat) : Except String (Array Float) := do
  let a ← getArr j "a"
  if a.length != n then .error "!bad-arg:arity" else
  pure (← a.mapM asBits).toArray

def h : Handler := fun op j =>
  match op with
  | "eval" => do
      let rxn ← asRxn j
      match ← getStr j "num" with
      | "rat" =>
          let vars ← asVars asRat j
          match build asRat noSpecial (← field j "prog") with
          | .error e => if e.startsWith "!py:" then pure e else .error e
          | .ok v => pure (showVal showRat v ++ " = " ++ showRes showRat (eval { vars := vars, rxn := rxn } v))
      | "float" =>
          let vars ← asVars asBits j
          match build asBits floatSpecial (← field j "prog") with
          | .error e => if e.startsWith "!py:" then pure e else .error e
          | .ok v => pure (showVal hbits v ++ " = " ++ showRes hbits (eval { vars := vars, rxn := rxn } v))
      | _ => .error "!bad-arg:num"
  | "eqeq" => do      -- MassActionEq / GibbsEqConst .equilibrium_equation(variables, equilibrium=Equilibrium(reac, prod))
      let stoich := fun (k : String) => do
        let l ← (← getArr j k).mapM fun p =>
          match p with
          | .arr #[s, n] => do pure (← asStr s, ← asInt n)
          | _ => .error "!bad-arg:stoich"
        pure l
      let reac ← stoich "reac"
      let prod ← stoich "prod"
      match ← getStr j "num" with
      | "rat" =>
          let vars ← asVars asRat j
          match build asRat noSpecial (← field j "prog") with
          | .error e => if e.startsWith "!py:" then pure e else .error e
          | .ok v => pure (showRes showRat (equilibriumEquation { vars := vars, rxn := .absent } v prod reac))
      | "float" =>
          let vars ← asVars asBits j
          match build asBits floatSpecial (← field j "prog") with
          | .error e => if e.startsWith "!py:" then pure e else .error e
          | .ok v => pure (showRes hbits (equilibriumEquation { vars := vars, rxn := .absent } v prod reac))
      | _ => .error "!bad-arg:num"
  | "arrhenius" => do
      let a ← floatArgs j 3
      pure (bits (arrheniusEquation a[0]! a[1]! a[2]!))
  | "eyring" => do
      let a ← floatArgs j 3
      pure (bits (eyringEquation a[0]! a[1]! a[2]!))
  | "from_rateconst" => do
      let a ← floatArgs j 3
      pure (bits (arrheniusFromRateconstA a[0]! a[1]! a[2]!))
  | _ => .error "!bad-op"

def main : IO Unit := run h
