import ChemModel.Basic.Proto
import ChemModel.Gen.FnIntegrated
/-!
Driver for C17: one op per function of `chempy/kinetics/integrated.py` (the generated `Gen/FnIntegrated.lean`),
instantiated with `Float`; `dimerization_irrev` (no transcendental function) additionally with `Rat` (exact).

Arguments are sent in "a": a JSON array.  Float arguments are sent as the integer value of their IEEE-754 bit pattern
(exact in both directions; `Proto.showFloat` would round to 6 decimals), Rat arguments as `[num, den]` or integers.
Float results are printed EXACTLY as the decimal value of their IEEE-754 bit pattern (`Float.toBits`), several results
separated by a blank; the harness decodes them with `struct` and compares with a relative tolerance.
-/
open ChemModel.Proto ChemModel.Gen ChemModel Lean

def bits (x : Float) : String := toString x.toBits

def floatArgs (j : Json) (n : Nat) : Except String (Array Float) := do
  let a ← getArr j "a"
  if a.length != n then .error "!bad-arg:arity" else
  let l ← a.mapM fun v => do
    let i ← asInt v
    if i < 0 || i ≥ 18446744073709551616 then .error "!bad-arg:bits" else
    pure (Float.ofBits (UInt64.ofNat i.toNat))
  pure l.toArray

def h : Handler := fun op j =>
  match op with
  | "dimerization_irrev" => do
      let a ← floatArgs j 4
      pure (bits (dimerizationIrrev a[0]! a[1]! a[2]! a[3]!))
  | "dimerization_irrev_rat" => do
      let a ← getRatList j "a"
      match a with
      | [t, kf, c, t0] =>
          -- the exact model divides like Python's Fraction: a zero denominator is an error there, not 0
          if c == 0 then pure "ZeroDivisionError"
          else if 1 / c + 2 * kf * (t - t0) == 0 then pure "ZeroDivisionError"
          else pure (showRat (dimerizationIrrev t kf c t0))
      | _ => .error "!bad-arg:arity"
  | "pseudo_irrev" => do
      let a ← floatArgs j 5
      pure (bits (pseudoIrrev a[0]! a[1]! a[2]! a[3]! a[4]!))
  | "pseudo_rev" => do
      let a ← floatArgs j 6
      pure (bits (pseudoRev a[0]! a[1]! a[2]! a[3]! a[4]! a[5]!))
  | "binary_irrev" => do
      let a ← floatArgs j 5
      pure (bits (binaryIrrev a[0]! a[1]! a[2]! a[3]! a[4]!))
  | "binary_rev" => do
      let a ← floatArgs j 6
      pure (bits (binaryRev a[0]! a[1]! a[2]! a[3]! a[4]! a[5]!))
  | "unary_irrev_cstr" => do
      let a ← floatArgs j 7
      let r := unaryIrrevCstr a[0]! a[1]! a[2]! a[3]! a[4]! a[5]! a[6]!
      pure (bits r.1 ++ " " ++ bits r.2)
  | "binary_irrev_cstr" => do
      let a ← floatArgs j 8
      let r := binaryIrrevCstr a[0]! a[1]! a[2]! a[3]! a[4]! a[5]! a[6]! a[7]!
      pure (bits r.1 ++ " " ++ bits r.2)
  | _ => .error "!bad-op"

def main : IO Unit := run h
