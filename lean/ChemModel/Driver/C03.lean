/-
Driver for C03: one op per modelled function of the rate computation (dict path and array path).
Numbers are exact rationals, keys are strings.
-/
import ChemModel.Driver.KineticsIO
open ChemModel.Proto ChemModel.Kinetics ChemModel.KineticsIO Lean

def showRates : Option (List (String × Rat)) → String
  | none => "KeyError"
  | some d => showDict d

def showExceptList : Except Err (List Rat) → String
  | .error e => showErr e
  | .ok l => showRatList l

def asIntDict (v : Json) : Except String (List (String × Int)) := asDict "stoich" asInt v

def hStep : Handler := fun op j =>
  match op with
  | "net_stoich" => do
      let r ← asRxn (← field j "rxn")
      pure (showIntList (netStoichTuple r (← getStrList j "keys")))
  | "active_conc_prod" => do
      -- KeyError guard as in `rateDict`
      let r ← asRxn (← field j "rxn")
      let vars ← getVars j "vars"
      match missingVars vars (dkeys r.reac) with
      | some _ => pure "KeyError"
      | none => pure (showRat (activeConcProd (fun k => dgetD vars k 0) r))
  | "rxn_rate" => do
      -- `vars: null` = `variables=None` (an empty dict); `param_key` = string parameter; `ratex_value` = `ratex=<number>`
      let vars ← match j.getObjVal? "vars" with
        | .ok .null => pure []
        | _ => getVars j "vars"
      let keys? ← getOptKeys j "keys"      -- null = default substance_keys = self.keys()
      match j.getObjVal? "ratex_value" with
      | .ok .null | .error _ =>
        -- the modelled entry point for all parameter forms: `rateDictP` (theorem C03.named_parameter_feeds_rate)
        let rj ← field j "rxn"
        let r ← asRxnStoich rj
        pure (showRates (rateDictP vars (← asParam rj) r (keysFor keys? r)))
      | .ok v => do
        let r ← asRxn (← field j "rxn")
        pure (showDict (rxnRateOf (← asRat v) r (keysFor keys? r)))
  | "rxn_keys" => do
      let r ← asRxn (← field j "rxn")
      pure (showStrList (rxnKeys r))
  | "sys_rates" => do
      let vars ← getVars j "vars"
      let rs ← (← getArr j "rxns").mapM (resolveRxn vars)
      -- `ratexs_len`: rates(..., ratexs=[None] * n): zip with the reaction list truncates
      let rsAll := rs
      let rs := match j.getObjVal? "ratexs_len" with
        | .ok v => match v.getNat? with
          | .ok n => rsAll.take n
          | _ => rsAll
        | _ => rsAll
      if rs.any Option.isNone then pure "KeyError" else
      pure (showRates (ratesDict vars (rs.filterMap id) (← getOptKeys j "keys") (← getCstr j "cstr")))
  | "law_rates_k" => do
      -- law_of_mass_action_rates with the kind of each reaction's param: "plain" | "massaction" | "other"
      let rs ← getRxns j "rxns"
      let kinds ← (← getStrList j "kinds").mapM fun k =>
        match k with
        | "plain" => pure ParamKind.plain
        | "massaction" => pure ParamKind.massAction
        | "other" => pure ParamKind.otherRateExpr
        | _ => .error "!bad-arg:kinds"
      if kinds.length ≠ rs.length then .error "!bad-arg:kinds" else
      let defaultVars := match j.getObjVal? "variables_none" with | .ok (.bool true) => true | _ => false
      let conc ← getRatList j "conc"
      let keys ← getStrList j "keys"
      let res := if defaultVars then lawOfMassActionRatesDefaultVars conc keys (rs.zip kinds)
                 else lawOfMassActionRatesK conc keys (rs.zip kinds)
      match j.getObjVal? "as_generator" with
      | .ok (.bool true) =>
        -- dCdt_list(rsys, <generator>): rates = list(rates), then the ordinary loop
        pure (showExceptList (dCdtListOfGenerator keys rs res))
      | _ => pure (showExceptList res)
  | "parse_refusal" => do
      pure (parseRefusal (← getStrList j "keys") (← getStr j "line"))
  | "sys_rates_default_cstr" => do
      -- get_odesys(rsys, cstr=True): default feed map over ALL substances, then rates on the substance order
      let rs ← getRxns j "rxns"
      let subst ← getStrList j "subst"
      let cs := defaultCstr "feedratio" (fun sk => "fc_" ++ sk) subst
      let fcj := (Json.arr (cs.fc.map fun kv => Json.arr #[Json.str kv.1, Json.str kv.2]).toArray).compress
      pure (cs.frKey ++ ";" ++ fcj ++ ";" ++ showRates (ratesDict (← getVars j "vars") rs (some subst) (some cs)))
  | "terms_rate" => do
      -- a reaction written as a string with (possibly repeated) terms: merged dictionaries, net stoichiometry, rate dict
      let r0 ← asRxnTerms (← field j "terms")
      let vars0 ← getVars j "vars"
      -- quoted parameter in the line ('name'): a named rate constant
      let ro : Option (Reaction String Rat) := match j.getObjVal? "param_key" with
        | .ok (.str name) => (resolveParam vars0 (Param.key name)).map fun k => { r0 with param := k }
        | _ => some r0
      let keys ← getStrList j "keys"
      match ro with
      | none => pure "KeyError"
      | some r =>
      pure (";".intercalate [showNatDict r.reac, showNatDict r.prod, showNatDict r.inactReac, showNatDict r.inactProd,
        showIntList (netStoichTuple r keys), showRates (rateDict (← getVars j "vars") r keys)])
  | "law_rates" => do
      let rs ← getRxns j "rxns"
      pure (showExceptList (lawOfMassActionRates (← getRatList j "conc") (← getStrList j "keys") rs))
  | "dcdt" => do
      let rs ← getRxns j "rxns"
      pure (showExceptList (dCdtList (← getStrList j "keys") rs (← getRatList j "rates")))
  | "array_path" => do
      let rs ← getRxns j "rxns"
      let keys ← getStrList j "keys"
      match lawOfMassActionRates (← getRatList j "conc") keys rs with
      | .error e => pure (showErr e)
      | .ok rates => pure (showRatList rates ++ ";" ++ showExceptList (dCdtList keys rs rates))
  | "stoichs" => do
      let rs ← getRxns j "rxns"
      let keys ← getStrList j "keys"
      pure (";".intercalate ([netStoichs rs keys, allReacStoichs rs keys, activeReacStoichs rs keys,
        allProdStoichs rs keys, activeProdStoichs rs keys].map showIntMtx))
  | "coeff_mtx" => do
      let st ← (← getArr j "stoichs").mapM fun p =>
        match p with
        | .arr #[a, b] => do pure (← asIntDict a, ← asIntDict b)
        | _ => .error "!bad-arg:stoichs"
      pure (showIntMtx (getCoeffMtx (← getStrList j "substances") st))
  | _ => .error "!bad-op"

/-- `history`: a list of steps, each a complete op on the state current at that step.  The model has no hidden state: a
    history is replayed by evaluating the pure function of every step; the outputs are joined with " | ". -/
def h : Handler := fun op j =>
  match op with
  | "history" => do
      let outs ← (← getArr j "steps").mapM fun s => do
        let sop ← getStr s "op"
        if sop == "history" then .error "!bad-arg:nested-history" else
        match hStep sop s with
        | .ok o => pure o
        | .error e => pure e
      pure (" | ".intercalate outs)
  | _ => hStep op j

def main : IO Unit := run h
