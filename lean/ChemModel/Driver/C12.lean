import ChemModel.Basic.Proto
import ChemModel.Model.ReactionText
open ChemModel.Proto ChemModel.ReactionText Lean

/-- canonical text of a Python string: printable ASCII except `\ " , [ ] : |` literally, the rest as `\{hex}` -/
def escStr (s : Str) : String :=
  String.join (s.map fun c =>
    let o := c.toNat
    if 32 ≤ o && o ≤ 126 && !("\\\",[]:|".toList.contains c) then c.toString
    else "\\{" ++ String.ofList (Nat.toDigits 16 o) ++ "}")

def showCoef (c : Coef) : String := (if c.isFloat then "f" else "i") ++ showRat c.val
def showDict (d : Dict) : String := "[" ++ ",".intercalate (d.map fun kv => escStr kv.1 ++ ":" ++ showCoef kv.2) ++ "]"
def showOptStr : Option Str → String
  | none => "-"
  | some s => "\"" ++ escStr s ++ "\""

def showErr : Err → String
  | .unmodelled => "Unmodelled"
  | .missingToken => "ValueError:missingToken"
  | .tooManyParts => "ValueError:tooManyParts"
  | .badNumber => "ValueError:badNumber"
  | .unknownKey => "ValueError:unknownKey"
  | .noEffect => "ValueError:check"
  | .negative => "ValueError:check"
  | .nonIntegral => "ValueError:check"
  | .emptySeparator => "ValueError:emptySeparator"

/-- the parameter as `to_reaction` treats its text: `sym"k"` for the quoted form, `"text"` for an expression -/
def showParam : Option Str → String
  | none => "-"
  | some p =>
    match classifyParam p with
    | .symbol k => "sym\"" ++ escStr k ++ "\""
    | .expr t => "\"" ++ escStr t ++ "\""

def showReaction (r : Reaction) : String :=
  s!"{showDict r.reac} {showDict r.prod} {showDict r.inactReac} {showDict r.inactProd} {showParam r.param}"

def getOptStrList (j : Json) (k : String) : Except String (Option (List String)) :=
  match j.getObjVal? k with
  | .ok .null => .ok none
  | .ok (.arr a) => do pure (some (← a.toList.mapM asStr))
  | .error _ => .ok none          -- absent: the argument is not given
  | _ => .error s!"!bad-arg:{k}"

/-- `eval`: false = `globals_=False`, true / "default" = an evaluating context -/
def getEv (j : Json) : Bool :=
  match j.getObjVal? "eval" with
  | .ok (.bool b) => b
  | .ok (.str _) => true
  | _ => false

def showName : Option Str → String
  | none => "n-"
  | some s => "n\"" ++ escStr s ++ "\""

def getKinds (j : Json) : Except String (ContainerKind × ContainerKind × ContainerKind × ContainerKind) := do
  let kinds ← (← getStrList j "kinds").mapM fun k =>
    match k with
    | "dict" => pure ContainerKind.dict
    | "ordered" => pure ContainerKind.ordered
    | "set" => pure ContainerKind.set
    | _ => throw "!bad-arg:kinds"
  match kinds with
  | [a, b, c, d] => pure (a, b, c, d)
  | _ => throw "!bad-arg:kinds"

def showB (b : Bool) : String := if b then "True" else "False"

def showStrs (l : List Str) : String := "[" ++ ",".intercalate (l.map escStr) ++ "]"

def getS (j : Json) (k : String) : Except String Str := do pure (← getStr j k).toList

def getOptS (j : Json) (k : String) : Except String (Option Str) :=
  match j.getObjVal? k with
  | .ok .null => .ok none
  | .ok (.str s) => .ok (some s.toList)
  | _ => .error s!"!bad-arg:{k}"

def getAllowed (j : Json) : Except String Allowed :=
  match j.getObjVal? "allowed" with
  | .ok .null => .ok .none
  | .ok (.str s) => .ok (Allowed.ofStr s.toList)          -- a Python str argument
  | .ok (.arr a) => do
      let ks ← a.toList.mapM asStr
      .ok (.list (ks.map String.toList))
  | _ => .error "!bad-arg:allowed"

def getDict (j : Json) (k : String) : Except String Dict := do
  (← getArr j k).mapM fun e =>
    match e with
    | .arr #[.str key, v, .bool fl] => do pure (key.toList, ⟨← asRat v, fl⟩)
    | _ => .error s!"!bad-arg:{k}"

/-- `comment_tokens`: a list of strings, or null for the default of the source (`Gen.Printing.commentTokens`) -/
def getCommentTokens (j : Json) : Except String (List Str) :=
  match j.getObjVal? "comment_tokens" with
  | .ok .null => .ok ChemModel.Gen.Printing.commentTokens
  | .ok (.arr a) => do pure ((← a.toList.mapM asStr).map String.toList)
  | _ => .error "!bad-arg:comment_tokens"

def getReaction (j : Json) : Except String Reaction := do
  pure ⟨← getDict j "reac", ← getDict j "prod", ← getDict j "inact_reac", ← getDict j "inact_prod",
        ← getOptS j "param", ← getOptS j "name"⟩

def showOptOut : Option Str → String
  | none => "Unmodelled"
  | some s => "\"" ++ escStr s ++ "\""

def h : Handler := fun op j =>
  match op with
  | "parse" => do
      match toReaction (getEv j) (← getAllowed j) (← getS j "token") (← getS j "line") with
      | .ok r => pure ("ok " ++ showReaction r ++ " " ++ showName r.name)
      | .error e => pure (showErr e)
  | "multiplicity" => do
      let ss ← getStrList j "strings"
      match parseMultiplicity (ss.map String.toList) (← getAllowed j) with
      | .ok d => pure ("ok " ++ showDict d)
      | .error e => pure (showErr e)
  | "inactive" => do pure (if isInactiveTerm (← getS j "term") then "True" else "False")
  | "split" => do pure (showStrs (pySplit (← getS j "sep") (← getS j "s")))
  | "resplit" => do pure (showStrs (reSplit (← getS j "s")))
  | "strip" => do pure ("\"" ++ escStr (strip (← getS j "s")) ++ "\"")
  | "words" => do pure (showStrs (pyWords (← getS j "s")))
  | "sorted" => do
      let ss ← getStrList j "keys"
      pure (showStrs ((sortDict (ss.map fun s => (s.toList, Coef.ofNat 1))).map (·.1)))
  | "print" => do
      let r ← getReaction j
      let extra := (← getOptStrList j "settings").getD []
      let nofb ← match j.getObjVal? "no_fallback" with
        | .ok (.bool b) => pure b
        | .ok .null => pure false
        | .error _ => pure false
        | _ => throw "!bad-arg:no_fallback"
      match printReactionWith extra nofb (← getS j "arrow") (← getBool j "with_param") (← getBool j "with_name") r with
      | .ok o => pure (showOptOut o)
      | .error .unknownSetting => pure "ValueError:unknownSetting"
      | .error .cannotPrint => pure "ValueError:cannotPrint"
  | "construct" => do
      -- the constructor with containers of the given kinds and the checks / dont_check arguments;
      -- answer: the object (or the refusal) and the three check predicates evaluated with throw=False
      let (kr, kp, kir, kip) ← getKinds j
      let r := Reaction.construct kr kp kir kip (← getDict j "reac") (← getDict j "prod") (← getDict j "inact_reac")
        (← getDict j "inact_prod") (← getOptS j "param") (← getOptS j "name")
      let preds := s!"{showB r.anyEffect} {showB r.allPositive} {showB r.allIntegral}"
      match r.initChecks (← getOptStrList j "checks") (← getOptStrList j "dont_check") with
      | .ok r => pure (s!"ok {showDict r.reac} {showDict r.prod} {showDict r.inactReac} {showDict r.inactProd} | {preds}")
      | .error .both => pure s!"ValueError:both | {preds}"
      | .error .unknownCheck => pure s!"AttributeError | {preds}"
      | .error .failed => pure s!"ValueError:check | {preds}"
  | "eq" => do
      let a ← getReaction (← j.getObjVal? "a" |>.mapError fun _ => "!bad-arg:a")
      let b ← getReaction (← j.getObjVal? "b" |>.mapError fun _ => "!bad-arg:b")
      pure (if Reaction.eq a b then "True" else "False")
  | "copy" => do
      -- construct from containers of the given kinds, apply in-place renames, copy; answer: copy == original, printed copy
      let kinds ← (← getStrList j "kinds").mapM fun k =>
        match k with
        | "dict" => pure ContainerKind.dict
        | "ordered" => pure ContainerKind.ordered
        | "set" => pure ContainerKind.set
        | _ => throw "!bad-arg:kinds"
      match kinds with
      | [kr, kp, kir, kip] =>
        let r0 := Reaction.construct kr kp kir kip (← getDict j "reac") (← getDict j "prod") (← getDict j "inact_reac")
          (← getDict j "inact_prod") (← getOptS j "param") (← getOptS j "name")
        let edits ← (← getArr j "edits").mapM fun e =>
          match e with
          | .arr #[.str side, .str old, .str new] => pure (side, old.toList, new.toList)
          | _ => throw "!bad-arg:edits"
        let r := edits.foldl (fun (r : Reaction) e =>
          match e.1 with
          | "reac" => { r with reac := dictRename r.reac e.2.1 e.2.2 }
          | "prod" => { r with prod := dictRename r.prod e.2.1 e.2.2 }
          | _ => r) r0
        let c := r.copy
        pure ((if Reaction.eq c r then "True" else "False") ++ " " ++ showDict c.reac ++ " " ++ showDict c.prod ++ " "
          ++ showDict c.inactReac ++ " " ++ showDict c.inactProd ++ " "
          ++ showOptOut (printReaction (← getS j "arrow") true true c))
      | _ => throw "!bad-arg:kinds"
  | "copy_eq" => do
      let a ← getReaction j
      pure (if Reaction.eq a.copy a then "True" else "False")
  | "system_lines" => do
      pure (showStrs (systemLines (← getCommentTokens j) (← getS j "text")))
  | "system_parse" => do
      match systemFromString (getEv j) (← getCommentTokens j) (← getAllowed j) (← getS j "token") (← getS j "text") with
      | .ok rs => pure ("ok " ++ " ; ".intercalate (rs.map showReaction))
      | .error e => pure (showErr e)
  | "system_print" => do
      let rs ← (← getArr j "rxns").mapM getReaction
      pure (showOptOut (printSystem (← getS j "arrow") (← getBool j "with_param") (← getBool j "with_name") (← getOptS j "name") rs))
  | "roundtrip" => do
      -- parse (print r) == r, as the model computes it
      let r ← getReaction j
      let arrow ← getS j "arrow"
      match printReaction arrow false false r with
      | none => pure "Unmodelled"
      | some s =>
        match toReaction false .none arrow s with
        | .ok r' => pure (if Reaction.eq r' r then "True" else "False")
        | .error e => pure (showErr e)
  | _ => .error "!bad-op"

def main : IO Unit := run h
