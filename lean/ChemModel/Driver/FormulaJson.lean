/-
JSON -> formula AST decoder shared by the drivers of C01 / C13 / C14.
The JSON shape is the one documented at the top of `tools/harness/formula_gen.py`:

formula := {"prefixes": [str...], "sep": ".." | "·", "parts": [part...],
            "charge": null | [sign(+1|-1), null | int], "suffix": "" | "(s)" ...}
part    := {"n": null | int, "terms": [term...]}
term    := {"t": "el", "z": Z, "cnt": cnt, "state": str, "marks": str}
         | {"t": "grp", "br": "(" | "[" | "{", "body": [term...], "cnt": cnt, "state": str, "marks": str}
         | {"t": "cage", "body": [term...]}
cnt     := null | ["int", n] | ["dec", "2.35"]

Integers may also be sent as digit strings (to write leading zeros). Anything else is `!bad-arg:…`.
-/
import ChemModel.Basic.Proto
import ChemModel.Model.FormulaSpec

namespace ChemModel.FormulaJson
open Lean (Json)
open ChemModel.Proto ChemModel.Formula

/-- a non-negative integer (written as `str(n)`) or a digit string taken literally -/
def asDigits (v : Json) : Except String (List Char) :=
  match v with
  | .str s => .ok s.toList
  | _ => match v.getInt? with
    | .ok i => if i < 0 then .error "!bad-arg:digits" else .ok (toString i.toNat).toList
    | _ => .error "!bad-arg:digits"

def splitDot : List Char → List Char × Option (List Char)
  | [] => ([], none)
  | '.' :: r => ([], some r)
  | c :: r => let (a, b) := splitDot r; (c :: a, b)

def decodeCnt (v : Json) : Except String Cnt :=
  match v with
  | .null => .ok .omitted
  | .arr #[.str "int", n] => do pure (.int (← asDigits n))
  | .arr #[.str "dec", .str s] =>
    match splitDot s.toList with
    | (ip, some fp) => .ok (.dec ip fp)
    | _ => .error "!bad-arg:cnt"
  | _ => .error "!bad-arg:cnt"

def decodeState (s : String) : Except String (Option St) :=
  match s with
  | "" => .ok none
  | "(s)" => .ok (some .s)
  | "(l)" => .ok (some .l)
  | "(g)" => .ok (some .g)
  | "(aq)" => .ok (some .aq)
  | "(cr)" => .ok (some .cr)
  | _ => .error "!bad-arg:state"

def decodeBr (s : String) : Except String Br :=
  match s with
  | "(" => .ok .paren
  | "[" => .ok .square
  | "{" => .ok .curly
  | _ => .error "!bad-arg:br"

mutual
partial def decodeTerm (j : Json) : Except String Term := do
  match ← getStr j "t" with
  | "el" =>
    let z ← getNat j "z"
    let n ← decodeCnt (j.getObjValD "cnt")
    let st ← decodeState (← getStr j "state")
    let marks ← getStr j "marks"
    pure (.elem z n st marks.toList)
  | "grp" =>
    let b ← decodeBr (← getStr j "br")
    let body ← decodeTerms (← getArr j "body")
    let n ← decodeCnt (j.getObjValD "cnt")
    let st ← decodeState (← getStr j "state")
    let marks ← getStr j "marks"
    pure (.group b body n st marks.toList)
  | "cage" =>
    let body ← decodeTerms (← getArr j "body")
    pure (.cage body)
  | _ => .error "!bad-arg:t"
partial def decodeTerms (l : List Json) : Except String Terms :=
  match l with
  | [] => .ok .nil
  | t :: ts => do
    let t' ← decodeTerm t
    let ts' ← decodeTerms ts
    pure (.cons t' ts')
end

def decodePart (j : Json) : Except String Part := do
  let n ← match j.getObjValD "n" with
    | .null => pure none
    | v => do pure (some (← asDigits v))
  let ts ← decodeTerms (← getArr j "terms")
  pure { n := n, terms := ts }

def decodeCharge (v : Json) : Except String (Option Charge) :=
  match v with
  | .null => .ok none
  | .arr #[s, m] => do
    let s ← asInt s
    if s ≠ 1 ∧ s ≠ -1 then .error "!bad-arg:charge" else
    let mag ← match m with
      | .null => pure none
      | v => do pure (some (← asDigits v))
    pure (some { neg := s == -1, mag := mag })
  | _ => .error "!bad-arg:charge"

def decodeFormula (j : Json) : Except String Formula := do
  let prefixes ← getStrList j "prefixes"
  let sep ← match ← getStr j "sep" with
    | ".." => pure Sep.dots
    | "·" => pure Sep.cdot
    | _ => .error "!bad-arg:sep"
  let parts ← (← getArr j "parts").mapM decodePart
  let charge ← decodeCharge (j.getObjValD "charge")
  let suffix ← getStr j "suffix"
  pure { prefixes := prefixes.map String.toList, sep := sep, parts := parts, charge := charge,
         suffix := if suffix = "" then none else some suffix.toList }

/-- `getFormula j "ast"` -/
def getFormula (j : Json) (k : String) : Except String Formula :=
  match j.getObjVal? k with
  | .ok v => decodeFormula v
  | _ => .error s!"!bad-arg:{k}"

/-- canonical text of a composition: `k:n/d k:n/d ...` in list (= dict insertion) order -/
def showComp (c : Comp) : String :=
  " ".intercalate (c.map fun p => s!"{p.1}:{showRat p.2}")

end ChemModel.FormulaJson
