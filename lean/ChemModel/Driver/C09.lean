/-
Line-protocol driver for the units model (C09).  One op per modelled function.

JSON encodings (rationals as `[num, den]` or a bare integer):
  Quantity   {"m": rat, "f": rat, "d": [7 ints]}
  PyVal      {"n": rat} | Quantity             ("u": null stands for new_unit=None)
  Val        PyVal | {"s": 1} (a str) | {"l": [Val…]} | {"k": [[key, Val]…]} | {"nd": [rat…]} (plain ndarray) | {"oa": [Val…]} (object-dtype ndarray) | {"z": {"obj": bool, "v": PyVal}} (0-d ndarray)
  Flat       PyVal | {"l": [PyVal…]} | {"k": [[key, PyVal]…]}
  RegEntry   {"n": rat} | {"m": rat, "dimy": [[symbol, rat, [7 ints], exponent]…]}
Output: JSON text with rationals as strings "n/d"; exceptions by class name.
-/
import ChemModel.Basic.Proto
import ChemModel.Model.Units
open ChemModel.Proto ChemModel.Units Lean

abbrev Q := Rat

def sr (q : Rat) : String := "\"" ++ showRat q ++ "\""
def showDims (d : Dims) : String := showIntList d
def showQty (q : Quantity Q) : String := "{\"m\":" ++ sr q.mag ++ ",\"f\":" ++ sr q.unit.factor ++ ",\"d\":" ++ showDims q.unit.dims ++ "}"
def showPy : PyVal Q → String
  | .num x => "{\"n\":" ++ sr x ++ "}"
  | .qty q => showQty q
def showPyList (l : List (PyVal Q)) : String := "[" ++ ",".intercalate (l.map showPy) ++ "]"
def jstr (s : String) : String := (Json.str s).compress

partial def showRes : Res Q → String
  | .num x => sr x
  | .list l => "[" ++ ",".intercalate (l.map showRes) ++ "]"
  | .dict d => "{\"k\":[" ++ ",".intercalate (d.map fun p => "[" ++ jstr p.1 ++ "," ++ showRes p.2 ++ "]") ++ "]}"

def showFlat : Flat Q → String
  | .scalar a => showPy a
  | .list l => "{\"l\":" ++ showPyList l ++ "}"
  | .dict d => "{\"k\":[" ++ ",".intercalate (d.map fun p => "[" ++ jstr p.1 ++ "," ++ showPy p.2 ++ "]") ++ "]}"

def out {β : Type} (f : β → String) : Except Err β → Except String String
  | .ok x => .ok (f x)
  | .error e => .ok e.name

def showBool (b : Bool) : String := if b then "True" else "False"

def getDims (j : Json) (k : String) : Except String Dims := do
  let d ← getIntList j k
  if d.length ≠ nDims then .error "!bad-arg:dims" else pure d

def asPy (j : Json) : Except String (PyVal Q) :=
  match j.getObjVal? "n" with
  | .ok v => do pure (.num (← asRat v))
  | .error _ => do
    let m ← getRat j "m"
    let f ← getRat j "f"
    let d ← getDims j "d"
    pure (.qty ⟨m, ⟨f, d⟩⟩)

def getPy (j : Json) (k : String) : Except String (PyVal Q) :=
  match j.getObjVal? k with
  | .ok v => asPy v
  | .error _ => .error s!"!bad-arg:{k}"

def getPyOpt (j : Json) (k : String) : Except String (Option (PyVal Q)) :=
  match j.getObjVal? k with
  | .ok .null => pure none
  | .ok v => do pure (some (← asPy v))
  | .error _ => .error s!"!bad-arg:{k}"

def asPyList (j : Json) : Except String (List (PyVal Q)) := do (← asArr j).mapM asPy
def getPyList (j : Json) (k : String) : Except String (List (PyVal Q)) := do (← getArr j k).mapM asPy

def asPair (j : Json) : Except String (String × Json) :=
  match j with
  | .arr #[.str k, v] => pure (k, v)
  | _ => .error "!bad-arg:pair"

partial def asVal (j : Json) : Except String (Val Q) :=
  match j.getObjVal? "nd" with
  | .ok a => do pure (.ndarray (← (← asArr a).mapM asRat))
  | .error _ =>
  match j.getObjVal? "it" with
  | .ok l => do pure (.iterable (← (← asArr l).mapM asVal))
  | .error _ =>
  match j.getObjVal? "oa", j.getObjVal? "z" with
  | .ok l, _ => do pure (.objarray (← (← asArr l).mapM asVal))
  | _, .ok z => do pure (.zerod (← getBool z "obj") (← getPy z "v"))
  | _, _ =>
  match j.getObjVal? "s", j.getObjVal? "l", j.getObjVal? "k" with
  | .ok _, _, _ => pure .str
  | _, .ok l, _ => do pure (.list (← (← asArr l).mapM asVal))
  | _, _, .ok d => do
      let ps ← (← asArr d).mapM asPair
      pure (.dict (← ps.mapM fun p => do pure (p.1, ← asVal p.2)))
  | _, _, _ => do pure (.atom (← asPy j))

def asFlat (j : Json) : Except String (Flat Q) :=
  match j.getObjVal? "l", j.getObjVal? "k" with
  | .ok l, _ => do pure (.list (← asPyList l))
  | _, .ok d => do
      let ps ← (← asArr d).mapM asPair
      pure (.dict (← ps.mapM fun p => do pure (p.1, ← asPy p.2)))
  | _, _ => do pure (.scalar (← asPy j))

partial def asCVal (j : Json) : Except String (CVal Q) :=
  match j with
  | .null => pure .none
  | _ =>
  match j.getObjVal? "s", j.getObjVal? "l", j.getObjVal? "t", j.getObjVal? "k" with
  | .ok (.str s), _, _, _ => pure (.str s)
  | _, .ok l, _, _ => do pure (.seq false (← (← asArr l).mapM asCVal))
  | _, _, .ok l, _ => do pure (.seq true (← (← asArr l).mapM asCVal))
  | _, _, _, .ok d => do
      let ps ← (← asArr d).mapM asPair
      pure (.dict (← ps.mapM fun p => do pure (p.1, ← asCVal p.2)))
  | _, _, _, _ => do pure (.atom (← asPy j))

def getVal (j : Json) (k : String) : Except String (Val Q) :=
  match j.getObjVal? k with | .ok v => asVal v | .error _ => .error s!"!bad-arg:{k}"
def getFlat (j : Json) (k : String) : Except String (Flat Q) :=
  match j.getObjVal? k with | .ok v => asFlat v | .error _ => .error s!"!bad-arg:{k}"

def asSymExp (j : Json) : Except String (SymUnit Q × Int) :=
  match j with
  | .arr #[.str s, f, d, e] => do
      let dd ← (← asArr d).mapM asInt
      if dd.length ≠ nDims then .error "!bad-arg:dims" else
      pure (⟨s, ⟨← asRat f, dd⟩⟩, ← asInt e)
  | _ => .error "!bad-arg:symunit"

def asRegEntry (j : Json) : Except String (RegEntry Q) :=
  match j.getObjVal? "nf" with
  | .ok v => do pure (.floatNum (← asRat v))
  | .error _ =>
  match j.getObjVal? "n" with
  | .ok v => do pure (.num (← asRat v))
  | .error _ => do
      let m ← getRat j "m"
      let dy ← (← getArr j "dimy").mapM asSymExp
      pure (.q m dy)

def showHuman : HumanEntry Q → String
  | .one f => "[" ++ sr f ++ ",1]"
  | .fs f s => "[" ++ sr f ++ "," ++ jstr s ++ "]"

def showRegEntry : RegEntry Q → String
  | .num x => "{\"n\":" ++ sr x ++ "}"
  | .floatNum x => "{\"n\":" ++ sr x ++ "}"
  | .q m dy => "{\"m\":" ++ sr m ++ ",\"dimy\":[" ++ ",".intercalate (dy.map fun p =>
      "[" ++ jstr p.1.symbol ++ "," ++ sr p.1.unit.factor ++ "," ++ showDims p.1.unit.dims ++ "," ++ toString p.2 ++ "]") ++ "]}"

def keyName (i : Nat) : String := (ChemModel.Gen.Units.registryKeys[i]?).getD "?"

def ratToFloat (q : Rat) : Float := Float.ofInt q.num / Float.ofNat q.den

/-- a float as its IEEE-754 bit pattern (decimal integer); `toString` keeps only 6 decimals -/
def showFloatExact (x : Float) : String := toString x.toBits.toNat
def showFloatList (l : List Float) : String := "[" ++ ",".intercalate (l.map showFloatExact) ++ "]"

def showUnit (u : ChemModel.Units.Unit Q) : String := "{\"f\":" ++ sr u.factor ++ ",\"d\":" ++ showDims u.dims ++ "}"

def h : Handler := fun op j =>
  match op with
  | "to_unitless" => do
      out showRes (toUnitlessOpt (← getVal j "v") (← getPyOpt j "u"))
  | "unit_of" => do
      match j.getObjVal? "simplified" with
      | .ok (.bool b) => out showPy (unitOfS b (← getFlat j "v"))
      | _ => out showPy (unitOf (← getFlat j "v"))
  | "rescale" => do out showPy (rescale (← getPy j "v") (← getPy j "u"))
  | "is_unitless" => do pure (showBool (isUnitless (← getVal j "v")))
  | "uniform" => do out showFlat (uniform (← getFlat j "v"))
  | "get_physical_dimensionality" => do
      out (fun l => "[" ++ ",".intercalate (l.map fun p => "[" ++ jstr (keyName p.1) ++ "," ++ toString p.2 ++ "]") ++ "]")
        (getPhysicalDimensionality (← getFlat j "v"))
  | "default_unit_in_registry" => do
      out showPy (defaultUnitInRegistry (← getFlat j "v") (← getPyList j "reg"))
  | "unitless_in_registry" => do
      out showRes (unitlessInRegistry (← getFlat j "v") (← getPyList j "reg"))
  | "get_derived_unit" => do
      let key ← getStr j "key"
      match j.getObjVal? "reg" with
      | .ok .null => out showPy (getDerivedUnit (none : Option (Registry Q)) key)
      | .ok r => do out showPy (getDerivedUnit (some (← asPyList r)) key)
      | .error _ => .error "!bad-arg:reg"
  | "to_human" => do
      let reg : Option (List (RegEntry Q)) ← match j.getObjVal? "entries" with
        | .ok .null => pure none
        | _ => do pure (some (← (← getArr j "entries").mapM asRegEntry))
      out (fun o => match o with
        | none => "None"
        | some l => "[" ++ ",".intercalate (l.map showHuman) ++ "]") (toHumanOpt reg)
  | "from_human" => do
      let tab ← (← getArr j "table").mapM fun t => do
        let p ← asPair t
        pure (p.1, ← (← asArr p.2).mapM asSymExp)
      let lookup : String → Option (List (SymUnit Q × Int)) := fun s => tab.lookup s
      let hs : Option (List (HumanEntry Q)) ← match j.getObjVal? "entries" with
        | .ok .null => pure none
        | _ => do
          let es ← (← getArr j "entries").mapM fun e => match e with
            | .arr #[f, .str sym] => do pure (HumanEntry.fs (← asRat f) sym)
            | .arr #[f, _] => do pure (HumanEntry.one (← asRat f))          -- (factor, 1)
            | _ => .error "!bad-arg:human-entry"
          pure (some es)
      out (fun o => match o with
        | none => "None"
        | some l => "[" ++ ",".intercalate (l.map showRegEntry) ++ "]") (fromHumanOpt lookup hs)
  | "human_roundtrip" => do
      let es ← (← getArr j "entries").mapM asRegEntry
      let tab ← (← getArr j "table").mapM fun t => do
        let p ← asPair t
        pure (p.1, ← (← asArr p.2).mapM asSymExp)
      let lookup : String → Option (List (SymUnit Q × Int)) := fun s => tab.lookup s
      let r : Except Err (List (RegEntry Q)) := match toHuman es with
        | .error e => .error e
        | .ok hs => fromHuman lookup hs
      out (fun l => "[" ++ ",".intercalate (l.map showRegEntry) ++ "]") r
  | "compare_equality" => do pure (showBool (compareEquality (← getPy j "a") (← getPy j "b")))
  | "allclose" => do
      out showBool (allcloseScalar (← getPy j "a") (← getPy j "b") (← getRat j "rtol") (← getPyOpt j "atol"))
  | "allclose_arrays" => do
      -- operands: {"scalar": PyVal} | {"arr": [PyVal…]}; atol the same or null
      let arg (k : String) : Except String (Option (ArrArg Q)) :=
        match j.getObjVal? k with
        | .ok .null => pure none
        | .ok v => match v.getObjVal? "scalar", v.getObjVal? "arr" with
          | .ok x, _ => do pure (some (.scalar (← asPy x)))
          | _, .ok l => do pure (some (.arr (← asPyList l)))
          | _, _ => .error s!"!bad-arg:{k}"
        | .error _ => .error s!"!bad-arg:{k}"
      match (← arg "a"), (← arg "b") with
      | some a, some b => out showBool (allcloseArrays a b (← getRat j "rtol") (← arg "atol"))
      | _, _ => .error "!bad-arg:a/b"
  | "allclose_u" => do
      let mu (k : String) : Except String (MaybeUncertain Q) := do
        let v ← getPy j k
        match j.getObjVal? (k ++ "_unc"), v with
        | .ok u, .qty q => do pure (.uncertain q (← asRat u))
        | _, _ => pure (.plain v)
      let atol : Option (MaybeUncertain Q) ← match j.getObjVal? "atol" with
        | .ok .null => pure none
        | .ok _ => do pure (some (← mu "atol"))
        | .error _ => .error "!bad-arg:atol"
      out showBool (allcloseU (← mu "a") (← mu "b") (← getRat j "rtol") atol)
  | "compare_equality_c" => do
      let a ← match j.getObjVal? "a" with | .ok v => asCVal v | .error _ => .error "!bad-arg:a"
      let b ← match j.getObjVal? "b" with | .ok v => asCVal v | .error _ => .error "!bad-arg:b"
      out showBool (compareEqualityC 8 a b)
  | "allclose_list" => do
      pure (showBool (allcloseList (← getPyList j "a") (← getPyList j "b") (← getRat j "rtol") (← getPyOpt j "atol")))
  | "linspace" => do out showPyList (linspace (← getPy j "start") (← getPy j "stop") (← getNat j "num"))
  | "logspace_from_lin" => do
      -- the unit conversion runs exactly (Rat); the log2/linspace/exp2 core runs in Float
      let start ← getPy j "start"; let stop ← getPy j "stop"; let num ← getNat j "num"
      let unit := unitOfScalar start
      match toUnitlessScalar start unit, toUnitlessScalar stop unit with
      | .ok s, .ok e => pure ("{\"mags\":" ++ showFloatList (logspaceCore (ratToFloat s) (ratToFloat e) num) ++ ",\"unit\":" ++ showPy unit ++ "}")
      | .error e, _ => pure e.name
      | _, .error e => pure e.name
  | "concatenate" => do
      let arrs ← (← getArr j "arrays").mapM asPyList
      out showPyList (concatenate arrs)
  | "tile" => do out showPyList (tile (← getPyList j "array") (← getNat j "reps"))
  | "polyval" => do out showPyList (polyval (← getPyList j "p") (← getFlat j "x"))
  | "polyfit" => do
      let p ← getRatList j "p"
      out showPyList (polyfit (fun _ _ _ => p) (← getPyList j "x") (← getPyList j "y") (← getNat j "deg"))
  | "backend" => do
      out (fun (l : List Q) => "[" ++ ",".intercalate (l.map sr) ++ "]") (backendCall id (← getPyList j "args"))
  | "backend_v" => do
      let args ← (← getArr j "args").mapM asVal
      out (fun (l : List (Res Q)) => "[" ++ ",".intercalate (l.map showRes) ++ "]") (backendCallV id args)
  | "named_unit" => do
      match (namedUnit? (← getStr j "name") : Option (ChemModel.Units.Unit Q)) with
      | some u => pure (showUnit u)
      | none => pure "AttributeError"
  | "own_unit" => do
      match (ownUnit? (← getStr j "name") : Option (ChemModel.Units.Unit Q)) with
      | some u => pure (showUnit u)
      | none => pure "AttributeError"
  | "si_registry" => pure (showPyList (siRegistry : Registry Q))
  | "dim_constant" => do
      match ChemModel.Gen.Units.dimConstants.lookup (← getStr j "name") with
      | some d => pure (showDims d)
      | none => pure "AttributeError"
  | _ => .error "!bad-op"

def main : IO Unit := run h
