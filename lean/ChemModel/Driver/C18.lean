import ChemModel.Basic.Proto
import ChemModel.Gen.FnElectrolytes
import ChemModel.Model.Electrolytes
/-!
Driver for C18.  Float arguments travel as the integer value of their IEEE-754 bit pattern, Float results are printed as
`Float.toBits` (exact both ways); Rat arguments as `[num, den]` / integers, Rat results as `n/d`.

  fn        {"f": name, "a": [bits...]}                     a generated function of Gen/FnElectrolytes at Float -> bits
  is_list   {"b": [...], "z": [...], "warn": bool, "num": "rat" | "float"}   -> "<value> W|-"  | exception class name
  is_dict   {"keys": [str...], "b": [...], "warn": bool, "num": ..., optional "subs", "factory" (see getSubs/getFactory)} -> the same
  ap_lim    {"IS", "stoich": [...], "z": [...], "T", "eps", "rho"}           (Float) -> bits | IndexError
  ap_ext    {... "a": [...], "C"}     ap_dav {... "C"}
  cls_lim   {"stoich","z","T","eps","rho","c"}  -> "<bits> W|-" | exception ;  cls_ext {... "a", "C"}
  constants {}   -> the generated data constants as exact rationals, blank separated
-/
open ChemModel.Proto ChemModel.Gen.Electrolytes ChemModel.Electrolytes ChemModel Lean

def bits (x : Float) : String := toString x.toBits

def asBits (v : Json) : Except String Float := do
  let i ← asInt v
  if i < 0 || i ≥ 18446744073709551616 then .error "!bad-arg:bits" else
  pure (Float.ofBits (UInt64.ofNat i.toNat))

def getF (j : Json) (k : String) : Except String Float :=
  match j.getObjVal? k with
  | .ok v => asBits v
  | _ => .error s!"!bad-arg:{k}"

def getFList (j : Json) (k : String) : Except String (List Float) := do
  (← getArr j k).mapM asBits

def flag (w : Bool) : String := if w then "W" else "-"

def showIS {α : Type} (sh : α → String) : Except Err (α × Bool) → String
  | .ok (v, w) => sh v ++ " " ++ flag w
  | .error e => e.pyName

def showAP : Except Err Float → String
  | .ok v => bits v
  | .error e => e.pyName

def callFn (f : String) (a : Array Float) : Except String Float :=
  let need (n : Nat) (v : Float) : Except String Float := if a.size == n then pure v else .error "!bad-arg:arity"
  match f with
  | "aNum" => need 4 (aNum a[0]! a[1]! a[2]! a[3]!)
  | "aNumUnits" => need 7 (aNumUnits a[0]! a[1]! a[2]! a[3]! a[4]! a[5]! a[6]!)
  | "aNumUnitsB0" => need 7 (aNumUnitsB0 a[0]! a[1]! a[2]! a[3]! a[4]! a[5]! a[6]!)
  | "aConst" => need 9 (aConst a[0]! a[1]! a[2]! a[3]! a[4]! a[5]! a[6]! a[7]! a[8]!)
  | "aConstUnitsB0" => need 9 (aConstUnitsB0 a[0]! a[1]! a[2]! a[3]! a[4]! a[5]! a[6]! a[7]! a[8]!)
  | "bNum" => need 4 (bNum a[0]! a[1]! a[2]! a[3]!)
  | "bNumUnits" => need 7 (bNumUnits a[0]! a[1]! a[2]! a[3]! a[4]! a[5]! a[6]!)
  | "bNumUnitsB0" => need 7 (bNumUnitsB0 a[0]! a[1]! a[2]! a[3]! a[4]! a[5]! a[6]!)
  | "bConst" => need 7 (bConst a[0]! a[1]! a[2]! a[3]! a[4]! a[5]! a[6]!)
  | "bConstUnitsB0" => need 7 (bConstUnitsB0 a[0]! a[1]! a[2]! a[3]! a[4]! a[5]! a[6]!)
  | "limitingLogGamma" => need 4 (limitingLogGamma a[0]! a[1]! a[2]! a[3]!)
  | "limitingLogGammaD" => need 3 (limitingLogGammaD a[0]! a[1]! a[2]!)
  | "extendedLogGamma" => need 7 (extendedLogGamma a[0]! a[1]! a[2]! a[3]! a[4]! a[5]! a[6]!)
  | "extendedLogGammaD" => need 5 (extendedLogGammaD a[0]! a[1]! a[2]! a[3]! a[4]!)
  | "extendedLogGammaDC" => need 6 (extendedLogGammaDC a[0]! a[1]! a[2]! a[3]! a[4]! a[5]!)
  | "daviesLogGamma" => need 5 (daviesLogGamma a[0]! a[1]! a[2]! a[3]! a[4]!)
  | "daviesLogGammaD" => need 3 (daviesLogGammaD a[0]! a[1]! a[2]!)
  | "daviesLogGammaDC" => need 4 (daviesLogGammaDC a[0]! a[1]! a[2]! a[3]!)
  | _ => .error "!bad-arg:f"

def getTable (v : Json) : Except String (List (List Char × Int)) := do
  (← asArr v).mapM fun e => do
    match (← asArr e) with
    | [k, z] => pure ((← asStr k).toList, ← asInt z)
    | _ => .error "!bad-arg:table"

/-- "subs": absent | {"kind": "default"} | {"kind": "names", "s": str} | {"kind": "mapping", "t": [[key, charge], ...]} -/
def getSubs (j : Json) : Except String Substances :=
  match j.getObjVal? "subs" with
  | .error _ => pure .default
  | .ok v => do
    match (← getStr v "kind") with
    | "default" => pure .default
    | "names" => pure (.names (← getStr v "s").toList)
    | "mapping" => match v.getObjVal? "t" with
      | .ok t => do pure (.mapping (← getTable t))
      | _ => .error "!bad-arg:t"
    | _ => .error "!bad-arg:subs"

/-- "factory": absent (Substance.from_formula) | [[name, charge], ...] (a callback that looks the name up, KeyError otherwise) -/
def getFactory (j : Json) : Except String (List Char → Except Err Int) :=
  match j.getObjVal? "factory" with
  | .error _ => pure formulaCharge
  | .ok v => do
    let t ← getTable v
    pure (lookupCharge t)

def h : Handler := fun op j =>
  match op with
  | "fn" => do
      let f ← getStr j "f"
      let a ← getFList j "a"
      pure (bits (← callFn f a.toArray))
  | "is_list" => do
      let warn ← getBool j "warn"
      match (← getStr j "num") with
      | "rat" => pure (showIS showRat (ionicStrength (← getRatList j "b") (← getRatList j "z") warn))
      | "float" => pure (showIS bits (ionicStrength (← getFList j "b") (← getFList j "z") warn))
      | _ => .error "!bad-arg:num"
  | "is_dict" => do
      let warn ← getBool j "warn"
      let keys := (← getStrList j "keys").map String.toList
      match (← getStr j "num") with
      | "rat" =>
          let b ← getRatList j "b"
          if b.length != keys.length then .error "!bad-arg:b" else
          pure (showIS showRat (ionicStrengthDictG (← getFactory j) (← getSubs j) (keys.zip b) warn))
      | "float" =>
          let b ← getFList j "b"
          if b.length != keys.length then .error "!bad-arg:b" else
          pure (showIS bits (ionicStrengthDictG (← getFactory j) (← getSubs j) (keys.zip b) warn))
      | _ => .error "!bad-arg:num"
  | "ap_lim" => do
      pure (showAP (limitingActivityProduct (← getF j "IS") (← getFList j "stoich") (← getFList j "z")
        (← getF j "T") (← getF j "eps") (← getF j "rho")))
  | "ap_ext" => do
      pure (showAP (extendedActivityProduct (← getF j "IS") (← getFList j "stoich") (← getFList j "z") (← getFList j "a")
        (← getF j "T") (← getF j "eps") (← getF j "rho") (← getF j "C")))
  | "ap_dav" => do
      pure (showAP (daviesActivityProduct (← getF j "IS") (← getFList j "stoich") (← getFList j "z")
        (← getF j "T") (← getF j "eps") (← getF j "rho") (← getF j "C")))
  | "cls_lim" => do
      pure (showIS bits (limitingClassCall (← getFList j "stoich") (← getFList j "z")
        (← getF j "T") (← getF j "eps") (← getF j "rho") (← getFList j "c")))
  | "cls_ext" => do
      pure (showIS bits (extendedClassCall (← getFList j "stoich") (← getFList j "z") (← getFList j "a")
        (← getF j "T") (← getF j "eps") (← getF j "rho")
        (← match j.getObjVal? "C" with | .ok v => (do pure (some (← asBits v)) : Except String (Option Float)) | .error _ => pure none)
        (← getFList j "c")))
  | "is_vec" => do
      -- "rows": one list of bit patterns per ion (all of one length), "z": charges
      let rows ← (← getArr j "rows").mapM fun r => do (← asArr r).mapM asBits
      match rows with
      | [] => pure ()
      | r :: rs => if rs.any (fun x => x.length != r.length) then throw "!bad-arg:rows" else pure ()
      match ionicStrengthVec rows (← getFList j "z") (← getBool j "warn") with
      | .ok (v, w) => pure (" ".intercalate (v.map bits) ++ " " ++ flag w)
      | .error e => pure e.pyName
  | "allclose" => do
      -- "shape": "arr" (a, b, atol arrays) | "scalar_arr" (a scalar, b array) | "list" (a, b lists) | "list_scalar" | "scalar"
      let rtol ← getF j "rtol"
      match (← getStr j "shape") with
      | "arr" => pure (toString (allcloseArr (← getFList j "a") (← getFList j "b") rtol (← getFList j "atol")))
      | "scalar_arr" => pure (toString (allcloseScalarArr (← getF j "a") (← getFList j "b") rtol (← getF j "atol")))
      | "list" => pure (toString (allcloseList (← getFList j "a") (← getFList j "b") rtol (← getF j "atol")))
      | "list_scalar" => pure (toString (allcloseListScalar))
      | "bc" => do
          let arg (k : String) : Except String (Arg Float) := match j.getObjVal? k with
            | .ok (.arr xs) => do pure (.arr (← xs.toList.mapM asBits))
            | .ok v => do pure (.scalar (← asBits v))
            | _ => .error s!"!bad-arg:{k}"
          match allcloseB (← arg "a") (← arg "b") rtol (← arg "atol") with
          | .ok r => pure (toString r)
          | .error e => pure e.pyName
      | "scalar" => pure (toString (allclose (← getF j "a") (← getF j "b") rtol (← getF j "atol")))
      | _ => .error "!bad-arg:shape"
  | "cls_base" => do
      match baseClassCall (← getFList j "stoich") (← getFList j "c") with
      | none => pure "None"
      | some v => pure (bits v)
  | "constants" =>
      pure (" ".intercalate ([combinedA, combinedB, neutralityAtol, allcloseRtol, constFaraday, constAvogadro,
        constVacuumPermittivity, constBoltzmann, constPi, constMolarGas].map (showRat (q := ·))))
  | _ => .error "!bad-op"

def main : IO Unit := run h
