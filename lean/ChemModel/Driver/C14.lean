import ChemModel.Basic.Proto
import ChemModel.Model.Periodic
open ChemModel.Proto ChemModel.Periodic Lean

def showOptRat : Option Rat → String
  | none => "IndexError"
  | some q => showRat q

def getComp (j : Json) (k : String) : Except String Comp := do
  (← getArr j k).mapM fun p => do
    match p with
    | .arr #[a, b] => do
        let a ← asInt a
        if a < 0 then .error "!bad-arg:key" else
        pure (a.toNat, ← asRat b)
    | _ => .error "!bad-arg:comp"

def h : Handler := fun op j =>
  match op with
  | "mass" => do pure (showOptRat (massFromComposition (← getComp j "comp")))
  | "atomic_number" => do
      match atomicNumber (← getStr j "name") with
      | some z => pure (toString z)
      | none => pure "ValueError"
  | "mass_fractions" => do
      let ms ← getRatList j "masses"; let vs ← getRatList j "coeffs"
      match massFractions (ms.zip vs) with
      | some l => pure (showRatList l)
      | none => pure "ZeroDivisionError"
  | "group" => do pure (showNatList (groupMembers (← getNat j "g")))
  | _ => .error "!bad-op"

def main : IO Unit := run h
