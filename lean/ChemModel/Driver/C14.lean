/-
Driver for C14: one op per modelled function.
  mass           {"comp": [[k, v]...]}        -> rational | IndexError                 (mass_from_composition)
  formula_mass   {"s": str}                   -> rational | exception class name       (Substance.from_formula(s).mass:
                                                                                         C01 parser model, then the mass loop)
  species_mass   {"s": str, "phases": [str]}  -> rational | exception class name       (Species.from_formula(s, phases).mass)
  ast_mass       {"ast": formula AST}         -> render TAB occurrenceMass TAB formula_mass(render) TAB wf
                                                 (specification value of Props/C14 `formula_mass_spec` next to the model's answer)
  atomic_number  {"name": str}                -> Z | ValueError
  mass_fractions {"masses": [...], "coeffs": [...]} -> [rationals] | ZeroDivisionError
  group          {"g": n}                     -> [Z...]
-/
import ChemModel.Basic.Proto
import ChemModel.Driver.FormulaJson
import ChemModel.Model.Periodic
open ChemModel.Proto ChemModel.Periodic ChemModel.FormulaJson Lean

def showOptRat : Option Rat → String
  | none => "IndexError"
  | some q => showRat q

def showMass : Except MassErr Rat → String
  | .ok q => showRat q
  | .error e => e.pyName

def getComp (j : Json) (k : String) : Except String Comp := do
  (← getArr j k).mapM fun p => do
    match p with
    | .arr #[a, b] => do
        let a ← asInt a
        if a < 0 then .error "!bad-arg:key" else
        pure (a.toNat, ← asRat b)
    | _ => .error "!bad-arg:comp"

def h : Handler := fun op j =>
  match op with
  | "mass" => do pure (showOptRat (massFromComposition (← getComp j "comp")))
  | "formula_mass" => do pure (showMass (formulaMass (← getStr j "s")))
  | "species_mass" => do
      let phases ← getStrList j "phases"
      pure (showMass (speciesMass (phases.map String.toList) (← getStr j "s")))
  | "ast_mass" => do
      let f ← getFormula j "ast"
      pure (f.renderStr ++ "\t" ++ showRat (occurrenceMass f) ++ "\t" ++ showMass (formulaMass f.renderStr)
        ++ "\t" ++ toString f.wf)
  | "atomic_number" => do
      match atomicNumber (← getStr j "name") with
      | some z => pure (toString z)
      | none => pure "ValueError"
  | "mass_fractions" => do
      let ms ← getRatList j "masses"; let vs ← getRatList j "coeffs"
      if ms.length ≠ vs.length then .error "!bad-arg:lengths" else
      match massFractions (ms.zip vs) with
      | some l => pure (showRatList l)
      | none => pure "ZeroDivisionError"
  | "group" => do pure (showNatList (groupMembers (← getNat j "g")))
  | _ => .error "!bad-op"

def main : IO Unit := run h
