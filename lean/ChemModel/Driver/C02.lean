import ChemModel.Basic.Proto
import ChemModel.Model.Balance
open ChemModel.Proto ChemModel.Balance Lean

def showErr : Err → String
  | .valueError t => s!"ValueError:{t}"
  | .notImplemented => "NotImplementedError"
  | .keyError => "KeyError"
  | .typeError => "TypeError"
  | .shapeError => "ShapeError"
  | .indexError => "IndexError"
  | .fuel => "!fuel"
  | .untried => "!untried"

def showEntry : Entry → String
  | .num q => showRat q
  | .sym => "sym"
  | .nan => "nan"

def showEntries (l : List Entry) : String := "[" ++ ",".intercalate (l.map showEntry) ++ "]"

def showDict (d : List (String × Entry)) : String :=
  (Json.arr (d.map fun p => Json.arr #[Json.str p.1, Json.str (showEntry p.2)]).toArray).compress

def showMat (A : Mat) : String := "[" ++ ",".intercalate (A.map showRatList) ++ "]"

def getMode (j : Json) : Except String Mode := do
  match (← getStr j "mode") with
  | "True" => pure .symbolic
  | "False" => pure .strict
  | "None" => pure .smallest
  | "1" => pure .smallest      -- `underdetermined is 1`: deprecated spelling, replaced by None before the ILP
  | _ => .error "!bad-arg:mode"

def asEntry (v : Json) : Except String Entry :=
  match v with
  | .str "sym" => pure .sym
  | .str "nan" => pure .nan
  | .str _ => .error "!bad-arg:entry"
  | _ => do pure (.num (← asRat v))

def getCand (j : Json) : Except String Candidate := do
  match j.getObjVal? "cand" with
  | .ok c =>
    match c.getObjVal? "numeric", c.getObjVal? "symbolic" with
    | .ok (.arr a), .error _ => pure (.numeric (← a.toList.mapM asRat))
    | .error _, .ok (.arr a) => pure (.symbolic (← a.toList.mapM asEntry))
    | _, _ => .error "!bad-arg:cand"
  | _ => .error "!bad-arg:cand"

def getMat (j : Json) (k : String) : Except String Mat := do
  (← getArr j k).mapM fun r => do (← asArr r).mapM asRat

def asComp (v : Json) : Except String Comp := do
  (← asArr v).mapM fun p =>
    match p with
    | .arr #[a, b] => do pure (← asInt a, ← asRat b)
    | _ => .error "!bad-arg:comp"

def getProblem (j : Json) : Except String Problem := do
  let r ← getStrList j "reactants"
  let p ← getStrList j "products"
  let s ← (← getArr j "substances").mapM fun e =>
    match e with
    | .arr #[n, c] => do pure (← asStr n, ← asComp c)
    | _ => .error "!bad-arg:substance"
  pure { reactants := r, products := p, substances := s }

/-- the call as made: `via` = "dict" | "factory" | "string" (+ `string_keys`), `reactants_set` / `products_set`;
    returns the resolved problem (sides sorted when passed as sets, substances resolved) -/
def getArg (j : Json) : Except String SubstArg := do
  match (← getStr j "via") with
  | "dict" => pure SubstArg.mapping
  | "factory" => pure SubstArg.factory
  | "string" => do pure (SubstArg.keys (← getStrList j "string_keys"))
  | _ => .error "!bad-arg:via"

def getCall (j : Json) : Except String (Except Err Problem) := do
  let p ← getProblem j
  let arg ← getArg j
  match setupVia p.substances arg (← getBool j "reactants_set") (← getBool j "products_set") p.reactants p.products with
  | .ok (q, _) => pure (.ok q)
  | .error e => pure (.error e)

def showRes : Except Err (List Entry) → String
  | .ok l => "ok " ++ showEntries l
  | .error e => showErr e

def getTable (j : Json) : Except String (List ((List String × List String) × String)) := do
  (← getArr j "table").mapM fun e =>
    match e with
    | .arr #[r, p, o] => do
        let r ← (← asArr r).mapM asStr
        let p ← (← asArr p).mapM asStr
        pure ((r, p), ← asStr o)
    | _ => .error "!bad-arg:table"

def outcomeErr : String → Err
  | "NotImplementedError" => .notImplemented
  | "KeyError" => .keyError
  | "TypeError" => .typeError
  | "ShapeError" => .shapeError
  | "IndexError" => .indexError
  | s => if s.startsWith "ValueError:" then .valueError (String.ofList (s.toList.drop 11)) else .valueError s

def h : Handler := fun op j =>
  match op with
  | "gate" => do pure (showRes (gate (← getMode j) (← getMat j "A") (← getCand j)))
  | "setup" => do
      match (← getCall j) with
      | .error e => pure (showErr e)
      | .ok q =>
        match setup q with
        | .ok A => pure ("ok " ++ showMat A)
        | .error e => pure (showErr e)
  | "balance" => do
      let c ← getCand j
      let p ← getProblem j
      let arg ← getArg j
      match balanceVia (← getMode j) (fun _ => c) p.substances arg (← getBool j "reactants_set") (← getBool j "products_set")
          p.reactants p.products with
      | .ok (r, pr) => pure s!"ok {showDict r} {showDict pr}"
      | .error e => pure (showErr e)
  | "dup" => do
      let tab ← getTable j
      let isNone := (← getStr j "mode") == "None"      -- the RAW argument: "1" is not None
      let reac ← getStrList j "reactants"
      let prod ← getStrList j "products"
      let core : List String → List String → Except Err (List String × List String) := fun r p =>
        match tab.lookup (r, p) with
        | some "ok" => .ok (r, p)
        | some o => .error (outcomeErr o)
        | none => .error .untried
      match dupSearch isNone core (reac.length + 1) (← getBool j "allow") reac prod with
      | .ok (r, p) => pure s!"ok {showStrList r} {showStrList p}"
      | .error e => pure (showErr e)
  | "cks" => do
      let subs ← (← getArr j "substances").mapM fun e =>
        match e with
        | .arr #[n, c] => do pure (← asStr n, ← asComp c)
        | _ => .error "!bad-arg:substance"
      pure (showIntList (compositionKeys subs))
  | "minimal" => do
      let x ← getIntList j "x"
      if x.any (· < 0) then .error "!bad-arg:x" else
      pure (toString (minimalBySearch (← getMat j "A") (x.map Int.toNat)))
  | "balanced" => do pure (toString (isBalanced (← getMat j "A") (← getRatList j "x")))
  | "balanced_inst" => do
      match (← getCall j) with
      | .error e => pure (showErr e)
      | .ok q =>
      match setup q with
      | .ok A =>
        let x ← getRatList j "x"
        if cols A != x.length then pure "ShapeError" else pure (toString (isBalanced A x))
      | .error e => pure (showErr e)
  | _ => .error "!bad-op"

def main : IO Unit := run h
