/-
JSON argument parsing and canonical printing shared by the drivers of the kinetics model (C03, C05; reusable by C04, C06).
Malformed arguments (wrong shape, a repeated dictionary key, a negative stoichiometric coefficient) are errors, never defaults.
-/
import ChemModel.Basic.Proto
import ChemModel.Model.Kinetics
import ChemModel.Model.ReactionText

namespace ChemModel.KineticsIO
open Lean ChemModel.Proto ChemModel.Kinetics

def nodupKeys {β : Type} (d : List (String × β)) : Bool :=
  let ks := d.map Prod.fst
  (dedupKeys ks).length == ks.length

/-- a dict sent as an array of `[key, value]` pairs in insertion order -/
def asDict {β : Type} (what : String) (val : Json → Except String β) (v : Json) : Except String (List (String × β)) := do
  let items ← asArr v
  let d ← items.mapM fun p =>
    match p with
    | .arr #[k, x] => do pure (← asStr k, ← val x)
    | _ => .error s!"!bad-arg:{what}"
  if nodupKeys d then pure d else .error s!"!bad-arg:{what}:duplicate-key"

def asNat (v : Json) : Except String Nat := do
  let i ← asInt v
  if i < 0 then .error "!bad-arg:nat" else pure i.toNat

def field (j : Json) (k : String) : Except String Json :=
  match j.getObjVal? k with
  | .ok v => .ok v
  | _ => .error s!"!bad-arg:{k}"

def optField (j : Json) (k : String) : Option Json :=
  match j.getObjVal? k with
  | .ok .null => none
  | .ok v => some v
  | _ => none

def asRxn (v : Json) : Except String (Reaction String Rat) := do
  let reac ← asDict "reac" asNat (← field v "reac")
  let prod ← asDict "prod" asNat (← field v "prod")
  let ir ← asDict "inact_reac" asNat (← field v "inact_reac")
  let ip ← asDict "inact_prod" asNat (← field v "inact_prod")
  let k ← asRat (← field v "param")
  pure { reac := reac, prod := prod, inactReac := ir, inactProd := ip, param := k }

/-- written terms of one side: array of `[coefficient, key]` (repetitions allowed) -/
def asTerms (v : Json) : Except String (List (Nat × String)) := do
  (← asArr v).mapM fun p =>
    match p with
    | .arr #[n, k] => do pure (← asNat n, ← asStr k)
    | _ => .error "!bad-arg:terms"

/-- a reaction given by its written terms (`reac`, `prod`, `inact_reac`, `inact_prod` as term lists) -/
def asRxnTerms (v : Json) : Except String (Reaction String Rat) := do
  pure (reactionOfTerms (← asTerms (← field v "reac")) (← asTerms (← field v "prod")) (← asTerms (← field v "inact_reac"))
    (← asTerms (← field v "inact_prod")) (← asRat (← field v "param")))

def showNatDict (d : List (String × Nat)) : String :=
  (Json.arr (d.map fun kv => Json.arr #[Json.str kv.1, Json.num (kv.2 : Int)]).toArray).compress

def getRxns (j : Json) (k : String) : Except String (List (Reaction String Rat)) := do
  (← getArr j k).mapM asRxn

def getVars (j : Json) (k : String) : Except String (List (String × Rat)) := do
  asDict k asRat (← field j k)

/-- `null` ↦ `none` (Python `None`), array of strings ↦ `some` -/
def getOptKeys (j : Json) (k : String) : Except String (Option (List String)) :=
  match j.getObjVal? k with
  | .ok .null => pure none
  | .ok (.arr a) => do pure (some (← a.toList.mapM asStr))
  | _ => .error s!"!bad-arg:{k}"

def getCstr (j : Json) (k : String) : Except String (Option (Cstr String)) :=
  match j.getObjVal? k with
  | .ok .null => pure none
  | .ok v => do
      let fr ← asStr (← field v "fr")
      let fc ← asDict "fc" asStr (← field v "fc")
      pure (some { frKey := fr, fc := fc })
  | _ => .error s!"!bad-arg:{k}"

def asComp (v : Json) : Except String (Option (Comp Rat)) :=
  match v with
  | .null => pure none
  | _ => do
      let items ← asArr v
      let c ← items.mapM fun p =>
        match p with
        | .arr #[k, x] => do pure (← asInt k, ← asRat x)
        | _ => .error "!bad-arg:comp"
      let ks := c.map Prod.fst
      if (dedupKeys ks).length == ks.length then pure (some c) else .error "!bad-arg:comp:duplicate-key"

def getSubs (j : Json) (k : String) : Except String (Substances String Rat) := do
  asDict k asComp (← field j k)

/-- canonical text of a rate dictionary: JSON array of `[key, "n/d"]` pairs in insertion order -/
def showDict (d : List (String × Rat)) : String :=
  (Json.arr (d.map fun kv => Json.arr #[Json.str kv.1, Json.str (showRat kv.2)]).toArray).compress

def showIntMtx (m : List (List Int)) : String := "[" ++ ",".intercalate (m.map showIntList) ++ "]"
def showRatMtx (m : List (List Rat)) : String := "[" ++ ",".intercalate (m.map showRatList) ++ "]"

def showErr : Err → String
  | .valueError => "ValueError"
  | .indexError => "IndexError"
  | .attributeError => "AttributeError"
  | .keyError => "KeyError"
  | .typeError => "TypeError"

/-- refusal of a reaction LINE by the text reader (C12's model `ReactionText.toRaw`, i.e. `to_reaction` up to the constructor):
    `ok`, `ValueError` (missing arrow, too many parts in a term, unknown substance key, bad number) or `!unmodelled` -/
def parseRefusal (keys : List String) (line : String) : String :=
  match ChemModel.ReactionText.toRaw (.list (keys.map String.toList)) "->".toList line.toList with
  | .ok _ => "ok"
  | .error .unmodelled => "!unmodelled"
  | .error _ => "ValueError"

/-- the parameter of a reaction given as JSON: `param_key` (a named constant) or `param` (a number) -/
def asParam (v : Json) : Except String (Param String Rat) := do
  match v.getObjVal? "param_key" with
  | .ok (.str name) => pure (Param.key name)
  | _ => pure (Param.const (← asRat (← field v "param")))

/-- the stoichiometric part of a reaction (its `param` field is ignored by `rateDictP`) -/
def asRxnStoich (v : Json) : Except String (Reaction String Rat) := do
  let reac ← asDict "reac" asNat (← field v "reac")
  let prod ← asDict "prod" asNat (← field v "prod")
  let ir ← asDict "inact_reac" asNat (← field v "inact_reac")
  let ip ← asDict "inact_prod" asNat (← field v "inact_prod")
  pure { reac := reac, prod := prod, inactReac := ir, inactProd := ip, param := 0 }

/-- a reaction whose `param` is either a number (`param`) or the name of a variable (`param_key`); `none` = `KeyError` -/
def resolveRxn (vars : List (String × Rat)) (v : Json) : Except String (Option (Reaction String Rat)) := do
  match v.getObjVal? "param_key" with
  | .ok (.str name) =>
      let reac ← asDict "reac" asNat (← field v "reac")
      let prod ← asDict "prod" asNat (← field v "prod")
      let ir ← asDict "inact_reac" asNat (← field v "inact_reac")
      let ip ← asDict "inact_prod" asNat (← field v "inact_prod")
      match resolveParam vars (Param.key name) with
      | none => pure none
      | some k => pure (some { reac := reac, prod := prod, inactReac := ir, inactProd := ip, param := k })
  | _ => do pure (some (← asRxn v))

end ChemModel.KineticsIO
