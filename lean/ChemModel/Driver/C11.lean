import ChemModel.Basic.Proto
import ChemModel.Model.Equilibria
open ChemModel.Proto ChemModel.Equilibria Lean

/-
Line protocol for C11 (K : Rat).
  equilibrium  {"reac":[["A",1],..],"prod":[..],"ireac":[..],"iprod":[..],"K":null|n|[n,d],"dict":bool}
               (built through `mkEq`, i.e. the real constructor incl. its checks; duplicate keys are malformed)
  output       reac|prod|inact_reac|inact_prod|K   with  k:v,k:v  per container and  None  for K = None
-/

def showStoich (l : Stoich) : String := ",".intercalate (l.map fun kv => s!"{kv.1}:{kv.2}")

def showK : Option Rat → String
  | none => "None"
  | some q => showRat q

def showEquil (e : Equil Rat) : String :=
  s!"{showStoich e.reac}|{showStoich e.prod}|{showStoich e.inactReac}|{showStoich e.inactProd}|{showK e.K}"

def showRxn (r : Rxn Rat) : String :=
  s!"{showStoich r.reac}|{showStoich r.prod}|{showStoich r.inactReac}|{showStoich r.inactProd}|{showRat r.k}"

def showRes (r : Except String (Equil Rat)) : String :=
  match r with
  | .ok e => showEquil e
  | .error s => s

def getPairs (j : Json) (k : String) : Except String (List (String × Int)) := do
  let l ← (← getArr j k).mapM fun p => do
    match p with
    | .arr #[a, b] => do pure ((← asStr a), (← asInt b))
    | _ => .error s!"!bad-arg:{k}"
  if (l.map (·.1)).eraseDups.length != l.length then .error s!"!bad-arg:{k}:duplicate-key" else pure l

def getOptRat (j : Json) (k : String) : Except String (Option Rat) :=
  match j.getObjVal? k with
  | .ok .null => .ok none
  | .ok v => do pure (some (← asRat v))
  | _ => .error s!"!bad-arg:{k}"

/-- optional list of names: absent or null = not given -/
def getOptStrList (j : Json) (k : String) : Except String (Option (List String)) :=
  match j.getObjVal? k with
  | .ok .null => .ok none
  | .ok (.arr a) => do pure (some (← a.toList.mapM asStr))
  | .ok _ => .error s!"!bad-arg:{k}"
  | .error _ => .ok none

/-- parse + construct; the inner `Except` is the Python-level result of the constructor -/
def asEquil (j : Json) : Except String (Except String (Equil Rat)) := do
  let r ← getPairs j "reac"
  let p ← getPairs j "prod"
  let ir ← getPairs j "ireac"
  let ip ← getPairs j "iprod"
  let K ← getOptRat j "K"
  let d ← getBool j "dict"
  let checks ← getOptStrList j "checks"
  let dont ← getOptStrList j "dont_check"
  pure (mkEqChecks d r p ir ip K checks dont)

def getEquil (j : Json) (k : String) : Except String (Except String (Equil Rat)) :=
  match j.getObjVal? k with
  | .ok v => asEquil v
  | _ => .error s!"!bad-arg:{k}"

/-- an operand: an equilibrium object, or `null` for a number (the int 0) -/
def getOperand (j : Json) (k : String) : Except String (Except String (Operand Rat)) :=
  match j.getObjVal? k with
  | .ok .null => .ok (.ok Operand.number)
  | .ok v => do pure ((← asEquil v).map Operand.eq)
  | _ => .error s!"!bad-arg:{k}"

partial def asExpr (j : Json) : Except String (Except String (EqExpr Rat)) := do
  let t ← getStr j "t"
  let sub (k : String) : Except String (Except String (EqExpr Rat)) :=
    match j.getObjVal? k with
    | .ok v => asExpr v
    | _ => .error s!"!bad-arg:{k}"
  match t with
  | "leaf" => do
      let e ← getEquil j "eq"
      pure (e.map EqExpr.leaf)
  | "scale" => do
      let n ← getInt j "n"
      let x ← sub "x"
      pure (x.map (EqExpr.scale n))
  | "neg" => do
      let x ← sub "x"
      pure (x.map EqExpr.neg)
  | "add" => do
      let a ← sub "a"; let b ← sub "b"
      pure (do let a ← a; let b ← b; pure (EqExpr.add a b))
  | "sub" => do
      let a ← sub "a"; let b ← sub "b"
      pure (do let a ← a; let b ← b; pure (EqExpr.sub a b))
  | _ => .error "!bad-arg:t"

def asStep (j : Json) : Except String Step := do
  let t ← getStr j "t"
  match t with
  | "scale" => do pure (Step.scale (← getInt j "n") (← getNat j "i"))
  | "neg" => do pure (Step.neg (← getNat j "i"))
  | "add" => do pure (Step.add (← getNat j "i") (← getNat j "j"))
  | "sub" => do pure (Step.sub (← getNat j "i") (← getNat j "j"))
  | _ => .error "!bad-arg:t"

def showOptInt : Option Int → String
  | none => "inf"
  | some i => toString i

def h : Handler := fun op j =>
  match op with
  | "mk" => do pure (showRes (← getEquil j "eq"))
  | "rmul" => do
      let e ← getEquil j "eq"
      -- "n": an integer, or null for a multiplier that is not integral
      let n ← (match j.getObjVal? "n" with
        | .ok .null => .ok none
        | .ok v => do pure (some (← asInt v))
        | _ => .error "!bad-arg:n")
      -- optional "mult": what __rmul__ inspects of the multiplier object (checked against the plain description "n")
      match j.getObjVal? "mult" with
      | .ok mj => do
          let a ← getStr mj "attr"
          let attr ← (match a with
            | "missing" => pure IsIntegerAttr.missing
            | "method" => do pure (IsIntegerAttr.method (← getBool mj "ret"))
            | "value" => (match mj.getObjVal? "ret" with
                | .ok .null => pure (IsIntegerAttr.value none)
                | .ok (.bool b) => pure (IsIntegerAttr.value (some b))
                | _ => .error "!bad-arg:ret")
            | _ => .error "!bad-arg:attr")
          let m : PyMul := ⟨attr, ← getBool mj "pyint", ← getRat mj "val"⟩
          let r1 := showRes (do let e ← e; rmulMul m e)
          let r2 := showRes (do let e ← e; rmulPy n e)
          -- both descriptions of the same multiplier must give the same outcome
          if r1 == r2 then pure r1 else pure s!"!mult-mismatch:{r1}<>{r2}"
      | .error _ => pure (showRes (do let e ← e; rmulPy n e))
  | "checks" => do
      let r ← getPairs j "reac"; let p ← getPairs j "prod"
      let ir ← getPairs j "ireac"; let ip ← getPairs j "iprod"
      pure s!"any_effect={rawAnyEffect r p ir ip};all_positive={rawAllPositive r p ir ip}"
  | "neg" => do
      let e ← getEquil j "eq"
      pure (showRes (do let e ← e; neg e))
  | "add" => do
      let a ← getOperand j "a"; let b ← getOperand j "b"
      pure (showRes (do let a ← a; let b ← b; addPy a b))
  | "sub" => do
      let a ← getOperand j "a"; let b ← getOperand j "b"
      pure (showRes (do let a ← a; let b ← b; subPy a b))
  | "sum" => do
      let es ← (← getArr j "eqs").mapM asEquil
      let start ← (match j.getObjVal? "start" with
        | .ok .null => .ok none
        | .ok v => do pure (some (← asEquil v))
        | _ => .error "!bad-arg:start")
      let r : Except String (Option (Equil Rat)) := do
        let es ← es.mapM id
        match start with
        | none => sumPy none es
        | some s => do let s ← s; sumPy (some s) es
      match r with
      | .ok none => pure "0"
      | .ok (some e) => pure (showEquil e)
      | .error s => pure s
  | "expr" => do
      let t ← (match j.getObjVal? "tree" with
        | .ok v => asExpr v
        | _ => .error "!bad-arg:tree")
      pure (showRes (do let t ← t; t.eval))
  | "history" => do
      let pool ← (← getArr j "pool").mapM asEquil
      let steps ← (← getArr j "steps").mapM asStep
      let bad := steps.zipIdx.any fun (s, k) =>
        let lim := pool.length + k
        match s with
        | .scale _ i => i ≥ lim
        | .neg i => i ≥ lim
        | .add i j => i ≥ lim || j ≥ lim
        | .sub i j => i ≥ lim || j ≥ lim
      if bad then .error "!bad-arg:ref" else
      let res := runHistory pool steps
      pure (";;".intercalate ((res.drop pool.length).map showRes))
  | "eliminate" => do
      let es ← (← getArr j "eqs").mapM asEquil
      let wrt ← getStr j "wrt"
      let r : Except String (List Int) := do
        let es ← es.mapM id
        eliminate es wrt
      match r with
      | .ok l => pure (showIntList l)
      | .error s => pure s
  | "primefactors" => do pure (showNatList (primeFactors (← getNat j "n")))
  | "intdiv" => do
      match intdivPy (← getInt j "p") (← getInt j "q") with
      | .ok r => pure (toString r)
      | .error s => pure s
  | "cancel" => do
      let a ← getEquil j "a"; let b ← getEquil j "b"; let ks ← getStrList j "keys"
      let r : Except String (Option Int) := do
        let a ← a; let b ← b
        cancelWith a b ks
      match r with
      | .ok c => pure (showOptInt c)
      | .error s => pure s
  | "as_reactions" => do
      let e ← getEquil j "eq"
      let kf ← getOptRat j "kf"; let kb ← getOptRat j "kb"; let c0 ← getRat j "c0"
      let ug ← getBool j "units_given"; let ru ← getBool j "rate_has_units"
      let r : Except String (Rxn Rat × Rxn Rat) := do
        let e ← e
        asReactionsPy e kf kb ug ru c0
      match r with
      | .ok (f, b) => pure s!"{showRxn f};{showRxn b}"
      | .error s => pure s
  | _ => .error "!bad-op"

def main : IO Unit := run h
