import ChemModel.Basic.Proto
import ChemModel.Model.RSysGraph
open ChemModel.Proto ChemModel.RSysGraph Lean

/-! JSON conventions (arrays only, so that both sides print the same text)
  stoich  = [["A",1],["B",2]]
  rxn     = [reac, prod, inact_reac, inact_prod, param|null, name|null, paramB|null, isEq]
  subst   = [name, comp|null]          comp = [[k, v], ...]
  system  = {"rxns": [rxn...], "subs": [[key, subst]...]}
-/

def asNatJ (v : Json) : Except String Nat := do
  let i ← asInt v
  if i < 0 then .error "!bad-arg:nat" else pure i.toNat

def asStoich (v : Json) : Except String Stoich := do
  (← asArr v).mapM fun p => do
    match p with
    | .arr #[k, n] => pure (← asStr k, ← asNatJ n)
    | _ => .error "!bad-arg:stoich"

def asRxn (v : Json) : Except String Rxn := do
  match v with
  | .arr #[a, b, c, d, p, n, pb, isEq] =>
    let paramB ← match pb with
      | .null => pure none
      | _ => do pure (some (← asInt pb))
    let eq ← match isEq with
      | .bool b => pure b
      | _ => .error "!bad-arg:isEq"
    let param ← match p with
      | .null => pure none
      | _ => do pure (some (← asInt p))
    let name ← match n with
      | .null => pure none
      | _ => do pure (some (← asStr n))
    pure { reac := ← asStoich a, prod := ← asStoich b, inactReac := ← asStoich c, inactProd := ← asStoich d,
           param := param, name := name, paramB := paramB, isEq := eq }
  | _ => .error "!bad-arg:rxn"

def asComp (v : Json) : Except String Comp := do
  (← asArr v).mapM fun p => do
    match p with
    | .arr #[k, n] => pure (← asNatJ k, ← asInt n)
    | _ => .error "!bad-arg:comp"

def asSubst (v : Json) : Except String Subst := do
  match v with
  | .arr #[n, c] =>
    let comp ← match c with
      | .null => pure none
      | _ => do pure (some (← asComp c))
    pure { name := ← asStr n, comp := comp }
  | _ => .error "!bad-arg:subst"

def asODict (v : Json) : Except String ODict := do
  (← asArr v).mapM fun p => do
    match p with
    | .arr #[k, s] => pure (← asStr k, ← asSubst s)
    | _ => .error "!bad-arg:odict"

def asSys (v : Json) : Except String RSys := do
  let rx ← (← getArr v "rxns").mapM asRxn
  match v.getObjVal? "subs" with
  | .ok s => pure ⟨rx, ← asODict s⟩
  | _ => .error "!bad-arg:subs"

def getSys (j : Json) (k : String) : Except String RSys :=
  match j.getObjVal? k with
  | .ok v => asSys v
  | _ => .error s!"!bad-arg:{k}"

def asCheck (v : Json) : Except String Check := do
  match ← asStr v with
  | "substance_keys" => pure .substanceKeys
  | "duplicate" => pure .duplicate
  | "duplicate_names" => pure .duplicateNames
  | _ => .error "!bad-arg:check"

def getChecks (j : Json) : Except String (List Check) := do (← getArr j "checks").mapM asCheck

/-- `null` / absent = Python's `None`; the name "balance" (outside the model) is dropped -/
def getOptChecks (j : Json) (k : String) : Except String (Option (List Check)) := do
  match j.getObjVal? k with
  | .ok .null => pure none
  | .error _ => pure none
  | .ok (.arr a) => do
      let l ← (a.toList.filter fun v => v != .str "balance").mapM asCheck
      pure (some l)
  | .ok _ => .error s!"!bad-arg:{k}"

def asSStoich (v : Json) : Except String SStoich := do
  (← asArr v).mapM fun p => do
    match p with
    | .arr #[k, n] => pure (← asStr k, ← asInt n)
    | _ => .error "!bad-arg:stoich"

def asSRxn (v : Json) : Except String SRxn := do
  match v with
  | .arr #[a, b, c, d, p, n, pb, isEq] =>
    let param ← match p with
      | .null => pure none
      | _ => do pure (some (← asInt p))
    let name ← match n with
      | .null => pure none
      | _ => do pure (some (← asStr n))
    let paramB ← match pb with
      | .null => pure none
      | _ => do pure (some (← asInt pb))
    let eq ← match isEq with
      | .bool b => pure b
      | _ => .error "!bad-arg:isEq"
    pure { reac := ← asSStoich a, prod := ← asSStoich b, inactReac := ← asSStoich c, inactProd := ← asSStoich d,
           param := param, name := name, paramB := paramB, isEq := eq }
  | _ => .error "!bad-arg:rxn"

partial def asPred (v : Json) : Except String Pred := do
  match v with
  | .arr #[.str "has_key", k] => pure (.hasKey (← asStr k))
  | .arr #[.str "order_le", n] => pure (.orderLe (← asNatJ n))
  | .arr #[.str "named"] => pure .named
  | .arr #[.str "param_even"] => pure .paramEven
  | .arr #[.str "not", p] => pure (.not (← asPred p))
  | _ => .error "!bad-arg:pred"

def asHOp (v : Json) : Except String HOp := do
  match v with
  | .arr #[.str "add", i, j] => pure (.add (← asNatJ i) (← asNatJ j))
  | .arr #[.str "iadd", i, j] => pure (.iadd (← asNatJ i) (← asNatJ j))
  | .arr #[.str "subset", i, p] => pure (.subset (← asNatJ i) (← asPred p))
  | .arr #[.str "split", i] => pure (.split (← asNatJ i))
  | .arr #[.str "query", i, _, _] => pure (.query (← asNatJ i))
  | .arr #[.str "concat", is] => pure (.concat (← (← asArr is).mapM asNatJ))
  | _ => .error "!bad-arg:hop"

/-! printers -/
def jStoich (s : Stoich) : Json := .arr (s.map fun kv => Json.arr #[.str kv.1, toJson kv.2]).toArray
def jOptInt : Option Int → Json | none => .null | some i => toJson i
def jOptStr : Option String → Json | none => .null | some s => .str s
def jRxn (r : Rxn) : Json :=
  .arr #[jStoich r.reac, jStoich r.prod, jStoich r.inactReac, jStoich r.inactProd, jOptInt r.param, jOptStr r.name,
         jOptInt r.paramB, .bool r.isEq]
def jComp (c : Comp) : Json := .arr (c.map fun kv => Json.arr #[toJson kv.1, toJson kv.2]).toArray
def jSubst (s : Subst) : Json := .arr #[.str s.name, match s.comp with | none => .null | some c => jComp c]
def jSys (s : RSys) : Json :=
  .arr #[.arr (s.rxns.map jRxn).toArray, .arr (s.substs.map fun kv => Json.arr #[.str kv.1, jSubst kv.2]).toArray]
def jStrs (l : List String) : Json := .arr (l.map Json.str).toArray
def jNats (l : List Nat) : Json := .arr (l.map (toJson ·)).toArray

def checkName : Check → String
  | .substanceKeys => "ValueError:substance_keys"
  | .duplicate => "ValueError:duplicate"
  | .duplicateNames => "ValueError:duplicate_names"

def contErr : ContErr → String
  | .keyError => "KeyError"
  | .valueError => "ValueError"

def boundErr : BoundErr → String
  | .container e => contErr e
  | .attributeError => "AttributeError"
  | .zeroDivision => "ZeroDivisionError"

def showOptRat : Option Rat → String
  | none => "inf"
  | some q => showRat q

def asSubstArg (j : Json) : Except String SubstArg := do
  match j.getObjVal? "substances" with
  | .ok .null => pure .none
  | .ok (.arr #[.str "names", l]) => do pure (.names (← (← asArr l).mapM asStr))
  | .ok (.arr #[.str "set", l]) => do pure (.nameSet (← (← asArr l).mapM asStr))
  | .ok (.arr #[.str "str", s]) => do pure (.str (← asStr s))
  | .ok (.arr #[.str "substs", l]) => do pure (.substs (← (← asArr l).mapM asSubst))
  | .ok (.arr #[.str "odict", l]) => do pure (.odict (← asODict l))
  | .ok (.arr #[.str "dict", l]) => do pure (.dict (← asODict l))
  | _ => .error "!bad-arg:substances"

def getOptBool (j : Json) (k : String) : Except String (Option Bool) :=
  match j.getObjVal? k with
  | .ok .null => .ok none
  | .ok (.bool b) => .ok (some b)
  | _ => .error s!"!bad-arg:{k}"

def asRatPairs (v : Json) : Except String (List (String × Rat)) := do
  (← asArr v).mapM fun p => do
    match p with
    | .arr #[k, q] => pure (← asStr k, ← asRat q)
    | _ => .error "!bad-arg:dict"

/-- `rxns` with an optional non-Reaction item inserted at position `bad_at` -/
def getItems (j : Json) : Except String (List (Option Rxn)) := do
  let rs ← (← getArr j "rxns").mapM asRxn
  match j.getObjVal? "bad_at" with
  | .ok .null => pure (rs.map some)
  | .ok v => do
      let i ← asNatJ v
      pure ((rs.take i).map some ++ [none] ++ (rs.drop i).map some)
  | .error _ => pure (rs.map some)

def h : Handler := fun op j =>
  match op with
  | "make" => do
      let rx ← (← getArr j "rxns").mapM asRxn
      let checks ← getOptChecks j "checks"
      let dont ← getOptChecks j "dont_check"
      let missing ← match j.getObjVal? "missing" with
        | .ok (.bool b) => pure b
        | .ok _ => .error "!bad-arg:missing"
        | .error _ => pure false
      match RSys.makeFull rx (← asSubstArg j) checks dont (← getOptBool j "sort") missing with
      | .ok s => pure (jSys s).compress
      | .error (.check c) => pure (checkName c)
      | .error .anyCheck => pure "ValueError:some-check"
      | .error .bothGiven => pure "ValueError:both"
      | .error .typeError => pure "TypeError"
  | "check" => do
      pure (toString (runCheck (← getSys j "sys") (← match j.getObjVal? "check" with
        | .ok v => asCheck v
        | _ => .error "!bad-arg:check")))
  | "any_effect" => do
      match j.getObjVal? "rxn" with
      | .ok v => do pure (toString (← asRxn v).anyEffect)
      | _ => .error "!bad-arg:rxn"
  | "rxn_eq" => do
      match j.getObjVal? "a", j.getObjVal? "b" with
      | .ok a, .ok b => do pure (toString ((← asRxn a).pyEq (← asRxn b)))
      | _, _ => .error "!bad-arg:rxn"
  | "categorize_signed" => do
      let rx ← (← getArr j "rxns").mapM asSRxn
      let subs ← match j.getObjVal? "subs" with
        | .ok v => asODict v
        | _ => .error "!bad-arg:subs"
      match categorizeSigned rx subs (← getChecks j) with
      | .ok c => pure (Json.arr #[jStrs c.accumulated, jStrs c.depleted, jStrs c.unaffected, jStrs c.nonparticipating]).compress
      | .error (.cat (.check c)) => pure (checkName c)
      | .error (.cat (.expand .rateNeeded)) => pure "ValueError:rate"
      | .error (.cat (.expand .noEffect)) => pure "ValueError:no_effect"
      | .error .negative => pure "ValueError:negative"
      | .error .unmodelled => pure "!unmodelled"
  | "split" => do
      match split (← getSys j "sys") (← getChecks j) with
      | .ok l => pure (Json.arr (l.map fun p => Json.arr #[jNats p.1, jSys p.2]).toArray).compress
      | .error (.check c) => pure (checkName c)
      | .error .index => pure "IndexError"
  | "categorize" => do
      match categorize (← getSys j "sys") (← getChecks j) with
      | .ok c => pure (Json.arr #[jStrs c.accumulated, jStrs c.depleted, jStrs c.unaffected, jStrs c.nonparticipating]).compress
      | .error (.check c) => pure (checkName c)
      | .error (.expand .rateNeeded) => pure "ValueError:rate"
      | .error (.expand .noEffect) => pure "ValueError:no_effect"
  | "categorize_kw" => do
      let sys ← getSys j "sys"
      let srt := fun (l : List String) => l.mergeSort (fun a b => decide (a ≤ b))
      match categorizeKw sys (← getChecks j) (← getBool j "missing") with
      | .ok c => pure (Json.arr #[jStrs (srt c.accumulated), jStrs (srt c.depleted), jStrs (srt c.unaffected),
                                  jStrs (srt c.nonparticipating), jSys sys]).compress
      | .error (.cat (.check c)) => pure (checkName c)
      | .error (.cat (.expand .rateNeeded)) => pure "ValueError:rate"
      | .error (.cat (.expand .noEffect)) => pure "ValueError:no_effect"
      | .error .typeError => pure "TypeError"
  | "as_reactions" => do
      let r ← match j.getObjVal? "rxn" with
        | .ok v => asRxn v
        | _ => .error "!bad-arg:rxn"
      match r.asReactions with
      | .ok (f, b) => pure (Json.arr #[jRxn f, jRxn b]).compress
      | .error .rateNeeded => pure "ValueError:rate"
      | .error .noEffect => pure "ValueError:no_effect"
  | "identify_equilibria" => do
      pure (Json.arr ((identifyEquilibria (← getSys j "sys")).map fun p => Json.arr #[toJson p.1, toJson p.2]).toArray).compress
  | "participation" => do
      pure (jNats (substanceParticipation (← getSys j "sys") (← getStr j "key"))).compress
  | "effect" => do
      pure (Json.arr ((perReactionEffectOnSubstance (← getSys j "sys") (← getStr j "key")).map
        fun p => Json.arr #[toJson p.1, toJson p.2]).toArray).compress
  | "subset_answers" => do
      let ans ← (← getArr j "answers").mapM fun v => match v with
        | .bool b => pure b
        | _ => .error "!bad-arg:answers"
      let sys ← getSys j "sys"
      if ans.length ≠ sys.rxns.length then .error "!bad-arg:answers-length" else
      match subsetAnswers sys ans (← getChecks j) with
      | .ok (y, n) => pure (Json.arr #[jSys y, jSys n]).compress
      | .error c => pure (checkName c)
  | "subset" => do
      let p ← match j.getObjVal? "pred" with
        | .ok v => asPred v
        | _ => .error "!bad-arg:pred"
      match subset (← getSys j "sys") p.eval (← getChecks j) with
      | .ok (y, n) => pure (Json.arr #[jSys y, jSys n]).compress
      | .error c => pure (checkName c)
  | "add" => do pure (jSys (add (← getSys j "a") (← getSys j "b"))).compress
  | "add_rxns" => do
      match addItems (← getSys j "a") (← getItems j) with
      | some s => pure (jSys s).compress
      | none => pure "ValueError"
  | "iadd" => do pure (jSys (iadd (← getSys j "a") (← getSys j "b"))).compress
  | "iadd_rxns" => do
      match iaddItems (← getSys j "a") (← getItems j) with
      | some s => pure (jSys s).compress
      | none => pure "ValueError"
  | "eq" => do pure (toString ((← getSys j "a").pyEq (← getSys j "b")))
  | "concatenate" => do
      match concatenate (← (← getArr j "systems").mapM asSys) with
      | some (a, b) => pure (Json.arr #[jSys a, jSys b]).compress
      | none => pure "StopIteration"
  | "array_from_dict" => do
      let cont ← match j.getObjVal? "cont" with
        | .ok v => asRatPairs v
        | _ => .error "!bad-arg:cont"
      let res ← match j.getObjVal? "default" with
        | .ok v => do pure (asPerSubstanceArrayDefaultDict (← getSys j "sys") cont (← asRat v) (← getBool j "raise_on_unk"))
        | .error _ => do pure (asPerSubstanceArrayDict (← getSys j "sys") cont (← getBool j "raise_on_unk"))
      match res with
      | .ok l => pure (showRatList l)
      | .error e => pure (contErr e)
  | "array_from_list" => do
      match asPerSubstanceArrayList (← getSys j "sys") (← getRatList j "cont") with
      | .ok l => pure (showRatList l)
      | .error e => pure (contErr e)
  | "dict_from_array" => do
      let d := asPerSubstanceDict (← getSys j "sys") (← getRatList j "arr")
      pure (Json.arr (d.map fun kv => Json.arr #[.str kv.1, .str (showRat kv.2)]).toArray).compress
  | "substance_index" => do
      match j.getObjVal? "key" with
      | .ok (.str k) =>
        match asSubstanceIndex (← getSys j "sys") k with
        | some i => pure (toString i)
        | none => pure "ValueError"
      | .ok v => do pure (toString (asSubstanceIndexInt (← getSys j "sys") (← asInt v)))
      | .error _ => .error "!bad-arg:key"
  | "varied" => do
      let vj ← getArr j "varied"
      let varied ← vj.mapM fun p => do
        match p with
        | .arr #[k, vals] => pure (← asStr k, ← (← asArr vals).mapM asRat)
        | _ => .error "!bad-arg:varied"
      match perSubstanceVaried (← getSys j "sys") (← getRatList j "base") varied with
      | .ok (rows, keys) => pure ("[" ++ ",".intercalate (rows.map showRatList) ++ "]" ++ (jStrs keys).compress)
      | .error .valueError => pure "ValueError"
      | .error .indexError => pure "IndexError"
  | "upper_bounds" => do
      let skip ← (← getArr j "skip").mapM asNatJ
      match upperConcBounds (← getSys j "sys") (← getRatList j "init") skip with
      | .ok l => pure ("[" ++ ",".intercalate (l.map showOptRat) ++ "]")
      | .error e => pure (boundErr e)
  | "history" => do
      let store ← (← getArr j "store").mapM asSys
      let ops ← (← getArr j "ops").mapM asHOp
      match runHistory store ops with
      | .ok st => pure (Json.arr (st.map jSys).toArray).compress
      | .error .index => pure "IndexError"
      | .error .split => pure "!split-error"
      | .error .empty => pure "StopIteration"
  | _ => .error "!bad-op"

def main : IO Unit := run h
