/-
Driver for C13: one op per modelled function.  Strings in, JSON (compact) or an exception class name out.
  fmt      {"which": "latex"|"unicode"|"html", "s": str, "suffixes": [str]?}  -> JSON string | exception name
  text     {"s": str}            -> JSON [latex, unicode, html, unLatex(latex), unUnicode(unicode), unHtml(html)]   (exception names in place)
  ast      {"ast": formula AST}  -> JSON [render, latex, unicode, html, unLatex(latex), unUnicode(unicode), unHtml(html), render(canon ast),
                                          present latex, present unicode, present html]
  substance {"s": str}           -> JSON [latex_name, unicode_name, html_name] | exception name
  charge   {"s": str}            -> `_get_charge(s)`: the integer | exception name
  species  {"s": str, "phases": [str] | [[str, int]], "default": int | null, "phase_idx": int?}
                                 -> JSON [latex_name, unicode_name, html_name, phase_idx] | exception name
  reaction {"printer": "str"|"latex"|"unicode"|"html", "eq": bool, "substances": [str], "reac": [[key, n | [num, den]]], "prod": [...], "inact_reac": [...]?, "inact_prod": [...]?}
                                 -> JSON string
-/
import ChemModel.Basic.Proto
import ChemModel.Driver.FormulaJson
import ChemModel.Model.FormulaFormat
open ChemModel.Proto ChemModel.Formula ChemModel.FormulaJson ChemModel.FormulaFormat ChemModel.Gen
open Lean (Json)

def jstr (l : List Char) : Json := Json.str (String.ofList l)

def showRes (r : Except FErr Str) : Json :=
  match r with
  | .ok s => jstr s
  | .error e => Json.str e.pyName

def which (w : String) : Except String ((List Str → Str → Except FErr Str) × (Str → Str) × Pres) :=
  match w with
  | "latex" => .ok (toLatex, unLatex, latexPres)
  | "unicode" => .ok (toUnicode, unUnicode, unicodePres)
  | "html" => .ok (toHtml, unHtml, htmlPres)
  | _ => .error "!bad-arg:which"

def unOf (un : Str → Str) (r : Except FErr Str) : Json :=
  match r with
  | .ok s => jstr (un s)
  | .error e => Json.str e.pyName

def getPairs (j : Json) (k : String) : Except String (List (Str × Rat)) := do
  (← getArr j k).mapM fun v =>
    match v with
    | .arr #[.str key, n] => do pure (key.toList, ← asRat n)
    | _ => .error s!"!bad-arg:{k}"

def getPhases (j : Json) : Except String Phases := do
  let l ← getArr j "phases"
  match l with
  | (.str _) :: _ => do pure (.seq ((← l.mapM asStr).map String.toList))
  | [] => pure (.seq [])
  | _ => do
    let ps ← l.mapM fun v =>
      match v with
      | .arr #[.str key, n] => do pure (key.toList, ← asInt n)
      | _ => .error "!bad-arg:phases"
    pure (.dict ps)

def getPrinter (j : Json) : Except String Printer := do
  match ← getStr j "printer" with
  | "str" => pure .str
  | "latex" => pure .latex
  | "unicode" => pure .unicode
  | "html" => pure .html
  | _ => .error "!bad-arg:printer"

def h : Handler := fun op j =>
  match op with
  | "fmt" => do
    let (f, _, _) ← which (← getStr j "which")
    let s := (← getStr j "s").toList
    let sfx ← match j.getObjVal? "suffixes" with
      | .ok (.arr a) => do pure ((← a.toList.mapM asStr).map String.toList)
      | .ok .null => pure Render.formatSuffixesL
      | .ok _ => .error "!bad-arg:suffixes"
      | .error _ => pure Render.formatSuffixesL
    match f sfx s with
    | .ok r => pure (jstr r).compress
    | .error e => pure e.pyName
  | "text" => do
    let s := (← getStr j "s").toList
    let l := formulaToLatex s
    let u := formulaToUnicode s
    let w := formulaToHtml s
    pure (Json.arr #[showRes l, showRes u, showRes w, unOf unLatex l, unOf unUnicode u, unOf unHtml w]).compress
  | "ast" => do
    let f ← getFormula j "ast"
    let s := f.render
    let l := formulaToLatex s
    let u := formulaToUnicode s
    let w := formulaToHtml s
    pure (Json.arr #[jstr s, showRes l, showRes u, showRes w, unOf unLatex l, unOf unUnicode u, unOf unHtml w,
      jstr (canon f).render, jstr (present latexPres f), jstr (present unicodePres f), jstr (present htmlPres f)]).compress
  | "substance" => do
    match substanceFromFormula (← getStr j "s").toList with
    | .ok s => pure (Json.arr #[jstr s.latexName, jstr s.unicodeName, jstr s.htmlName]).compress
    | .error e => pure e
  | "species" => do
    let phases ← getPhases j
    let dflt ← match j.getObjVal? "default" with
      | .ok .null => pure none
      | .ok v => do pure (some (← asInt v))
      | .error _ => .error "!bad-arg:default"
    let explicit ← match j.getObjVal? "phase_idx" with
      | .ok .null => pure none
      | .ok v => do pure (some (← asInt v))
      | .error _ => pure none
    let txt := (← getStr j "s").toList
    match (match explicit with
           | some i => speciesFromFormulaIdx phases i txt
           | none => speciesFromFormula phases dflt txt) with
    | .ok s => pure (Json.arr #[jstr s.latexName, jstr s.unicodeName, jstr s.htmlName,
        match s.phaseIdx with | some i => Json.num (Lean.JsonNumber.fromInt i) | none => Json.null]).compress
    | .error e => pure e
  | "charge" => do
    match getCharge (← getStr j "s").toList with
    | .ok q => pure (toString q)
    | .error e => pure e.pyName
  | "reaction" => do
    let p ← getPrinter j
    let eq ← getBool j "eq"
    let keys ← getStrList j "substances"
    let substances ← keys.mapM fun k =>
      match substanceFromFormula k.toList with
      | .ok s => .ok (k.toList, s)
      | .error e => .error s!"!substance:{e}"
    let ir ← match j.getObjVal? "inact_reac" with | .ok _ => getPairs j "inact_reac" | .error _ => pure []
    let ip ← match j.getObjVal? "inact_prod" with | .ok _ => getPairs j "inact_prod" | .error _ => pure []
    pure (jstr (printReaction p eq substances (← getPairs j "reac") (← getPairs j "prod") ir ip)).compress
  | _ => .error "!bad-op"

def main : IO Unit := run h
