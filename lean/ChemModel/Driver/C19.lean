import ChemModel.Basic.Proto
import ChemModel.Gen.FnProps
import ChemModel.Model.PhysProps
/-!
Driver for C19.  One op per modelled function.

Plain-number ops (`units=None`) and L1 unit-mode ops (`…_u1`: SI values and scale factors): arguments in "a", a JSON
array of floats sent as the integer value of their IEEE-754 bit pattern; results are printed as bit patterns
(`Float.toBits`), followed by `|` and the JSON list of warning messages where the function has range checks.
L2 unit-mode ops (`…_u2`): every argument in "a" is a plain number (bit pattern) or a quantity
`[magnitude bits, factor bits, [7 dimension exponents]]`; the result is `num <bits>`, `qty <mag bits> <factor bits> <dims>`
or `err <exception>`.
Exact ops (`…_rat`): arguments as `[num, den]` / integers, result `n/d`.
-/
open ChemModel.Proto ChemModel.Gen ChemModel ChemModel.PhysProps Lean

def bits (x : Float) : String := toString x.toBits

def asBits (v : Json) : Except String Float := do
  let i ← asInt v
  if i < 0 || i ≥ 18446744073709551616 then .error "!bad-arg:bits" else
  pure (Float.ofBits (UInt64.ofNat i.toNat))

def floatArgs (j : Json) (n : Nat) : Except String (Array Float) := do
  let a ← getArr j "a"
  if a.length != n then .error "!bad-arg:arity" else
  let l ← a.mapM asBits
  pure l.toArray

instance : Inhabited (UV Float) := ⟨.err "!index"⟩

def asUV (v : Json) : Except String (UV Float) :=
  match v with
  | .arr #[m, f, .arr d] => do
      let m ← asBits m
      let f ← asBits f
      let d ← d.toList.mapM asInt
      if d.length != 7 then .error "!bad-arg:dims" else pure (UV.mk m f d)
  | _ => do pure (.num (← asBits v))

def uvArgs (j : Json) (n : Nat) : Except String (Array (UV Float)) := do
  let a ← getArr j "a"
  if a.length != n then .error "!bad-arg:arity" else
  let l ← a.mapM asUV
  pure l.toArray

def showUV : UV Float → String
  | .num x => "num " ++ bits x
  | .qty q => "qty " ++ bits q.mag ++ " " ++ bits q.unit.factor ++ " " ++ showIntList q.unit.dims
  | .err e => "err " ++ e

def withMsgs (x : Float) (m : List String) : String := bits x ++ "|" ++ showStrList m

def showExc : Except String Float → String
  | .ok x => "ok " ++ bits x
  | .error e => e

def electrolytes (j : Json) : Except String (List (String × Float)) := do
  let a ← getArr j "e"
  a.mapM fun v => match v with
    | .arr #[.str k, b] => do pure (k, ← asBits b)
    | _ => .error "!bad-arg:e"

def henryOf (j : Json) (a : Array Float) : Except String (Henry Float) := do
  match j.getObjVal? "T0" with
  | .ok .null => pure ⟨a[1]!, a[2]!, none⟩
  | .ok v => do pure ⟨a[1]!, a[2]!, some (← asBits v)⟩
  | _ => .error "!bad-arg:T0"

def h : Handler := fun op j =>
  match op with
  -- ---------------- plain numbers --------------------------------------------------------------
  | "water_density" => do
      let a ← floatArgs j 1
      pure (withMsgs (waterDensity a[0]!) (waterDensityWarnMsgs a[0]!))
  | "water_density_rat" => do
      match (← getRatList j "a") with
      | [T] =>
          let t := T - (27315 : Rat) / 100
          if t + (6934881 : Rat) / 100000 == 0 then pure "ZeroDivisionError"
          else pure (showRat (waterDensity T) ++ "|" ++ showStrList (waterDensityWarnMsgs T))
      | _ => .error "!bad-arg:arity"
  | "water_viscosity" => do
      let a ← floatArgs j 1
      pure (withMsgs (waterViscosity a[0]!) (waterViscosityWarnMsgs a[0]!))
  | "water_diffusivity" => do
      let a ← floatArgs j 1
      pure (withMsgs (waterDiffusivity a[0]!) (waterDiffusivityWarnMsgs a[0]!))
  | "water_diffusivity_err" => do
      let a ← floatArgs j 3
      pure (withMsgs (waterDiffusivityErr a[0]! a[1]! a[2]!) (waterDiffusivityErrWarnMsgs a[0]! a[1]! a[2]!))
  | "water_permittivity" => do
      let a ← floatArgs j 2
      pure (withMsgs (waterPermittivity a[0]! a[1]!) (waterPermittivityWarnMsgs a[0]! a[1]!))
  | "sulfuric_acid_density" => do
      let a ← floatArgs j 2
      pure (withMsgs (sulfuricAcidDensity a[0]! a[1]!) (sulfuricTWarnMsgs a[0]! a[1]!))
  | "sulfuric_acid_density_defT" => do
      let a ← floatArgs j 1
      pure (withMsgs (tableSum a[0]! (sulfuricTdef a[0]!) sulfuric_data 0) (sulfuricTdefWarnMsgs a[0]!))
  | "sulfuric_acid_density_T0" => do
      let a ← floatArgs j 3
      pure (withMsgs (tableSum a[0]! (sulfuricTT0 a[0]! a[1]! a[2]!) sulfuric_data 0) (sulfuricTT0WarnMsgs a[0]! a[1]! a[2]!))
  | "sulfuric_acid_density_rat" => do
      match (← getRatList j "a") with
      | [w, T] => pure (showRat (sulfuricAcidDensity w T) ++ "|" ++ showStrList (sulfuricTWarnMsgs w T))
      | _ => .error "!bad-arg:arity"
  | "density_from_concentration" => do
      let a ← floatArgs j 2
      pure (showExc (densityFromConcentration a[0]! a[1]!))
  | "density_from_concentration_with" => do
      -- conc, T, molar_mass, atol ; "maxiter"
      let a ← floatArgs j 4
      let mi ← getInt j "maxiter"
      let entered := decide (a[3]! < (1.0 / 0.0 : Float))       -- `atol < abs(float("inf"))`: false for inf and nan
      pure (showExc (densityFromConcentrationPy entered (fun w => sulfuricAcidDensity w a[1]!) a[0]! a[2]! a[3]! (dfcInit_2 a[0]!) mi.toNat))
  | "lg_solubility_ratio" => do
      let e ← electrolytes j
      let gas ← getStr j "gas"
      let m ← floatArgs j 1          -- M: 1 for units=None, scale factor of units.molar for the L1 reading
      pure (showExc (lgSolubilityRatio m[0]! e gas) ++ "|" ++ toString (lgSolubilityWarns e))
  | "henry_call" => do
      let a ← floatArgs j 3
      pure (bits ((← henryOf j a).call a[0]!))
  | "henry_get_c" => do
      let a ← floatArgs j 4
      pure (bits ((← henryOf j a).getC a[0]! a[3]!))
  | "henry_get_p" => do
      let a ← floatArgs j 4
      pure (bits ((← henryOf j a).getP a[0]! a[3]!))
  | "nernst" => do
      let a ← floatArgs j 4
      pure (bits (nernstPotential a[0]! a[1]! a[2]! a[3]!))
  | "nernst_c" => do
      let a ← floatArgs j 6
      pure (bits (nernstPotentialC a[0]! a[1]! a[2]! a[3]! a[4]! a[5]!))
  | "mobility" => do
      let a ← floatArgs j 3
      pure (bits (mobility a[0]! a[1]! a[2]!))
  | "mobility_rat" => do
      match (← getRatList j "a") with
      | [D, z, T] => if T == 0 then pure "ZeroDivisionError" else pure (showRat (mobility D z T))
      | _ => .error "!bad-arg:arity"
  | "mobility_c" => do
      let a ← floatArgs j 5
      pure (bits (mobilityC a[0]! a[1]! a[2]! a[3]! a[4]!))
  -- ---------------- L1: SI values and scale factors ------------------------------------------------
  | "water_density_u1" => do
      let a ← floatArgs j 4
      pure (withMsgs (waterDensityU a[0]! a[1]! a[2]! a[3]!) (waterDensityUWarnMsgs a[0]! a[1]! a[2]! a[3]!))
  | "water_viscosity_u1" => do
      let a ← floatArgs j 3
      pure (withMsgs (waterViscosityU a[0]! a[1]! a[2]!) (waterViscosityUWarnMsgs a[0]! a[1]! a[2]!))
  | "water_diffusivity_u1" => do
      let a ← floatArgs j 4
      pure (withMsgs (waterDiffusivityU a[0]! a[1]! a[2]! a[3]!) (waterDiffusivityUWarnMsgs a[0]! a[1]! a[2]! a[3]!))
  | "water_diffusivity_err_u1" => do
      let a ← floatArgs j 6
      pure (withMsgs (waterDiffusivityErrU a[0]! a[1]! a[2]! a[3]! a[4]! a[5]!) (waterDiffusivityErrUWarnMsgs a[0]! a[1]! a[2]! a[3]! a[4]! a[5]!))
  | "water_permittivity_u1" => do
      let a ← floatArgs j 4
      pure (withMsgs (waterPermittivityU a[0]! a[1]! a[2]! a[3]!) (waterPermittivityUWarnMsgs a[0]! a[1]! a[2]! a[3]!))
  | "sulfuric_acid_density_u1" => do
      let a ← floatArgs j 5
      pure (withMsgs (sulfuricAcidDensityU a[0]! a[1]! a[2]! a[3]! a[4]!) (sulfuricTUWarnMsgs a[0]! a[1]! a[2]! a[3]! a[4]!))
  | "henry_call_u1" => do
      let a ← floatArgs j 4
      pure (bits ((← henryOf j a).callWithUnits a[0]! a[3]!))
  | "nernst_u1" => do
      let a ← floatArgs j 8
      pure (bits (nernstPotentialU a[0]! a[1]! a[2]! a[3]! a[4]! a[5]! a[6]! a[7]!))
  | "nernst_cu1" => do
      let a ← floatArgs j 6
      pure (bits (nernstPotentialCU a[0]! a[1]! a[2]! a[3]! a[4]! a[5]!))
  | "nernst_q1" => do
      let a ← floatArgs j 4
      pure (bits (nernstPotentialQ a[0]! a[1]! a[2]! a[3]!))
  | "mobility_u1" => do
      let a ← floatArgs j 6
      pure (bits (mobilityU a[0]! a[1]! a[2]! a[3]! a[4]! a[5]!))
  -- ---------------- L2: quantity algebra ---------------------------------------------------------------
  | "water_density_u2" => do
      let a ← uvArgs j 4
      pure (showUV (waterDensityU a[0]! a[1]! a[2]! a[3]!))
  | "water_viscosity_u2" => do
      let a ← uvArgs j 3
      pure (showUV (waterViscosityU a[0]! a[1]! a[2]!))
  | "water_diffusivity_u2" => do
      let a ← uvArgs j 4
      pure (showUV (waterDiffusivityU a[0]! a[1]! a[2]! a[3]!))
  | "water_diffusivity_err_u2" => do
      let a ← uvArgs j 6
      pure (showUV (waterDiffusivityErrU a[0]! a[1]! a[2]! a[3]! a[4]! a[5]!))
  | "henry_t0_u2" => do
      let a ← uvArgs j 5
      pure (showUV (henryHAtTU a[0]! a[1]! a[2]! a[3]! a[4]!))
  | "water_permittivity_u2" => do
      let a ← uvArgs j 4
      pure (showUV (waterPermittivityU a[0]! a[1]! a[2]! a[3]!))
  | "sulfuric_acid_density_u2" => do
      let a ← uvArgs j 5
      match a[0]! with
      | .num w => pure (showUV (sulfuricAcidDensityUV w a[1]! a[2]! a[3]! a[4]!))
      | _ => .error "!bad-arg:w"
  | "henry_default_u2" => do
      let a ← uvArgs j 4
      pure (showUV (henryHAtTDefaultU a[0]! a[1]! a[2]! a[3]!))
  | "nernst_u2" => do
      let a ← uvArgs j 8
      pure (showUV (nernstPotentialU (α := UVm Float) a[0]! a[1]! a[2]! a[3]! a[4]! a[5]! a[6]! a[7]!))
  | "nernst_cu2" => do
      let a ← uvArgs j 6
      pure (showUV (nernstPotentialCU (α := UVm Float) a[0]! a[1]! a[2]! a[3]! a[4]! a[5]!))
  | "nernst_q2" => do
      let a ← uvArgs j 4
      pure (showUV (nernstPotentialQ (α := UVm Float) a[0]! a[1]! a[2]! a[3]!))
  | "mobility_u2" => do
      let a ← uvArgs j 6
      pure (showUV (mobilityU a[0]! a[1]! a[2]! a[3]! a[4]! a[5]!))
  | "mobility_c2" => do
      let a ← uvArgs j 5
      pure (showUV (mobilityC a[0]! a[1]! a[2]! a[3]! a[4]!))
  | _ => .error "!bad-op"

def main : IO Unit := run h
