import ChemModel.Basic.Proto
import ChemModel.Model.EqSolve
open ChemModel.Proto ChemModel.EqSolve Lean

def showExc {β : Type} (f : β → String) : Except Err β → String
  | .ok v => f v
  | .error e => e.name

def showBool (b : Bool) : String := if b then "True" else "False"

def showBound : Option Rat → String
  | none => "inf"
  | some q => showRat q

def getDict (j : Json) (k : String) : Except String (List (Nat × Int)) := do
  (← getArr j k).mapM fun p => do
    match p with
    | .arr #[a, b] => do
        let a ← asInt a
        if a < 0 then .error "!bad-arg:key" else pure (a.toNat, ← asInt b)
    | _ => .error "!bad-arg:dict"

def asRxn (j : Json) : Except String Rxn := do
  pure { reac := ← getDict j "reac", prod := ← getDict j "prod",
         inactReac := ← getDict j "inact_reac", inactProd := ← getDict j "inact_prod" }

def getRxns (j : Json) (k : String) : Except String (List Rxn) := do
  (← getArr j k).mapM asRxn

def getNatList (j : Json) (k : String) : Except String (List Nat) := do
  (← getIntList j k).mapM fun i => if i < 0 then .error s!"!bad-arg:{k}" else pure i.toNat

def getBoolList (j : Json) (k : String) : Except String (List Bool) := do
  (← getArr j k).mapM fun v => match v with
    | .bool b => pure b
    | _ => .error s!"!bad-arg:{k}"

def getComps (j : Json) (k : String) : Except String (List (Comp Rat)) := do
  (← getArr j k).mapM fun c => do
    (← asArr c).mapM fun p => do
      match p with
      | .arr #[a, b] => do
          let a ← asInt a
          if a < 0 then .error "!bad-arg:key" else pure (a.toNat, ← asRat b)
      | _ => .error "!bad-arg:comp"

/-- optional rational argument -/
def getRatOr (j : Json) (k : String) (d : Rat) : Except String Rat :=
  match j.getObjVal? k with
  | .ok v => asRat v
  | .error _ => pure d

def getRxnAt (rxns : List Rxn) (j : Json) : Except String Rxn := do
  let ri ← getNat j "ri"
  match rxns[ri]? with
  | some r => pure r
  | none => .error "!bad-arg:ri"

def showPair (p : Rat × Rat) : String := s!"{showRat p.1},{showRat p.2}"

def h : Handler := fun op j =>
  match op with
  | "ucb" => do
      let r : Except Err (List (Option Rat)) := upperConcBounds (← getComps j "comps") (← getRatList j "init")
      pure (showExc (fun l => "[" ++ ",".intercalate (l.map showBound) ++ "]") r)
  | "sane_nan" => do
      let rtol ← getRatOr j "rtol" (saneRtolDefault : Rat)
      let x ← (← getArr j "x").mapM fun v => match v with
        | .null => pure (none : Option Rat)
        | _ => do pure (some (← asRat v))
      pure (showExc showBool (resultIsSaneNan rtol (← getComps j "comps") (← getRatList j "init") x))
  | "dissolved_int" => do
      pure (showExc showIntList (dissolvedIntArray (← getNatList j "phases") (← getRxns j "rxns") (← getIntList j "c")))
  | "sane" => do
      let rtol ← getRatOr j "rtol" (saneRtolDefault : Rat)
      pure (showExc showBool (resultIsSane rtol (← getComps j "comps") (← getRatList j "init") (← getRatList j "x")))
  | "precip_stoich" => do
      let r := precipitateStoich (← getNatList j "phases") (← asRxn (← j.getObjVal? "rxn" |>.mapError fun _ => "!bad-arg:rxn"))
      pure (showExc (fun (net, s, i) => s!"{showIntList net};{s};{i}") r)
  | "nonprecip_stoich" => do
      pure (showIntList (nonPrecipitateStoich (← getNatList j "phases") (← asRxn (← j.getObjVal? "rxn" |>.mapError fun _ => "!bad-arg:rxn"))))
  | "net_stoich" => do
      pure (showIntList (netStoich (← getNat j "ns") (← asRxn (← j.getObjVal? "rxn" |>.mapError fun _ => "!bad-arg:rxn"))))
  | "ptidx" => do
      pure (showExc showNatList (phaseTransferIdxs (← getNatList j "phases") (← getRxns j "rxns")))
  | "nonprecip" => do
      pure (showExc showNatList (nonPrecipRids (← getNatList j "phases") (← getRxns j "rxns") (← getBoolList j "precipitates")))
  | "quotient" => do
      pure (showExc showRat (eqQuotient (← getRatList j "concs") (← getIntList j "stoich")))
  | "dissolved" => do
      pure (showExc showRatList (dissolved (← getNatList j "phases") (← getRxns j "rxns") (← getRatList j "c")))
  | "fw" => do
      let rxns ← getRxns j "rxns"
      let rtol ← getRatOr j "rtol" (fwRtolDefault : Rat)
      pure (showExc showBool (fwCond rtol (← getNatList j "phases") rxns (← getRxnAt rxns j) (← getRat j "k") (← getRatList j "x")))
  | "bw" => do
      let rxns ← getRxns j "rxns"
      pure (showExc showBool (bwCond (← getRat j "small") (← getNatList j "phases") (← getRxnAt rxns j) (← getRatList j "x")))
  | "rc_interval" => do
      pure (showExc showPair (getRcInterval (← getIntList j "stoich") (← getRatList j "c0")))
  | "bracket" => do
      pure (showExc showPair (solveBracket (← getRatList j "c0") (← getIntList j "stoich")))
  | "residual" => do
      pure (showExc showRat (equilibriumResidual (← getRat j "rc") (← getRatList j "c0") (← getIntList j "stoich") (← getRat j "K")))
  | "extent_state" => do
      pure (showRatList (extentState (← getRatList j "c0") (← getIntList j "stoich") (← getRat j "rc")))
  | "varied" => do
      let varied ← (← getArr j "varied").mapM fun p => do
        match p with
        | .arr #[a, b] => do
            let a ← asInt a
            if a < 0 then .error "!bad-arg:key" else pure (a.toNat, ← (← asArr b).mapM asRat)
        | _ => .error "!bad-arg:varied"
      let r : Except Err (List Nat × List Nat × List (List Rat)) := perSubstanceVaried (← getNat j "ns") (← getRatList j "base") varied
      pure (showExc (fun (k, sh, rows) => s!"{showNatList k};{showNatList sh};[{",".intercalate (rows.map showRatList)}]") r)
  | "quotient_rows" => do
      let rows ← (← getArr j "concs").mapM fun r => do (← asArr r).mapM asRat
      pure (showExc showRatList (eqQuotientRows rows (← getIntList j "stoich")))
  | "residual_act" => do
      -- activity product: the monomial prod c_i ^ e_i with integer exponents `act_exp`
      let e ← getIntList j "act_exp"
      pure (showExc showRat (equilibriumResidualWith (fun c => eqQuotient c e) (← getRat j "rc") (← getRatList j "c0")
        (← getIntList j "stoich") (← getRat j "K")))
  | "residual_multi" => do
      let st ← (← getArr j "stoich").mapM fun r => do (← asArr r).mapM asInt
      pure (showExc showRatList (equilibriumResidualMulti (← getRatList j "rc") (← getRatList j "c0") st (← getRatList j "K")))
  | "lin_x0" => do
      pure (showExc showRatList (linInternalX0 (← getNatList j "phases") (← getRxns j "rxns") (← getRatList j "c")))
  | "root_args" => do
      let x0 : Option (List Rat) ← match j.getObjVal? "x0" with
        | .ok .null => pure none
        | .ok _ => do pure (some (← getRatList j "x0"))
        | .error _ => pure none
      let (g, p) := rootArgs (← getRatList j "init") x0 (← getRatList j "consts")
      pure s!"{showRatList g};{showRatList p}"
  | _ => .error "!bad-op"

def main : IO Unit := run h
