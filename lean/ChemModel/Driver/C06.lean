import ChemModel.Basic.Proto
import ChemModel.Driver.KineticsIO
import ChemModel.Model.EulerStep
/-!
Driver for C06 (model: `Model/EulerStep.lean`), instantiated with `Rat` (exact).

ops
* `max_euler_step_cb`  {"keys": [name…], "comps": [[[key, rat]…]…], "rxns": [rxn…], "states": [[rat…]…]}
      → `None` when the system gets no callback (`check_balance(strict=True)` false), otherwise per state
        `h;[f…];[ub…]` (bounds `inf` for an unbounded substance), states separated by `|`; an exception is printed by name
* `max_euler_step_cb_cstr` as above plus "fr": rat, "fc": [rat…] (stirred tank, `get_odesys(rsys, cstr=True)`)
* `upper_conc_bounds`  {"comps": …, "init": [rat…]} → `[b…]` / exception name
* `first_order_matrix` {"keys": …, "rxns": …} → matrix of rationals, `NotFirstOrder` when some reaction is not `{j: 1} → …`
* `euler_step`         {"y": [rat…], "ub": [rat | null…], "f": [rat…]} → `h` / exception name   (the bare arithmetic)
-/
open ChemModel.Proto ChemModel.KineticsIO ChemModel.Kinetics ChemModel.EulerStep ChemModel Lean

def getComps (j : Json) (k : String) : Except String (List (EqSolve.Comp Rat)) := do
  (← getArr j k).mapM fun c => do
    (← asArr c).mapM fun p => do
      match p with
      | .arr #[a, b] => do
          let a ← asInt a
          if a < 0 then .error "!bad-arg:key" else pure (a.toNat, ← asRat b)
      | _ => .error "!bad-arg:comp"

def showBound : Option Rat → String
  | none => "inf"
  | some q => showRat q

def showBounds (l : List (Option Rat)) : String := "[" ++ ",".intercalate (l.map showBound) ++ "]"

def getOptRatList (j : Json) (k : String) : Except String (List (Option Rat)) := do
  (← getArr j k).mapM fun v =>
    match v with
    | .null => pure none
    | _ => do pure (some (← asRat v))

def oneState (keys : List String) (comps : List (EqSolve.Comp Rat)) (rs : List (Reaction String Rat)) (y : List Rat) : String :=
  match maxEulerStepCb keys comps rs y with
  | .error e => e.name
  | .ok h =>
    let f := match fvec keys rs y with
      | .ok f => showRatList f
      | .error e => e.name
    let ub := match EqSolve.upperConcBounds comps y with
      | .ok ub => showBounds ub
      | .error e => e.name
    s!"{showRat h};{f};{ub}"

def oneStateCstr (keys : List String) (comps : List (EqSolve.Comp Rat)) (rs : List (Reaction String Rat)) (cs : Cstr String)
    (p : List (String × Rat)) (y : List Rat) : String :=
  match maxEulerStepCbCstr keys comps rs cs p y with
  | .error e => e.name
  | .ok h =>
    let f := match fvecCstr keys rs cs p y with
      | .ok f => showRatList f
      | .error e => e.name
    let ub := match EqSolve.upperConcBounds comps y with
      | .ok ub => showBounds ub
      | .error e => e.name
    s!"{showRat h};{f};{ub}"

def h : Handler := fun op j =>
  match op with
  | "max_euler_step_cb_cstr" => do
      -- get_odesys(rsys, cstr=True): "fr" = feed ratio, "fc" = feed concentration per substance (order of "keys");
      -- the parameter names are those chempy generates: 'feedratio', 'fc_<substance>'
      let keys ← getStrList j "keys"
      let comps ← getComps j "comps"
      let rs ← getRxns j "rxns"
      let states ← (← getArr j "states").mapM fun v => do (← asArr v).mapM asRat
      let fr ← getRat j "fr"
      let fc ← getRatList j "fc"
      if keys.length != comps.length || fc.length != keys.length then .error "!bad-arg:comps" else
      if (dedupKeys keys).length != keys.length then .error "!bad-arg:keys:duplicate" else
      if !(callbackAvailable keys comps rs) then pure "None" else
      let cs : Cstr String := ⟨"feedratio", keys.map fun k => (k, "fc_" ++ k)⟩
      let p : List (String × Rat) := ("feedratio", fr) :: List.zip (keys.map fun k => "fc_" ++ k) fc
      pure ("|".intercalate (states.map (oneStateCstr keys comps rs cs p)))
  | "max_euler_step_cb" => do
      let keys ← getStrList j "keys"
      let comps ← getComps j "comps"
      let rs ← getRxns j "rxns"
      let states ← (← getArr j "states").mapM fun v => do (← asArr v).mapM asRat
      if keys.length != comps.length then .error "!bad-arg:comps" else
      if (dedupKeys keys).length != keys.length then .error "!bad-arg:keys:duplicate" else
      if !(callbackAvailable keys comps rs) then pure "None" else
      pure ("|".intercalate (states.map (oneState keys comps rs)))
  | "upper_conc_bounds" => do
      let comps ← getComps j "comps"
      let init ← getRatList j "init"
      match EqSolve.upperConcBounds comps init with
      | .ok ub => pure (showBounds ub)
      | .error e => pure e.name
  | "first_order_matrix" => do
      let keys ← getStrList j "keys"
      let rs ← getRxns j "rxns"
      if rs.all (fun r => (firstOrderReactant r).isSome) then pure (showRatMtx (firstOrderMatrix keys rs))
      else pure "NotFirstOrder"
  | "euler_step" => do
      let y ← getRatList j "y"
      let ub ← getOptRatList j "ub"
      let f ← getRatList j "f"
      match maxEulerStep y ub f with
      | .ok hh => pure (showRat hh)
      | .error e => pure e.name
  | _ => .error "!bad-op"

def main : IO Unit := run h
