/-
Driver for C04: the two builders of the ODE right-hand side (`get_odesys`, `_create_odesys`) on a reaction system with
exact rational constants, and the evaluation of the generated expressions at a rational point (`f_cb`, `rate_exprs_cb`).

op "build":  {"subst": [...], "rxns": [{"reac": [[k,n],…], "prod": …, "inact_reac": …, "inact_prod": …,
                                        "param": {"kind": "raw|ma|named|key|sym", "k": rat?, "uk": str?}}, …],
              "builder": "get" | "create", "include_params": bool, "subs": [[key, rat], …], "cstr": bool,
              "param_exprs": [[key, rat], …], "py_nums": bool, "point": [[symbol, rat], …] | null}
answer: the exception class, or one JSON object
   {"names", "param_names", "param_keys", "unique": [[key, null | "n/d"]], "exprs": [poly], "rates": [poly], "f": ["n/d"] | null,
    "r": ["n/d"] | null}
   poly = [[[[symbol, exponent], …], "n/d"], …]   (normal form: sorted, merged, zero-free)
-/
import ChemModel.Driver.KineticsIO
import ChemModel.Model.OdeBuild
open ChemModel.Proto ChemModel.Kinetics ChemModel.KineticsIO ChemModel.OdeBuild Lean

def asParam (v : Json) : Except String RateParam := do
  let kind ← getStr v "kind"
  match kind with
  | "raw" => pure (.raw (← getRat v "k"))
  | "ma" => pure (.ma (← getRat v "k"))
  | "named" => pure (.named (← getStr v "uk") (← getRat v "k"))
  | "key" => pure (.key (← getStr v "uk"))
  | "sym" => pure (.sym (← getStr v "uk"))
  | _ => .error "!bad-arg:param.kind"

def asRxn' (v : Json) : Except String Rxn := do
  let reac ← asDict "reac" asNat (← field v "reac")
  let prod ← asDict "prod" asNat (← field v "prod")
  let ir ← asDict "inact_reac" asNat (← field v "inact_reac")
  let ip ← asDict "inact_prod" asNat (← field v "inact_prod")
  let p ← asParam (← field v "param")
  pure { reac := reac, prod := prod, inactReac := ir, inactProd := ip, param := p }

def jStrs (l : List String) : Json := Json.arr (l.map Json.str).toArray
def jRat (q : Rat) : Json := Json.str (showRat q)

def jPoly (p : Poly String) : Json :=
  Json.arr (p.terms.map fun t =>
    Json.arr #[Json.arr (t.1.map fun ve => Json.arr #[Json.str ve.1, Json.num (ve.2 : Nat)]).toArray, jRat t.2]).toArray

def showErrC : BuildErr → String
  | .typeError => "TypeError"
  | .valueError => "ValueError"
  | .keyError => "KeyError"
  | .notImplementedError => "NotImplementedError"
  | .attributeError => "AttributeError"
  | .unmodelled => "!unmodelled"

def evalAt (point : Option (List (String × Rat))) (ps : List (Poly String)) : Json :=
  match point with
  | none => Json.null
  | some pt => Json.arr (ps.map fun p => jRat (evalPoly (fun q => q) (fun k => dgetD pt k 0) p)).toArray

def hStep : Handler := fun op j =>
  match op with
  | "build" => do
      let subst ← getStrList j "subst"
      if (dedupKeys subst).length != subst.length then .error "!bad-arg:subst:duplicate-key"
      let rxns ← (← getArr j "rxns").mapM asRxn'
      let sys : Sys := { subst := subst, rxns := rxns }
      let builder ← getStr j "builder"
      let cstr ← getBool j "cstr"
      let pyNums ← getBool j "py_nums"
      let point ← match optField j "point" with
        | none => pure none
        | some v => do pure (some (← asDict "point" asRat v))
      match builder with
      | "get" => do
          let cfg : Cfg := { includeParams := (← getBool j "include_params"), subs := (← asDict "subs" asRat (← field j "subs")), cstr := cstr, pyNums := pyNums }
          match buildRhs cfg sys with
          | .error e => pure (showErrC e)
          | .ok o =>
            pure (Json.mkObj [("names", jStrs o.names), ("param_names", jStrs o.paramNames), ("param_keys", jStrs o.paramKeys),
              ("unique", Json.arr (o.unique.map fun kv => Json.arr #[Json.str kv.1, match kv.2 with | none => Json.null | some q => jRat q]).toArray),
              ("exprs", Json.arr (o.exprs.map jPoly).toArray), ("rates", Json.arr (o.rateExprs.map jPoly).toArray),
              ("f", evalAt point o.exprs), ("r", evalAt point o.rateExprs)]).compress
      | "create" => do
          let cfg : Cfg' := { cstr := cstr, paramExprs := (← asDict "param_exprs" asRat (← field j "param_exprs")), pyNums := pyNums }
          match buildRhs' cfg sys with
          | .error e => pure (showErrC e)
          | .ok o =>
            pure (Json.mkObj [("names", jStrs o.names), ("param_names", jStrs o.paramNames),
              ("exprs", Json.arr (o.exprs.map jPoly).toArray), ("f", evalAt point o.exprs)]).compress
      | _ => .error "!bad-arg:builder"
  | _ => .error "!bad-op"

/-- op "history": {"steps": [build cases …]} — the model is a pure function of the CURRENT public state, so a history of builds over
    mutated objects is the list of independent builds; answer: JSON array of the per-step answers (as strings) -/
def h : Handler := fun op j =>
  match op with
  | "history" => do
      let outs ← (← getArr j "steps").mapM fun s => do
        let sop ← getStr s "op"
        if sop == "history" then .error "!bad-arg:nested-history" else
        match hStep sop s with
        | .ok o => pure o
        | .error e => pure e
      pure (Json.arr (outs.map Json.str).toArray).compress
  | _ => hStep op j

def main : IO Unit := run h
