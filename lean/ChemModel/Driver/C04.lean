/-
Driver for C04: the two builders of the ODE right-hand side (`get_odesys`, `_create_odesys`) on a reaction system with
exact rational constants, and the evaluation of the generated expressions at a rational point (`f_cb`, `rate_exprs_cb`).

op "build":  {"subst": [...], "rxns": [{"reac": [[k,n],…], "prod": …, "inact_reac": …, "inact_prod": …,
                                        "param": {"kind": "raw|ma|named|key|sym", "k": rat?, "uk": str?}}, …],
              "builder": "get" | "create", "include_params": bool, "subs": [[key, rat], …], "cstr": bool,
              "param_exprs": [[key, rat], …], "py_nums": bool,
              "active": [[key, pexpr], …]?, "consts": [[key, rat], …]?   (get;  pexpr = {"c": rat} | {"s": key} | {"add": [a, b]} | {"mul": [a, b]}),
              "subst_symbols": [key, …] | null? (OrderedDict), "subst_symbols_plain": [key, …] | null? (plain dict, insertion order), "param_symbols": {"ordered": bool, "keys": [key, …]} | null?   (create), "point": [[symbol, rat], …] | null}
answer: the exception class, or one JSON object
   {"names", "param_names", "param_keys", "unique": [[key, null | "n/d"]], "exprs": [poly], "rates": [poly], "f": ["n/d"] | null,
    "r": ["n/d"] | null}
   poly = [[[[symbol, exponent], …], "n/d"], …]   (normal form: sorted, merged, zero-free)
-/
import ChemModel.Driver.KineticsIO
import ChemModel.Model.OdeBuild
open ChemModel.Proto ChemModel.Kinetics ChemModel.KineticsIO ChemModel.OdeBuild Lean

def asRateParam (v : Json) : Except String RateParam := do
  let kind ← getStr v "kind"
  match kind with
  | "raw" => pure (.raw (← getRat v "k"))
  | "ma" => pure (.ma (← getRat v "k"))
  | "named" => pure (.named (← getStr v "uk") (← getRat v "k"))
  | "key" => pure (.key (← getStr v "uk"))
  | "sym" => pure (.sym (← getStr v "uk"))
  | _ => .error "!bad-arg:param.kind"

def asRxn' (v : Json) : Except String Rxn := do
  let reac ← asDict "reac" asNat (← field v "reac")
  let prod ← asDict "prod" asNat (← field v "prod")
  let ir ← asDict "inact_reac" asNat (← field v "inact_reac")
  let ip ← asDict "inact_prod" asNat (← field v "inact_prod")
  let p ← asRateParam (← field v "param")
  pure { reac := reac, prod := prod, inactReac := ir, inactProd := ip, param := p }

partial def asPExpr (v : Json) : Except String PExpr :=
  match v.getObjVal? "c", v.getObjVal? "s", v.getObjVal? "add", v.getObjVal? "mul" with
  | .ok c, _, _, _ => do pure (.const (← asRat c))
  | _, .ok (.str k), _, _ => pure (.sym k)
  | _, _, .ok (.arr #[a, b]), _ => do pure (.add (← asPExpr a) (← asPExpr b))
  | _, _, _, .ok (.arr #[a, b]) => do pure (.mul (← asPExpr a) (← asPExpr b))
  | _, _, _, _ => .error "!bad-arg:pexpr"

/-- absent field = empty dict -/
def optDict {β : Type} (j : Json) (k : String) (val : Json → Except String β) : Except String (List (String × β)) :=
  match optField j k with
  | none => pure []
  | some v => asDict k val v

def jStrs (l : List String) : Json := Json.arr (l.map Json.str).toArray
def jRat (q : Rat) : Json := Json.str (showRat q)

def jPoly (p : Poly String) : Json :=
  Json.arr (p.terms.map fun t =>
    Json.arr #[Json.arr (t.1.map fun ve => Json.arr #[Json.str ve.1, Json.num (ve.2 : Nat)]).toArray, jRat t.2]).toArray

def showErrC : BuildErr → String
  | .typeError => "TypeError"
  | .valueError => "ValueError"
  | .keyError => "KeyError"
  | .notImplementedError => "NotImplementedError"
  | .attributeError => "AttributeError"
  | .unmodelled => "!unmodelled"

def evalAt (point : Option (List (String × Rat))) (ps : List (Poly String)) : Json :=
  match point with
  | none => Json.null
  | some pt => Json.arr (ps.map fun p => jRat (evalPoly (fun q => q) (fun k => dgetD pt k 0) p)).toArray

def hStep : Handler := fun op j =>
  match op with
  | "build" => do
      let subst ← getStrList j "subst"
      if (dedupKeys subst).length != subst.length then .error "!bad-arg:subst:duplicate-key"
      let rxns ← (← getArr j "rxns").mapM asRxn'
      let sys : Sys := { subst := subst, rxns := rxns }
      let builder ← getStr j "builder"
      let cstr ← getBool j "cstr"
      let pyNums ← getBool j "py_nums"
      let point ← match optField j "point" with
        | none => pure none
        | some v => do pure (some (← asDict "point" asRat v))
      match builder with
      | "get" => do
          let cfg : GCfg := { includeParams := (← getBool j "include_params"), subs := (← asDict "subs" asRat (← field j "subs")),
                              active := (← optDict j "active" asPExpr), consts := (← optDict j "consts" asRat), cstr := cstr, pyNums := pyNums }
          if !(nodupKeys ((subsForMembership cfg))) then .error "!bad-arg:subs/active:duplicate-key"
          match buildRhsG cfg sys with
          | .error e => pure (showErrC e)
          | .ok o =>
            pure (Json.mkObj [("names", jStrs o.names), ("param_names", jStrs o.paramNames), ("param_keys", jStrs o.paramKeys),
              ("unique", Json.arr (o.unique.map fun kv => Json.arr #[Json.str kv.1, match kv.2 with | none => Json.null | some q => jRat q]).toArray),
              ("exprs", Json.arr (o.exprs.map jPoly).toArray), ("rates", Json.arr (o.rateExprs.map jPoly).toArray),
              ("f", evalAt point o.exprs), ("r", evalAt point o.rateExprs)]).compress
      | "create" => do
          let cfg : Cfg' := { cstr := cstr, paramExprs := (← asDict "param_exprs" asRat (← field j "param_exprs")), pyNums := pyNums }
          let substKeys ← match optField j "subst_symbols" with
            | none => pure none
            | some v => do pure (some (← (← asArr v).mapM asStr))
          let paramKeys ← match optField j "param_symbols" with
            | none => pure none
            | some v => do pure (some ((← getBool v "ordered"), (← getStrList v "keys")))
          let plain ← match optField j "subst_symbols_plain" with
            | none => pure none
            | some v => do pure (some (← (← asArr v).mapM asStr))
          match buildRhs'P { cfg := cfg, substKeys := substKeys, paramKeys := paramKeys } plain sys with
          | .error e => pure (showErrC e)
          | .ok o =>
            pure (Json.mkObj [("names", jStrs o.names), ("param_names", jStrs o.paramNames),
              ("exprs", Json.arr (o.exprs.map jPoly).toArray), ("f", evalAt point o.exprs)]).compress
      | _ => .error "!bad-arg:builder"
  | _ => .error "!bad-op"

/-- op "history": {"steps": [build cases …]} — the model is a pure function of the CURRENT public state, so a history of builds over
    mutated objects is the list of independent builds; answer: JSON array of the per-step answers (as strings) -/
def h : Handler := fun op j =>
  match op with
  | "history" => do
      let outs ← (← getArr j "steps").mapM fun s => do
        let sop ← getStr s "op"
        if sop == "history" then .error "!bad-arg:nested-history" else
        match hStep sop s with
        | .ok o => pure o
        | .error e => pure e
      pure (Json.arr (outs.map Json.str).toArray).compress
  | _ => hStep op j

def main : IO Unit := run h
