/-
Driver for C01: one op per modelled function.
  parse  {"s": str}    -> "k:n/d k:n/d ..." (dict insertion order) | exception class name
  parts  {"s": str}    -> JSON [stoich, chg | null, [dropped prefixes], [dropped suffixes]] | exception class name
  parse_with {"s": str, "suffixes": [str], "prefixes"?: [str]} -> formula_to_composition with explicit lists
  charge {"s": str}   -> `_get_charge(s)`: the integer | exception class name
  leading_int {"s": str} -> `_get_leading_integer(s)`: JSON [m, rest]
  render {"ast": ...}  -> the written formula
  denote {"ast": ...}  -> composition of the AST (specification), same text format as `parse`
  roundtrip {"ast": ...} -> render TAB denote TAB parse(render)
  wf     {"ast": ...}  -> true | false
-/
import ChemModel.Basic.Proto
import ChemModel.Driver.FormulaJson
import ChemModel.Model.Formula
open ChemModel.Proto ChemModel.Formula ChemModel.FormulaJson ChemModel.Gen
open Lean (Json)

def str (l : List Char) : Json := Json.str (String.ofList l)

def h : Handler := fun op j =>
  match op with
  | "parse" => do
    match formulaToComposition (← getStr j "s") with
    | .ok c => pure (showComp c)
    | .error e => pure e.pyName
  | "parts" => do
    match formulaToParts prefixesL suffixesL (← getStr j "s").toList with
    | .ok p => pure (Json.arr #[str p.stoich, (match p.chg with | none => Json.null | some c => str c),
        Json.arr (p.droppedPrefixes.map str).toArray, Json.arr (p.droppedSuffixes.map str).toArray]).compress
    | .error e => pure e.pyName
  | "parse_with" => do
    let suffixes := (← getStrList j "suffixes").map String.toList
    let prefixes ← match j.getObjVal? "prefixes" with
      | .ok _ => do pure ((← getStrList j "prefixes").map String.toList)
      | .error _ => pure prefixesL
    match formulaToCompositionWith prefixes suffixes (← getStr j "s").toList with
    | .ok c => pure (showComp c)
    | .error e => pure e.pyName
  | "charge" => do
    match getCharge (← getStr j "s").toList with
    | .ok q => pure (toString q)
    | .error e => pure e.pyName
  | "leading_int" => do
    let r := getLeadingInteger (← getStr j "s").toList
    pure (Json.arr #[Json.num (r.1 : Nat), str r.2]).compress
  | "render" => do pure (← getFormula j "ast").renderStr
  | "denote" => do pure (showComp (← getFormula j "ast").composition)
  | "roundtrip" => do
    let f ← getFormula j "ast"
    let parsed := match formulaToComposition f.renderStr with
      | .ok c => showComp c
      | .error e => e.pyName
    pure (f.renderStr ++ "\t" ++ showComp f.composition ++ "\t" ++ parsed)
  | "wf" => do pure (toString (← getFormula j "ast").wf)
  | _ => .error "!bad-op"

def main : IO Unit := run h
