/-
Driver for C07: one op per modelled function of Model/EqSys.lean.

System encoding: {"substances": [[name, [[key, count], ...], phase_idx], ...],
                  "rxns": [[reac, prod, inact_reac, inact_prod], ...]}   (each dict: [[name, coeff], ...])
Rationals: `[num, den]` or a bare integer (Proto.asRat).
Floats travel as the decimal value of their IEEE-754 bit pattern (exact in both directions):
input `"y": [4607182418800017408, ...]`, output `[bits,bits,...]`.
Errors of the real code are printed as the exception class name.
-/
import ChemModel.Basic.Proto
import ChemModel.Model.EqSys
open ChemModel.Proto ChemModel.EqSys ChemModel Lean

def asDict (v : Json) : Except String Dict := do
  (← asArr v).mapM fun p =>
    match p with
    | .arr #[a, b] => do pure (← asStr a, ← asInt b)
    | _ => .error "!bad-arg:dict"

def asComp (v : Json) : Except String (List (Nat × Int)) := do
  (← asArr v).mapM fun p =>
    match p with
    | .arr #[a, b] => do
        let a ← asInt a
        if a < 0 then .error "!bad-arg:key" else pure (a.toNat, ← asInt b)
    | _ => .error "!bad-arg:comp"

def asSpecies (v : Json) : Except String (String × Species) :=
  match v with
  | .arr #[n, c, p] => do
      let p ← asInt p
      if p < 0 then .error "!bad-arg:phase" else
      pure (← asStr n, { comp := ← asComp c, phaseIdx := p.toNat })
  | _ => .error "!bad-arg:species"

def asRxn (v : Json) : Except String Rxn :=
  match v with
  | .arr #[a, b, c, d] => do
      pure { reac := ← asDict a, prod := ← asDict b, inactReac := ← asDict c, inactProd := ← asDict d }
  | _ => .error "!bad-arg:rxn"

def getSys (j : Json) : Except String EqSystem := do
  let sj ← match j.getObjVal? "sys" with
    | .ok v => pure v
    | _ => .error "!bad-arg:sys"
  let subs ← (← getArr sj "substances").mapM asSpecies
  let rxns ← (← getArr sj "rxns").mapM asRxn
  pure { rxns := rxns, substances := subs }

def asBool (v : Json) : Except String Bool :=
  match v with
  | .bool b => .ok b
  | _ => .error "!bad-arg:bool"

def getBoolList (j : Json) (k : String) : Except String (List Bool) := do
  (← getArr j k).mapM asBool

def asFloatBits (v : Json) : Except String Float := do
  let i ← asInt v
  if i < 0 ∨ i ≥ 18446744073709551616 then .error "!bad-arg:floatbits" else
  pure (Float.ofBits (UInt64.ofNat i.toNat))

def getFloatBitsList (j : Json) (k : String) : Except String (List Float) := do
  (← getArr j k).mapM asFloatBits

def getFloatBits (j : Json) (k : String) : Except String Float :=
  match j.getObjVal? k with
  | .ok v => asFloatBits v
  | _ => .error s!"!bad-arg:{k}"

def showFloatBitsList (l : List Float) : String :=
  "[" ++ ",".intercalate (l.map fun x => toString x.toBits.toNat) ++ "]"

def showIntMat (m : List (List Int)) : String := "[" ++ ",".intercalate (m.map showIntList) ++ "]"

def showRes (r : Except String (List Rat)) : String :=
  match r with
  | .ok l => showRatList l
  | .error e => e

def getReduced (j : Json) (k : String) : Except String (Reduced Float) :=
  match j.getObjVal? k with
  | .ok v => do
      let rows ← (← getArr v "rA").mapM fun r => do (← asArr r).mapM asFloatBits
      let rb ← getFloatBitsList v "rb"
      pure { rA := rows, rb := rb }
  | _ => .error s!"!bad-arg:{k}"

def getReducedRat (j : Json) (k : String) : Except String (Reduced Rat) :=
  match j.getObjVal? k with
  | .ok v => do
      let rows ← (← getArr v "rA").mapM fun r => do (← asArr r).mapM asRat
      let rb ← getRatList v "rb"
      pure { rA := rows, rb := rb }
  | _ => .error s!"!bad-arg:{k}"

def h : Handler := fun op j =>
  match op with
  | "stoichs_constants" => do
      let s ← getSys j
      let prec ← getBoolList j "precipitates"
      let small ← getRat j "small"
      let eqp ← getRatList j "eq_params"
      let rids := nonPrecipRids s prec
      match stoichs s rids with
      | .ok A => pure (showIntMat A ++ "|" ++ showRatList (eqConstants rids eqp small) ++ "|" ++ showNatList rids)
      | .error e => pure e
  | "comp_vectors" => do
      let s ← getSys j
      let (B, ck) := compositionBalanceVectors s
      pure (showIntMat B ++ "|" ++ showNatList ck)
  | "quotients" => do
      let s ← getSys j
      pure (showRes (equilibriumQuotients s (← getRatList j "concs")))
  | "lin_f" => do
      let s ← getSys j
      match j.getObjVal? "own_params" with
      | .ok (.arr _) =>
          pure (showRes (numSysLinOwnF s (← getBoolList j "precipitates") (← getRat j "small") (← getRatList j "own_params")
            (← getRatList j "y") (← getRatList j "params")))
      | _ =>
      pure (showRes (numSysLinF s (← getBoolList j "precipitates") (← getRat j "small")
        (← getRatList j "y") (← getRatList j "params")))
  | "square_f" => do
      let s ← getSys j
      match j.getObjVal? "own_params" with
      | .ok (.arr _) =>
          pure (showRes (numSysSquareOwnF s (← getBoolList j "precipitates") (← getRat j "small") (← getRatList j "own_params")
            (← getRatList j "y") (← getRatList j "params")))
      | _ =>
      pure (showRes (numSysSquareF s (← getBoolList j "precipitates") (← getRat j "small")
        (← getRatList j "y") (← getRatList j "params")))
  | "linrel_f" => do
      let s ← getSys j
      match j.getObjVal? "own_params" with
      | .ok (.arr _) =>
          pure (showRes (numSysLinRelOwnF s (← getBoolList j "precipitates") (← getRat j "small") (← getRatList j "own_params")
            (← getRatList j "y") (← getRatList j "params")))
      | _ =>
      pure (showRes (numSysLinRelF s (← getBoolList j "precipitates") (← getRat j "small")
        (← getRatList j "y") (← getRatList j "params")))
  | "upper_bounds" => do
      let s ← getSys j
      pure (showRes (upperConcBounds s (← getRatList j "init")))
  | "log_f" => do
      let s ← getSys j
      let r ← match j.getObjVal? "own_params" with
        | .ok (.arr _) => pure (numSysLogOwnF s (← getBoolList j "precipitates") (← getFloatBits j "small")
            (← getFloatBitsList j "own_params") (← getFloatBitsList j "y") (← getFloatBitsList j "params"))
        | _ => pure (numSysLogF s (← getBoolList j "precipitates") (← getFloatBits j "small")
            (← getFloatBitsList j "y") (← getFloatBitsList j "params"))
      match r with
      | .ok l => pure (showFloatBitsList l)
      | .error e => pure e
  | "conservation" => do
      let s ← getSys j
      let (ck, a, b) := compositionConservation s (← getRatList j "concs") (← getRatList j "init")
      pure (showNatList ck ++ "|" ++ showRatList a ++ "|" ++ showRatList b)
  | "precipitate_stoich" => do
      let s ← getSys j
      let ri ← getNat j "ri"
      match s.rxns[ri]? with
      | none => pure "IndexError"
      | some r =>
        match precipitateStoich r s.substances with
        | .ok (net, v, i) => pure (showIntList net ++ "|" ++ toString v ++ "|" ++ toString i)
        | .error e => pure e
  | "phase_transfer_idxs" => do
      let s ← getSys j
      pure (showNatList (phaseTransferReactionIdxs s))
  | "multi" => do
      -- the structural functions of one system on one line, fields separated by ";;"
      let s ← getSys j
      let (B, ck) := compositionBalanceVectors s
      let ps := s.rxns.map fun r =>
        match precipitateStoich r s.substances with
        | .ok (net, v, i) => showIntList net ++ "|" ++ toString v ++ "|" ++ toString i
        | .error e => e
      let base := [showIntMat B ++ "|" ++ showNatList ck, showNatList (phaseTransferReactionIdxs s)] ++ ps
      match j.getObjVal? "concs" with
      | .ok (.arr _) =>
          let concs ← getRatList j "concs"
          let init ← getRatList j "init"
          let (ck2, a, b) := compositionConservation s concs init
          pure (";;".intercalate (base ++ [showRes (equilibriumQuotients s concs),
            showNatList ck2 ++ "|" ++ showRatList a ++ "|" ++ showRatList b,
            showRes (upperConcBounds s init)]))
      | _ => pure (";;".intercalate base)
  | "preserv_cert" => do
      -- the model's decidable check of the reducer hypothesis for the conservation block (weights P, L from the harness)
      let s ← getSys j
      let c0 ← getRatList j "init"
      let getMat := fun (k : String) => do (← getArr j k).mapM fun r => do (← asArr r).mapM asRat
      let P ← getMat "P"
      let L ← getMat "L"
      let red ← getReducedRat j "redP"
      pure (toString (preservCert s c0 P L red))
  | "equil_cert" => do
      -- decidable check of the reducer hypothesis for the equilibrium block in log coordinates (weights from the harness)
      let s ← getSys j
      let m ← getNat j "m"
      let getMat := fun (k : String) => do (← getArr j k).mapM fun r => do (← asArr r).mapM asRat
      match j.getObjVal? "primes" with
      | .ok (.arr _) =>
          -- full certificate: also K_i = ∏ p_k^E_ik for the positive integer bases `primes`
          let ps ← (← getIntList j "primes").mapM fun i => if i < 0 then .error "!bad-arg:primes" else pure i.toNat
          let Eint ← (← getArr j "Eint").mapM fun r => do (← asArr r).mapM asInt
          pure (toString (equilCertFull s ps Eint (← getRatList j "ks") (← getMat "P") (← getMat "L") (← getMat "A2") (← getMat "E2")))
      | _ =>
      pure (toString (equilCertSys s m (← getMat "P") (← getMat "L") (← getMat "E") (← getMat "A2") (← getMat "E2")))
  | "rp_f" => do
      -- Lin / Square with rref_equil = False and either rref_preserv: exact over ℚ
      let s ← getSys j
      let form ← getStr j "form"
      let prec ← getBoolList j "precipitates"
      let small ← getRat j "small"
      let rp ← getBool j "rref_preserv"
      let redP ← getReducedRat j "redP"
      let y ← getRatList j "y"
      let p ← getRatList j "params"
      match form with
      | "lin" => pure (showRes (numSysLinRpF s prec small rp redP y p))
      | "square" => pure (showRes (numSysSquareRpF s prec small rp redP y p))
      | _ => .error "!bad-arg:form"
  | "cfg_f" => do
      -- every formulation in every (rref_equil, rref_preserv) configuration, Float; the reducer outputs are inputs
      let s ← getSys j
      let form ← getStr j "form"
      let prec ← getBoolList j "precipitates"
      let small ← getFloatBits j "small"
      let re ← getBool j "rref_equil"
      let rp ← getBool j "rref_preserv"
      let redE ← getReduced j "redE"
      let redP ← getReduced j "redP"
      let y ← getFloatBitsList j "y"
      let p ← getFloatBitsList j "params"
      let r ← match form with
        | "lin" => pure (numSysLinCfgF s prec small re rp redE redP y p)
        | "square" => pure (numSysSquareCfgF s prec small re rp redE redP y p)
        | "linrel" => pure (numSysLinRelCfgF s prec small re rp redE redP y p)
        | "log" => pure (numSysLogCfgF s prec small re rp redE redP y p)
        | _ => .error "!bad-arg:form"
      match r with
      | .ok l => pure (showFloatBitsList l)
      | .error e => pure e
  | "pre_post" => do
      -- change of variables of a formulation: "dir" = "pre" | "post"; Float
      let s ← getSys j
      let form ← getStr j "form"
      let dir ← getStr j "dir"
      let x ← getFloatBitsList j "x"
      let small ← getFloatBits j "small"
      let p ← getFloatBitsList j "params"
      match form, dir with
      | "square", "pre" => pure (showFloatBitsList (squarePre x))
      | "square", "post" => pure (showFloatBitsList (squarePost x))
      | "log", "pre" => pure (showFloatBitsList (logPre small x))
      | "log", "post" => pure (showFloatBitsList (logPost x))
      | "linrel", d =>
          match upperConcBounds s (initConcsOf s p) with
          | .error e => pure e
          | .ok m =>
            if d == "pre" then pure (showFloatBitsList (linRelPre m x))
            else if d == "post" then pure (showFloatBitsList (linRelPost m x))
            else .error "!bad-arg:dir"
      | _, _ => .error "!bad-arg:form"
  | "quotients2d" => do
      let s ← getSys j
      let rows ← (← getArr j "rows").mapM fun r => do (← asArr r).mapM asRat
      match equilibriumQuotients2d s rows with
      | .ok m => pure ("[" ++ ",".intercalate (m.map showRatList) ++ "]")
      | .error e => pure e
  | "composition_keys" => do
      let s ← getSys j
      let skip ← (← getIntList j "skip").mapM fun i => if i < 0 then .error "!bad-arg:skip" else pure i.toNat
      pure (showNatList (compositionKeysSkip (s.substances.map (·.2)) skip))
  | "stoichs_constants_default" => do
      let s ← getSys j
      match stoichsConstantsDefault s (← getRatList j "rxn_params") with
      | .ok (A, ks) => pure (showIntMat A ++ "|" ++ showRatList ks)
      | .error e => pure e
  | "solver_params" => do
      pure (showRatList (solverParams (← getRatList j "init") (← getRatList j "rxn_params")))
  | _ => .error "!bad-op"

def main : IO Unit := run h
