import ChemModel.Basic.Proto
open ChemModel.Proto
def h : Handler := fun op j =>
  match op with
  | "addrat" => do
      let a ← getRat j "a"; let b ← getRat j "b"; pure (showRat (a + b))
  | _ => .error "!bad-op"
def main : IO Unit := run h
