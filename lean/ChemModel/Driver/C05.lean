/-
Driver for C05: composition violation, balance check, composition balance vectors, violation helpers and the
analytic elimination formula / choice loop of `linear_dependencies`.
-/
import ChemModel.Driver.KineticsIO
open ChemModel.Proto ChemModel.Kinetics ChemModel.KineticsIO Lean

def showBalance (throw : Bool) : BalanceResult String Rat → String
  | .ok => "True"
  | .noComposition s => if throw then s!"ValueError:no-composition:{s}" else "False"
  | .violation idx k n => if throw then s!"ValueError:violation:{idx}:{k}:{showRat n}" else "False"
  | .raised e => showErr e

def getOptIntList (j : Json) (k : String) : Except String (Option (List Int)) :=
  match j.getObjVal? k with
  | .ok .null => pure none
  | .ok (.arr a) => do pure (some (← a.toList.mapM asInt))
  | _ => .error s!"!bad-arg:{k}"

def fnOf (l : List Rat) : Nat → Rat := fun i => l.getD i 0
def fnOfS (l : List String) : Nat → String := fun i => l.getD i ""

def hStep : Handler := fun op j =>
  match op with
  | "composition_keys" => do
      match ← getOptIntList j "skip" with
      | none => pure (showIntList (compositionKeys (← getSubs j "subs")))
      | some skip => pure (showIntList (compositionKeysSkipping skip (← getSubs j "subs")))
  | "parse_refusal" => do
      pure (parseRefusal (← getStrList j "keys") (← getStr j "line"))
  | "comp_violation" => do
      let r ← asRxn (← field j "rxn")
      match compositionViolation r (← getSubs j "subs") (← getOptIntList j "ckeys") with
      | .error e => pure (showErr e)
      | .ok (net, ck) => pure (showRatList net ++ ";" ++ showIntList ck)
  | "check_balance" => do
      let rs ← getRxns j "rxns"
      pure (showBalance (← getBool j "throw") (checkBalance (← getSubs j "subs") rs (← getBool j "strict")))
  | "check_balance_terms" => do
      -- reactions written as strings with (possibly repeated) terms
      let rs ← (← getArr j "rxns_terms").mapM asRxnTerms
      pure (showBalance (← getBool j "throw") (checkBalance (← getSubs j "subs") rs (← getBool j "strict")))
  | "construct" => do
      -- constructor with the selected checks; `dup_ok` = outcome of the selected ones of check_duplicate / check_duplicate_names
      let rs ← getRxns j "rxns"
      let doB := match j.getObjVal? "do_balance" with | .ok (.bool b) => b | _ => true
      let doK := match j.getObjVal? "do_keys" with | .ok (.bool b) => b | _ => true
      pure (if constructorChecks doB doK (← getSubs j "subs") rs (← getBool j "dup_ok") then "True" else "ValueError")
  | "balance_vectors" => do
      match compositionBalanceVectors (← getSubs j "subs") with
      | .error e => pure (showErr e)
      | .ok (rows, ck) => pure (showRatMtx rows ++ ";" ++ showIntList ck)
  | "attr_violation" => do
      let r ← asRxn (← field j "rxn")
      pure (showRat (attrViolation r (← getVars j "attrs")))
  | "elim_full" => do
      -- rows: the reduced matrix from sympy's rref (all rows), npiv = len(pivots)
      let rows ← (← getArr j "rows").mapM fun r => do (← asArr r).mapM asRat
      let npiv ← getNat j "npiv"
      let names ← getStrList j "names"
      let pref ← getOptKeys j "preferred"
      let y0 ← getRatList j "y0"
      let y ← getRatList j "y"
      let ny := names.length
      let m := rows.length
      if npiv > m ∨ rows.any (fun r => r.length ≠ ny) ∨ y0.length ≠ ny ∨ y.length ≠ ny then .error "!bad-arg:shape" else
      if !(checkPreferred pref names) then pure "[];ValueError;" else
      let (M, cs, left) := elimPlan m ny (fnOfS names) npiv rows pref
      let chosen := "[" ++ ",".intercalate (cs.map fun c => s!"[{c.1},{c.2}]") ++ "]"
      match left with
      | some (_ :: _) => pure (chosen ++ ";ValueError;")
      | _ =>
        let vals := cs.map fun c => elimExpr (entry M c.1) (fnOf y0) (fnOf y) ny c.2
        pure (chosen ++ ";ok;" ++ showRatList vals)
  | _ => .error "!bad-op"

/-- `history`: a list of steps, each a complete op on the state current at that step.  The model has no hidden state: a
    history is replayed by evaluating the pure function of every step; the outputs are joined with " | ". -/
def h : Handler := fun op j =>
  match op with
  | "history" => do
      let outs ← (← getArr j "steps").mapM fun s => do
        let sop ← getStr s "op"
        if sop == "history" then .error "!bad-arg:nested-history" else
        match hStep sop s with
        | .ok o => pure o
        | .error e => pure e
      pure (" | ".intercalate outs)
  | _ => hStep op j

def main : IO Unit := run h
