import ChemModel.Basic.Proto
import ChemModel.Model.NumFmt
import ChemModel.Model.NumFmtFloat
open ChemModel.Proto ChemModel.NumFmt Lean

def str (s : List Char) : String := String.ofList s

def showRes : Res → String
  | .ok s => str s
  | .error e => e

/-- optional argument: absent or JSON null → none -/
def optArg (j : Json) (k : String) (get : Json → Except String α) : Except String (Option α) :=
  match j.getObjVal? k with
  | .ok .null => pure none
  | .ok v => do pure (some (← get v))
  | .error _ => pure none

def asNat (v : Json) : Except String Nat := do
  let i ← asInt v
  if i < 0 then .error "!bad-arg:nat" else pure i.toNat

def asChars (v : Json) : Except String (List Char) := do pure (← asStr v).toList

def getFmt (j : Json) : Except String Fmt := do
  match ← getStr j "fmt" with
  | "latex" => pure .latex
  | "unicode" => pure .unicode
  | "html" => pure .html
  | _ => .error "!bad-arg:fmt"

def getPrinter (j : Json) : Except String Printer := do
  match ← getStr j "printer" with
  | "str" => pure .str
  | "latex" => pure .latex
  | "unicode" => pure .unicode
  | "html" => pure .html
  | _ => .error "!bad-arg:printer"

def getParam (j : Json) : Except String (Option Param) := do
  match j.getObjVal? "param" with
  | .ok .null => pure none
  | .error _ => .error "!bad-arg:param"
  | .ok p =>
    match ← getStr p "kind" with
    | "quantity" => do pure (some (.quantity (← getRat p "mag") (← getStr p "unit").toList))
    | "float" => do pure (some (.float (← getRat p "x")))
    | "other" => do pure (some (.other (← getStr p "text").toList))
    | _ => .error "!bad-arg:param.kind"

def getBits (j : Json) (k : String) : Except String Float := do
  let n ← getNat j k
  if n < 2 ^ 64 then pure (Float.ofBits (UInt64.ofNat n)) else .error s!"!bad-arg:{k}"

/-- mode "exact": the ℚ model (what the theorems are about); "float": the float-faithful mirror;
    "both": `exact ++ U+001F ++ float` -/
def byMode (j : Json) (exact : Except String Res) (flt : Except String Res) : Except String String := do
  match ← getStr j "mode" with
  | "exact" => do pure (showRes (← exact))
  | "float" => do pure (showRes (← flt))
  | "both" => do pure (showRes (← exact) ++ "\x1f" ++ showRes (← flt))
  | _ => .error "!bad-arg:mode"

def getCell (v : Json) : Except String Cell := do
  pure { mag := ← getRat v "mag", unit := ← optArg v "unit" asChars }

def getContainer (j : Json) : Except String Container := do
  match ← getStr j "kind" with
  | "keyed" => do
      pure (.keyed (← (← getArr j "entries").mapM fun e => do pure ((← getStr e "key").toList, ← getCell e)))
  | "positional" => do pure (.positional (← (← getArr j "entries").mapM getCell))
  | _ => .error "!bad-arg:kind"

def h : Handler := fun op j =>
  match op with
  | "fmt_g" => do pure (str (fmtG (← getNat j "p") (← getRat j "x")))
  | "number_to_x" => do
      pure (showRes (numberToX (← getFmt j) (← optArg j "p" asNat) (← getRat j "x") (← optArg j "unit" asChars)))
  | "number_to_x_uncert" =>
      byMode j
        (do pure (numberToXUncert (← getFmt j) (← optArg j "p" asInt) (← getRat j "x") (← getRat j "xe")
              (← optArg j "unit" asChars)))
        (do pure (F.numberToXUncertF (← getFmt j) (← optArg j "p" asInt) (← getBits j "xb") (← getBits j "xeb")
              (← optArg j "unit" asChars)))
  | "float_str_w_uncert" =>
      byMode j
        (do pure (floatStrWUncert (← getRat j "x") (← getRat j "xe") (← getInt j "p")))
        (do pure (F.floatStrWUncertF (← getBits j "xb") (← getBits j "xeb") (← getInt j "p")))
  | "roman" => do
      if ChemModel.Gen.PrintingNumbers.romanValues.any (· == 0) then pure "ZeroDivisionError" else
      pure (str (roman (← getNat j "n")))
  | "html_table" => do
      let subs ← (← getArr j "substances").mapM fun e => do pure ((← getStr e "key").toList, (← getStr e "name").toList)
      pure ((showRes (perSubstanceTable subs (← getContainer j) (← getStr j "header").toList)).replace "\n" "\\n")
  | "number_to_x_any" => do
      pure (showRes (numberToXAny (← getFmt j) (← optArg j "p" asInt) (← getRat j "x") (← optArg j "explicit" asRat)
        (← optArg j "carried" asRat) (← optArg j "unit" asChars)))
  | "number_to_x_cb" => do
      pure (showRes (numberToXCallback (← getFmt j) (← getStr j "text").toList (← optArg j "unit" asChars)))
  | "pow_ten" => do
      pure (showRes (powTen (← getFmt j) (← getStr j "significand").toList (← getStr j "mantissa").toList))
  | "param_str" => do
      match ← getParam j with
      | some p => pure (showRes (reactionParamStr (← getPrinter j) p))
      | none => .error "!bad-arg:param"
  | "reaction_line" => do
      pure (showRes (reactionLine (← getPrinter j) (← getStr j "rxn").toList (← getParam j) (← optArg j "name" asChars)))
  | _ => .error "!bad-op"

def main : IO Unit := run h
