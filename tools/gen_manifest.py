#!/usr/bin/env python3
"""Writes /verif/MANIFEST.json from the table below (one entry per claimed property)."""
import json, os

VERIF = os.path.dirname(os.path.dirname(os.path.abspath(__file__)))
TB = ("Trusted base: Lean 4.33 kernel (+ leanchecker in the thorough tier), axioms propext / Classical.choice / Quot.sound only "
      "(audited per theorem on every run; no sorry, native_decide, bv_decide or own axioms), Mathlib as a library of checked lemmas; "
      "the extractor tools/extract (source text -> Gen/*.lean) and the correspondence harness (generators, canonicalisers, tolerances); "
      "the hand-written reading of Python semantics in the Model files. ")

P = {
 'C01': dict(
  text="Theorems over an executable model of formula_to_composition (recursive-descent model of the pyparsing grammar, prefix/suffix/charge/hydrate handling) and a formula AST specification: for every well-formed formula AST of unbounded nesting and length, parsing its rendering yields exactly the AST's denotation (per-element sum of products of enclosing multipliers, key 0 = charge, no other keys); the element regex table (regenerated from parsing.py on every run) is complete and sound for the 118 symbols; the listed ill-formed classes are rejected. The model is tied to the code by the regenerated regex/prefix/suffix tables and by an exact differential run against the real parser (all 118 symbols, adjacency sweep, nested groups, hydrates, decimals, charges, malformed stream).",
  note=TB + "pyparsing's matching engine and `re` are modelled (ordered alternation, whitespace skipping, parse actions), not verified; decimal counts compare exact model vs float within 1e-12; non-ASCII digits and '_'/blanks in the charge number are outside the model.",
  technique="Lean 4 proof (structural induction over formula ASTs) + regenerated regex tables + differential correspondence", ref="8 C01, 12"),
 'C02': dict(
  text="The solver core (sympy linsolve, CBC) is a parameter; chempy's own gate around it is modelled exactly and proved sound for every rational matrix and EVERY candidate vector the solver might return: an accepted answer is integral, balances every composition key, is strictly positive, jointly coprime and has one entry per species (gate_sound); if no positive vector balances, no answer is returned; on a single ray the answer is the unique minimal vector; a proved certificate checker (minimalBySearch_sound) certifies per instance that the ILP answer has minimal coefficient sum. Correspondence: honest calls in all three modes on planted instances plus injected solver candidates exercising every gate branch; matrix construction and duplicate search compared exactly.",
  note=TB + "Partial: that CBC finds a minimum and that linsolve's parametric answer balances identically are validated per instance (proved checker / substitution), not proved for all inputs; sympy's polynomial gcd on symbolic candidates is not modelled (gate_sound_symbolic_partial); single-ray-ness of generated instances rests on the harness's exact rank computation.",
  technique="Lean 4 proof of the gate for all solver outputs + proved certificate checker + differential correspondence", ref="8 C02, 12"),
 'C03': dict(
  text="Theorems over any commutative ring about an executable model of Reaction.rate, MassAction, ReactionSystem.rates (dict accumulation incl. key set and CSTR feed term) and the array path (law_of_mass_action_rates, dCdt_list, stoichiometry matrices): each contribution is (prod-reac+inact_prod-inact_reac)*k*prod(c^nu over active reactants), inactive parts never enter the product, absent substances get zero, the system rate is the sum over reactions (+F*(c_feed-c)), invariant under every permutation of the reaction list, and the array path equals the dict path. Exact correspondence with Fractions/ints/sympy.Rational on generated systems (repeated species, catalysts, inactive parts, non-participating substances, CSTR) and call histories.",
  note=TB + "Rate parameters are plain numbers; float associativity is not modelled (exact arithmetic only); Reaction.keys() is a Python set so results with substance_keys=None are compared as mappings.",
  technique="Lean 4 proof (induction over reaction lists, any CommRing) + exact differential correspondence", ref="8 C03, 12"),
 'C04': dict(
  text="Theorems over a polynomial normal-form model of get_odesys / _create_odesys plumbing: the built right-hand side evaluates to N^T r (C03's closed form), one expression per substance in substance order; binding exposed parameters or applying substitutions commutes with evaluation; both builders agree; exposed names are exactly the registered unique keys. Tie = translation validation: for every generated system and build configuration the real odesys.exprs are canonicalised with sympy.Poly and compared exactly with the model's normal form, names/param_names likewise.",
  note=TB + "pyodesys and sympy are third-party (sympy.Poly is used as canonicaliser); non-polynomial rate expressions are covered by C16; rate constants are exact rationals.",
  technique="Lean 4 proof over polynomial normal forms + per-system translation validation", ref="8 C04, 12"),
 'C05': dict(
  text="Theorems about the model of check_balance / composition_violation / composition_balance_vectors and the analytic linear-dependency solver: with compositions everywhere, a system is accepted iff every reaction conserves every composition key, otherwise the error names a genuinely violated key; for every accepted system every composition row is an exact invariant of the kinetic right-hand side for ALL concentration vectors in any commutative ring; every offered elimination reproduces its row and never refers to an eliminated concentration. Exact correspondence on balanced reactions and reactions unbalanced in exactly one key (each element, charge only), balance vectors, linear invariants, eliminations, and call histories (sorting, in-place edits).",
  note=TB + "Partial: 'numerical integration keeps the invariants to solver tolerance' is runtime behaviour of the delegated integrator (sampled by C06, not proved); sympy's rref is delegated (coverage of all rows for preferred=None is a hypothesis).",
  technique="Lean 4 proof (any CommRing) + exact differential correspondence incl. histories", ref="8 C05, 12"),
 'C06': dict(
  text="Proved logic behind admissibility: the advertised explicit-Euler step keeps every concentration inside [0, elemental upper bound] (model of max_euler_step_cb), elemental upper bounds are valid for every non-negative state with the same totals, mass-action right-hand sides are quasi-positive (c>=0, c_s=0 => rhs_s>=0), first-order networks are linear with non-negative off-diagonals; closed forms are C17's theorems. Correspondence for the Euler-step callback and bounds; sampled integrations (first-order networks vs matrix exponential, bimolecular steps vs closed forms, bounds along trajectories) feed the oracle.",
  note=TB + "PARTIAL by nature: accuracy of the delegated adaptive integrator (pyodesys/scipy/cvode) to the requested tolerance cannot be exhibited by a theorem; it is sampled (exploration) and reported as such in the evidence.",
  technique="Lean 4 proof of chempy's own logic + differential correspondence + sampled integrations (exploration, labelled)", ref="8 C06, 9, 12"),
 'C07': dict(
  text="Theorems over R for every system size about the model of NumSysLin/Square/LinRel/Log residuals (rref options off): all entries vanish iff every mass-action quotient equals its constant and every composition total equals the initial one (lin/square/linrel/log_zero_iff), reaction extents preserve totals, equation count = reactions + composition keys, row operations preserve the zero set. Exact correspondence (Fractions / sympy.Rational) at constructed equilibrium states and perturbed states; Log formulation to 1e-9.",
  note=TB + "Partial: rref_equil / rref_preserv=True go through sympy's rref (external) and are validated per instance by the oracle only; NumSysLinTanh is dead code that raises TypeError (open known finding).",
  technique="Lean 4 proof (Mathlib real analysis: exp/log) + exact differential correspondence", ref="8 C07, 12"),
 'C08': dict(
  text="Proved logic chempy contributes to 'success => genuine': the sanity check accepts exactly non-negative vectors within the elemental bounds (sane_spec) and never rejects a genuine composition; dissolved() conserves invariants and removes the solid; precipitation switch conditions mean what they say; the scalar solver's bracket keeps concentrations non-negative and its residual vanishes iff Q = K. Exact correspondence on crafted vectors. The oracle additionally samples real solver runs over pools of acid/base/complexation and single-salt systems under each solver chain and checks every run that reports success and sane against the defining equations, plus success rates of the default chains.",
  note=TB + "PARTIAL by nature: convergence of pyneqsys/scipy, the meaning of `success`, the >=19/20 success rate and agreement with brentq are runtime behaviour, sampled not proved. Open known finding: chains ending in NumSysLin/NumSysSquare can report success at a non-root (scipy lm).",
  technique="Lean 4 proof of chempy's own logic + differential correspondence + sampled solver runs (exploration, labelled)", ref="8 C08, 9, 12"),
 'C09': dict(
  text="Theorems for every field about the model of chempy.units on top of a (factor, exponent-vector) model of `quantities`: to_unitless returns mag*factor(q)/factor(u) iff the dimensions agree and refuses otherwise; round trip, composition, linearity, element-wise on containers; default unit/magnitude in EVERY base-unit registry reproduce the quantity; every derived unit of the (extracted) table has the dimension it names; human-readable round trip; unit-aware helpers equal the plain routine on magnitudes in a common unit. Correspondence over the lattice of products of powers of base/prefixed/chempy units, compatible and one-off incompatible targets, random registries (1e-12).",
  note=TB + "`quantities` is modelled as magnitude x (factor, integer exponent vector), never verified; float rounding not modelled; np.polyfit is a parameter; a few helper homogeneity statements are covered by correspondence and oracle only (listed in notes/C09.md).",
  technique="Lean 4 proof over a unit algebra model + extracted unit tables + differential correspondence", ref="8 C09, 12"),
 'C10': dict(
  text="Theorems over the units model: the extracted args_dimensionality of MassAction equals concentration^(1-order)/time for ALL integer orders; a unit-carrying rate constant is accepted iff its dimension vector is that one whatever its factor; an accepted equilibrium constant has dimension concentration^(products-reactants); for every registry and every choice of units the physical rate from the de-dimensionalised system equals the hand computation in one fixed unit set; output rescaling and reported parameter units invert the input conversion. Correspondence over orders 0-3, units s/min/h/ms x M/mM/uM/mol m-3/mol cm-3, wrong dimensions, random registries.",
  note=TB + "`quantities` and pyodesys are modelled/third-party; float tolerance 1e-10.",
  technique="Lean 4 proof (zpow algebra over registries) + extracted dimension tables + differential correspondence", ref="8 C10, 12"),
 'C11': dict(
  text="Theorems over any field about the model of Equilibrium arithmetic: net stoichiometry and constant of n*e, e1+e2, e1-e2; by induction over EVERY expression tree of scale/negate/add/subtract the result's net stoichiometry is the integer combination of the operands' and K is the product of K_i^n_i; sums/differences are in netted form with positive coefficients; eliminate returns non-zero integer multipliers whose combination is free of the species (incl. +-1 coefficients); intdiv, cancel, as_reactions specs. Exact correspondence on random operation histories and the full (-12..12)^2 coefficient sweep.",
  note=TB + "K is an exact rational or a sympy symbol (compared at prime evaluation points); sympy.primefactors modelled by its result and tied by correspondence; operands without inactive parts, as the property states.",
  technique="Lean 4 proof (induction over expression trees) + exact differential correspondence", ref="8 C11, 12"),
 'C12': dict(
  text="Theorems about the model of to_reaction / _parse_multiplicity / _is_inactive_term / the string printer: every written reaction (any number of terms, X / n X / n * X forms, repeated keys, inactive (n X) groups, every admissible space-free key incl. bracket-leading ones) parses to exactly the written keys with summed coefficients on the written side; unknown keys are rejected; print then parse is the identity for reactions without inactive groups; copy equals original; system lines are read in order skipping comments/blanks. Separators and arrows are regenerated from the printing sources on every run. Exact string/structure correspondence with keys drawn from the formula generator.",
  note=TB + "`eval` of the parameter and keyword parts is not modelled (parameter kept as text; %.3g is C20's); numeric tokens beyond 15 digits are skipped as unmodelled.",
  technique="Lean 4 proof (string-splitting lemmas, induction over term lists) + regenerated printer tables + exact correspondence", ref="8 C12, 12"),
 'C13': dict(
  text="Theorems about the model of _formula_to_format instantiated with the three regenerated parameter sets (LaTeX, Unicode, HTML): undoing exactly the presentation mapping gives back the rendered formula up to the documented presentation-only normalisations, for every well-formed formula AST; counts become subscripts, the charge one superscript (magnitude then sign, 1 omitted), prefixes map to their symbols, suffixes/brackets verbatim; phase index from the suffix; reaction printers show coefficient (omitted iff 1), name and arrow in stored order. Exact string correspondence for the three functions, Substance/Species attributes and reaction printers.",
  note=TB + "`re.sub` digit-run substitution is modelled by a scanner; tables (greek, sub/superscripts, templates) are regenerated from the source on every run.",
  technique="Lean 4 proof (induction over formula ASTs) + regenerated tables + exact correspondence", ref="8 C13, 12"),
 'C14': dict(
  text="Theorems about the model of mass_from_composition / atomic_number / mass_fractions over the element table regenerated from periodic.py on every run: the table equals the embedded IUPAC reference row by row (decide +kernel); mass = sum count*weight - charge*m_e for every composition; additive over per-key sums, scales with multipliers, an ion differs from its parent by exactly the electron masses; symbol/name lookup is inverse to the table in any ASCII case, and sound; mass fractions are proportional, sum to one and are positive. Correspondence through Substance.from_formula on generated formulas (all 118 elements); the oracle uses the reference table, not the repository's.",
  note=TB + "The reference IUPAC table (Props/C14.lean, tools/harness/ref_iupac.json) and the 4-digit electron mass are part of the specification; Python float summation is compared with the exact model to 1e-12; ASCII names only.",
  technique="Lean 4 proof + table regenerated from source (decide +kernel) + differential correspondence", ref="8 C14, 12"),
 'C15': dict(
  text="Theorems about the model of ReactionSystem structure queries: split (exact control flow, proved terminating) partitions the reactions, yields pairwise disjoint substance sets, each group connected, one group per connected component, independent of reaction order; categorize_substances returns exactly the four categories per definition; identify_equilibria, participation, per-reaction effect, subset, add/+=, concatenate, constructor ordering, array<->dict round trips; the elemental upper bound is the least of total/atoms and no non-negative state with the same totals exceeds it. Exact correspondence on random graphs and operation histories.",
  note=TB + "Plain Reaction objects; check_balance and decompose_yields not modelled here; Python sets modelled as lists up to membership.",
  technique="Lean 4 proof (graph reachability invariants, induction) + exact differential correspondence incl. histories", ref="8 C15, 12"),
 'C16': dict(
  text="Theorems over a deep embedding of chempy's expression trees (operators with their short-cut branches, argument resolution, Poly/Piecewise, MassAction, Arrhenius, Eyring, Radiolytic, ...): every tree evaluates to its arithmetic meaning (induction), evaluation commutes with every homomorphism of number structures (backend naturality: floats / unit magnitudes / symbolic-then-substituted), a named override replaces exactly that argument, Arrhenius/Eyring equal their formulas over R and from_rateconst round-trips. Correspondence under math, numpy, sympy and units backends (1e-9; exact for rational trees).",
  note=TB + "Linearised fits use numpy least squares (exploration only); Float approximates R within the stated tolerance.",
  technique="Lean 4 proof (induction over expression trees, naturality) + differential correspondence across backends", ref="8 C16, 12"),
 'C17': dict(
  text="All seven closed forms of kinetics/integrated.py are TRANSLATED from the source on every run (tools/extract/pyfn2lean.py) into number-generic Lean definitions; over R, for all parameters under explicit non-degeneracy hypotheses and all t, each satisfies the rate equation of its documented mechanism (HasDerivAt) and takes the stated initial value at t=0 (19 theorems incl. binary_rev and both CSTR forms). A change to the Python algebra changes the generated text and breaks a derivative proof. Correspondence of the Float instantiation with the numpy, math and sympy backends at random points; the oracle differentiates the sympy-backend expression and checks ODE residual and initial value at 100 digits.",
  note=TB + "The translator's Python subset and Float-approximates-R (1e-9) are trusted. Open known finding: binary_irrev_cstr returns nan when r exceeds the steady state (2kr^2+fv*r >= fv*fr), proved to be exactly the artanh domain.",
  technique="Lean 4 proof (Mathlib HasDerivAt) over a model regenerated from source by a translator + differential correspondence", ref="8 C17, 12"),
 'C18': dict(
  text="A, B and the three log-gamma functions are translated from electrolytes.py on every run; over R: ionic strength = 1/2 sum b z^2, permutation/merge invariance, linear scaling, exact characterisation of the neutrality warning; both code paths of A and of B have the same functional form on the positive orthant and their constants agree to 1e-14 (with Mathlib's pi bounds); unit-system invariance; limiting/extended/Davies equal their formulas, extended tends to limiting as a->0 and is zero at zero ionic strength; activity products are the weighted exponentials. Correspondence with/without units and constants objects (1e-9), exact for Fractions.",
  note=TB + "Physical constants are the doubles of the installed `quantities` (re-checked each run); `quantities` unit algebra modelled as multiplication by unit magnitudes.",
  technique="Lean 4 proof (Mathlib analysis) over translated functions + differential correspondence", ref="8 C18, 12"),
 'C19': dict(
  text="Each correlation/relation is translated from the source on every run in both its units=None and its units branch; over R with arbitrary non-zero unit scale factors the unit-mode value equals the plain value times the unit (value and dimensional homogeneity) for density, viscosity, diffusivity, permittivity, sulfuric acid, salting-out, Henry, Nernst, mobility; warning iff outside the documented range; published anchors; water density has its unique maximum in (3.9, 4.1) C; viscosity strictly decreasing; Henry inverse, van 't Hoff, Nernst, Einstein relation, density_from_concentration fixed point. Correspondence on dense grids in unitless, default-unit and scaled-unit modes incl. foreign temperature units (1e-9).",
  note=TB + "Translator trusted; hand models of the table-driven functions tied by correspondence and pins; reference ranges and published coefficients embedded in Props/C19.lean; some anchors/shape facts are oracle-only (notes/C19.md).",
  technique="Lean 4 proof over functions translated from source + quantity-algebra model + differential correspondence", ref="8 C19, 12"),
 'C20': dict(
  text="Theorems about an exact-rational model of CPython's %.{p}g (round-half-even to p significant digits, layout choice), of number_to_scientific_{latex,unicode,html}, _float_str_w_uncert, roman and the reaction parameter string: the decimal record denotes the value to p significant digits incl. carries; fixed vs exponent layout exactly when -4 <= e < p; significand omitted iff exactly 1; roman numerals denote n for ALL n (and an independent subtractive reader returns n for 1..3999). Exact STRING correspondence with the real functions for floats (sent as exact ratios) over +-300 decades and precisions 1-10.",
  note=TB + "CPython's float formatting is modelled (validated by exact string comparison, not verified); float log10/round inside _float_str_w_uncert are not modelled (inputs near their boundaries excluded by a stated margin).",
  technique="Lean 4 proof over an exact rational formatting model + regenerated templates + exact string correspondence", ref="8 C20, 12"),
}


def _load_overrides():
    """tools/manifest_texts.json (written from the per-property notes) overrides the texts above, key by key"""
    fn = os.path.join(VERIF, 'tools', 'manifest_texts.json')
    if os.path.exists(fn):
        for pid, d in json.load(open(fn)).items():
            P.setdefault(pid, {}).update({k: v for k, v in d.items() if k in ('text', 'note', 'technique', 'ref')})


def main(claimed):
    _load_overrides()
    props = [json.loads(l) for l in open(os.path.join(VERIF, 'properties.jsonl'))]
    checks, na = [], []
    for p in props:
        pid = p['id']
        if pid in claimed:
            d = P[pid]
            checks.append({
                'property_id': pid,
                'quick_cmd': './check %s --tier quick' % pid,
                'thorough_cmd': './check %s --tier thorough' % pid,
                'evidence_file': 'evidence/%s.json' % pid,
                'replay_cmd_template': './check replay {path}',
                'engine': 'lean-proof',
                'level_claimed': {'category': 'proof', 'text': d['text'], 'design_ref': 'DESIGN.md section ' + d['ref']},
                'level_note': d['note'],
                'technique': d['technique'],
            })
        else:
            na.append({'property_id': pid, 'reason': 'check under construction in this build round (see DESIGN.md section 8); not yet claimed'})
    m = {
        'version': 1, 'setup_cmd': './setup.sh',
        'hooks': {'guard': 'CHEMPY_VERIF',
                  'enable': 'no hooks or instrumentation were added to /repo; every observation goes through public API (the guard name is reserved)',
                  'baseline_off_cmd': 'cd /repo && /venv/bin/python -m pytest -ra -q -p no:cacheprovider --timeout=900 --continue-on-collection-errors',
                  'source_commits': [], 'add_only': True},
        'engines': [{'name': 'lean-proof', 'path': 'lean/', 'serves_properties': sorted(claimed),
                     'kind_free_text': 'Lean 4 theorems over an executable model; model tied to /repo by an extractor/translator (Gen/*.lean regenerated every run) and a differential correspondence check; failing-input search on the real code when an obligation or the correspondence breaks'}],
        'checks': checks,
        'notes': 'see DESIGN.md; ./check Cxx [--tier quick|thorough]; ./check replay <file>; fix: commits and open findings are listed in known_findings.jsonl',
        'not_applicable': na,
    }
    json.dump(m, open(os.path.join(VERIF, 'MANIFEST.json'), 'w'), indent=1)
    print('claimed:', sorted(claimed), 'not yet:', [x['property_id'] for x in na])


if __name__ == '__main__':
    import sys
    main(set(sys.argv[1:]))
