"""Regenerate every Gen/*.lean file from the current source text of the repository.

An extractor that meets something outside its subset raises ExtractError; the file is then
written as a stub without the definitions, so that every theorem depending on them fails to
build: the obligation is reported open instead of being guessed.
"""
import importlib, os, traceback
from .common import write_if_changed, ExtractError


def extractors():
    """every module of this package that defines `generate(repo) -> {filename: content}` and `FILES`"""
    here = os.path.dirname(os.path.abspath(__file__))
    return sorted(fn[:-3] for fn in os.listdir(here)
                  if fn.endswith('.py') and fn not in ('__init__.py', 'common.py', 'run_all.py', 'pyfn2lean.py'))



def run(repo, gendir, only=None):
    problems, allfiles = compute(repo, only)
    for fn, content in allfiles.items():
        write_if_changed(os.path.join(gendir, fn), content)
    return problems


def compute(repo, only=None):
    """-> (problems, {filename: content}) without touching the disk"""
    problems, allfiles = [], {}
    for name in extractors():
        if only and name not in only:
            continue
        mod = importlib.import_module('extract.' + name)
        try:
            files = mod.generate(repo)
        except Exception as e:
            problems.append('%s: %s: %s' % (name, type(e).__name__, e))
            files = {fn: '-- EXTRACTION FAILED: %s\n-- %s\n' % (name, str(e).replace('\n', ' ')) for fn in getattr(mod, 'FILES', [])}
        allfiles.update(files)
    return problems, allfiles


def on_disk(gendir, files):
    for fn, content in files.items():
        try:
            if open(os.path.join(gendir, fn), encoding='utf-8').read() != content:
                return False
        except OSError:
            return False
    return True


if __name__ == '__main__':
    import sys
    sys.path.insert(0, os.path.dirname(os.path.dirname(os.path.abspath(__file__))))
    print(run(sys.argv[1] if len(sys.argv) > 1 else '/repo',
              os.path.join(os.path.dirname(os.path.dirname(os.path.dirname(os.path.abspath(__file__)))), 'lean', 'ChemModel', 'Gen')))
