"""chempy/printing/{printer,string,pretty,web,tex}.py, the arrow tokens of chemistry.py and the separators of
util/parsing.py (to_reaction / _parse_multiplicity) and reactionsystem.py (from_string) -> Gen/Printing.lean

Everything is read from the AST of the source text (chempy is not imported).  The hand model
(Model/ReactionText.lean) takes every separator / arrow / template from here; its guard theorems
(`Gen.Printing.x = [...] := by decide`) open when one of them is edited.
Texts are emitted as `List Char` literals so that `decide` can run the model in the kernel.
"""
import ast
from .common import *

FILES = ['Printing.lean']
P_PRINTER = 'chempy/printing/printer.py'
P_STRING = 'chempy/printing/string.py'
P_CHEM = 'chempy/chemistry.py'
P_PARSING = 'chempy/util/parsing.py'
P_RSYS = 'chempy/reactionsystem.py'
OTHER = [('pretty', 'chempy/printing/pretty.py', 'UnicodePrinter'),
         ('web', 'chempy/printing/web.py', 'HTMLPrinter'),
         ('tex', 'chempy/printing/tex.py', 'LatexPrinter')]


def lean_char(ch):
    o = ord(ch)
    if ch == "'":
        return "'\\''"
    if ch == '\\':
        return "'\\\\'"
    if ch == '\n':
        return "'\\n'"
    if ch == '\t':
        return "'\\t'"
    if o < 32 or o == 127:
        return '(Char.ofNat %d)' % o
    return "'%s'" % ch


def lean_chars(s):
    return '[' + ', '.join(lean_char(c) for c in s) + ']'


def _str(node, what):
    if isinstance(node, ast.Constant) and isinstance(node.value, str):
        return node.value
    raise ExtractError('%s: expected a string literal' % what)


def _class(tree, name):
    for n in tree.body:
        if isinstance(n, ast.ClassDef) and n.name == name:
            return n
    raise ExtractError('no class %s' % name)


def _class_assign(cls, name):
    for n in cls.body:
        if isinstance(n, ast.Assign) and any(isinstance(t, ast.Name) and t.id == name for t in n.targets):
            return n.value
    raise ExtractError('no %s.%s' % (cls.name, name))


def _method(cls, name):
    for n in cls.body:
        if isinstance(n, ast.FunctionDef) and n.name == name:
            return n
    raise ExtractError('no %s.%s' % (cls.name, name))


def _settings(cls, module_consts=None):
    """keyword arguments of `_default_settings = dict(Base._default_settings, k=v, ...)`"""
    v = _class_assign(cls, '_default_settings')
    if not (isinstance(v, ast.Call) and isinstance(v.func, ast.Name) and v.func.id == 'dict'):
        raise ExtractError('%s._default_settings is not a dict(...) call' % cls.name)
    out = {}
    for kw in v.keywords:
        if kw.arg is None:
            raise ExtractError('%s._default_settings uses **' % cls.name)
        val = kw.value
        if isinstance(val, ast.Name) and module_consts and val.id in module_consts:
            val = module_consts[val.id]
        out[kw.arg] = val
    return out, v.args


def _module_str_consts(tree):
    out = {}
    for n in tree.body:
        if isinstance(n, ast.Assign) and len(n.targets) == 1 and isinstance(n.targets[0], ast.Name) \
                and isinstance(n.value, ast.Constant) and isinstance(n.value.value, str):
            out[n.targets[0].id] = n.value
    return out


def _strs_in(node):
    """string literals of a function body in source order, docstring excluded"""
    body = list(node.body)
    if body and isinstance(body[0], ast.Expr) and isinstance(body[0].value, ast.Constant) and isinstance(body[0].value.value, str):
        body = body[1:]
    found = []
    for b in body:
        for n in ast.walk(b):
            if isinstance(n, ast.Constant) and isinstance(n.value, str):
                found.append((n.lineno, n.col_offset, n.value))
    return [v for _, _, v in sorted(found)]


def _returned_components(fn):
    """For a method ending in `return a, b, ...`: per returned component the string literals that build it, in evaluation
    order.  Local names are resolved through their (single) assignment, tuple assignments element-wise, calls of nested
    helper functions are inlined (arguments first, then the body); `self._get(...)` look-ups contribute nothing."""
    env, funcs, ret = {}, {}, None
    for st in fn.body:
        if isinstance(st, ast.FunctionDef):
            funcs[st.name] = st
        elif isinstance(st, ast.Assign) and len(st.targets) == 1:
            tgt, val = st.targets[0], st.value
            if isinstance(tgt, ast.Name):
                env.setdefault(tgt.id, []).append(val)
            elif isinstance(tgt, (ast.Tuple, ast.List)) and all(isinstance(e, ast.Name) for e in tgt.elts):
                if isinstance(val, (ast.Tuple, ast.List)) and len(val.elts) == len(tgt.elts):
                    for e, v in zip(tgt.elts, val.elts):
                        env.setdefault(e.id, []).append(v)
                else:
                    for e in tgt.elts:
                        env.setdefault(e.id, []).append(val)
        elif isinstance(st, ast.Return):
            ret = st.value
    if not isinstance(ret, ast.Tuple):
        raise ExtractError('%s does not end in `return a, b, ...`' % fn.name)
    if any(len(v) != 1 for v in env.values()):
        raise ExtractError('%s re-assigns a local name' % fn.name)

    def lits(node, seen):
        if isinstance(node, ast.Constant):
            return [node.value] if isinstance(node.value, str) else []
        if isinstance(node, ast.Call) and isinstance(node.func, ast.Attribute) and node.func.attr == '_get':
            return []
        if isinstance(node, ast.Call) and isinstance(node.func, ast.Name) and node.func.id in funcs:
            if node.func.id in seen:
                raise ExtractError('recursive helper %s' % node.func.id)
            out = []
            for a in list(node.args) + [k.value for k in node.keywords]:
                out += lits(a, seen)
            f = funcs[node.func.id]
            body = f.body[1:] if (f.body and isinstance(f.body[0], ast.Expr) and isinstance(f.body[0].value, ast.Constant)) else f.body
            for st in body:
                out += lits(st, seen | {node.func.id})
            return out
        if isinstance(node, ast.Name):
            if node.id in env and node.id not in seen:
                return lits(env[node.id][0], seen | {node.id})
            return []
        out = []
        for ch in ast.iter_child_nodes(node):
            out += lits(ch, seen)
        return out

    return [lits(e, frozenset()) for e in ret.elts]


def generate(repo):
    out = [HEADER % 'chempy/printing/*.py, chempy/chemistry.py, chempy/util/parsing.py, chempy/reactionsystem.py',
           'namespace ChemModel.Gen.Printing\n']
    emit = lambda name, s, doc=None: out.append(('/-- %s -/\n' % doc if doc else '') + 'def %s : List Char := %s' % (name, lean_chars(s)))

    # ---- printer.py: base settings -------------------------------------------------------------------
    src, tree = parse(repo, P_PRINTER)
    base, args = _settings(_class(tree, 'Printer'))
    if args:
        raise ExtractError('Printer._default_settings has a base')
    emit('paramSeparator', _str(base['Reaction_param_separator'], 'Reaction_param_separator'), 'Printer: Reaction_param_separator')
    emit('coeffSpace', _str(base['Reaction_coeff_space'], 'Reaction_coeff_space'), 'Printer: Reaction_coeff_space')
    aa = base['Reaction_around_arrow']
    if not (isinstance(aa, ast.Tuple) and len(aa.elts) == 2):
        raise ExtractError('Reaction_around_arrow is not a pair')
    emit('aroundArrowL', _str(aa.elts[0], 'around_arrow[0]'), 'Printer: Reaction_around_arrow[0]')
    emit('aroundArrowR', _str(aa.elts[1], 'around_arrow[1]'))
    for k in ('with_param', 'with_name'):
        v = base[k]
        if not (isinstance(v, ast.Constant) and isinstance(v.value, bool)):
            raise ExtractError(k + ' default is not a bool literal')
        out.append('def %sDefault : Bool := %s' % (k.replace('_', ''), 'true' if v.value else 'false'))
    mf = base['magnitude_fmt']
    # lambda x: "%.3g" % x
    if not (isinstance(mf, ast.Lambda) and isinstance(mf.body, ast.BinOp) and isinstance(mf.body.op, ast.Mod)
            and isinstance(mf.body.right, ast.Name) and mf.body.right.id == mf.args.args[0].arg):
        raise ExtractError('magnitude_fmt is not `lambda x: "<fmt>" % x`')
    fmt = _str(mf.body.left, 'magnitude_fmt')
    emit('magnitudeFmt', fmt, 'Printer: the default magnitude format (a %-template applied to the number)')
    import re
    m = re.fullmatch(r'%\.(\d+)g', fmt)
    out.append('/-- precision p of the `%.pg` default magnitude format (0 when the template has another shape) -/')
    out.append('def magnitudePrecision : Nat := %d' % (int(m.group(1)) if m else 0))
    fac = _class_assign(_class(tree, 'Printer'), '_default_setting_factories')
    if not isinstance(fac, ast.Call) or any(k.arg is None for k in fac.keywords):
        raise ExtractError('_default_setting_factories is not dict(k=...)')
    base_keys = list(base) + [k.arg for k in fac.keywords]
    attrs = _class_assign(_class(tree, 'Printer'), '_default_setting_attrs')
    if not isinstance(attrs, ast.Call):
        raise ExtractError('_default_setting_attrs is not dict(...)')
    ad = {kw.arg: _str(kw.value, kw.arg) for kw in attrs.keywords}
    for k in ('Reaction_coeff_fmt', 'Reaction_formula_fmt'):
        if ad.get(k) != '_str':
            raise ExtractError('%s is no longer the plain str conversion' % k)

    # ---- string.py: StrPrinter ------------------------------------------------------------------------
    src, tree = parse(repo, P_STRING)
    sp = _class(tree, 'StrPrinter')
    st, args = _settings(sp)
    out.append('/-- every setting name `StrPrinter(settings)` accepts (defaults of Printer and StrPrinter, factories, attribute settings) -/')
    out.append('def settingKeys : List String := %s' % lean_str_list(sorted(set(base_keys) | set(ad) | set(st))))
    emit('strReactionArrow', _str(st['Reaction_arrow'], 'Reaction_arrow'), 'StrPrinter: Reaction_arrow')
    emit('strEquilibriumArrow', _str(st['Equilibrium_arrow'], 'Equilibrium_arrow'), 'StrPrinter: Equilibrium_arrow')
    for k in ('Reaction_param_separator', 'Reaction_coeff_space', 'Reaction_around_arrow'):
        if k in st:
            raise ExtractError('StrPrinter overrides %s' % k)
    # `_Reaction_parts` returns (r_str, ir_str, arrow_str, p_str, ip_str).  Each component is resolved through the
    # function's local assignments and nested helper functions (inlined), and the string literals that build it are read
    # in evaluation order; settings look-ups (`self._get("key")`) are not literals of the output.
    comps = _returned_components(_method(sp, '_Reaction_parts'))
    if len(comps) != 5:
        raise ExtractError('_Reaction_parts does not return a 5-tuple')
    r_l, ir_l, a_l, p_l, ip_l = comps
    if '' not in ir_l or '' not in ip_l:
        raise ExtractError('_Reaction_parts: the inactive part has no empty alternative')
    r_l, ir_l, a_l, p_l, ip_l = [[x for x in l if x != ''] for l in comps]
    if len(r_l) != 1 or len(p_l) != 1 or len(ir_l) != 3 or len(ip_l) != 3 or a_l:
        raise ExtractError('_Reaction_parts: unexpected string literals %r' % (comps,))
    emit('termJoin', r_l[0], 'StrPrinter._Reaction_parts: joiner of the active reactant terms')
    emit('inactOpen', ir_l[0], 'StrPrinter._Reaction_parts: opening of the inactive group (reactant side)')
    emit('inactJoin', ir_l[1])
    emit('inactClose', ir_l[2])
    emit('termJoinProd', p_l[0], 'the same four literals on the product side')
    emit('inactOpenProd', ip_l[0])
    emit('inactJoinProd', ip_l[1])
    emit('inactCloseProd', ip_l[2])
    rs = _strs_in(_method(sp, '_Reaction_str'))
    if rs[:1] != ['{}{}%s{}%s{}{}']:
        raise ExtractError('_Reaction_str template changed: %r' % rs[:1])
    emit('reactionStrTemplate', rs[0], 'StrPrinter._Reaction_str: format template')
    prs = _strs_in(_method(sp, '_print_ReactionSystem'))
    if prs != ['\n', '', '\n', '\n']:
        raise ExtractError('_print_ReactionSystem literals changed: %r' % (prs,))
    emit('systemLineJoin', prs[2], 'StrPrinter._print_ReactionSystem: joiner of the reaction lines (and trailing text)')

    # ---- other printers: arrows / separators -----------------------------------------------------------
    for short, rel, cname in OTHER:
        src, tree = parse(repo, rel)
        consts = _module_str_consts(tree)
        stt, _ = _settings(_class(tree, cname), consts)
        emit(short + 'ReactionArrow', _str(stt['Reaction_arrow'], cname + '.Reaction_arrow'), '%s: Reaction_arrow' % cname)
        emit(short + 'EquilibriumArrow', _str(stt['Equilibrium_arrow'], cname + '.Equilibrium_arrow'))
        emit(short + 'ParamSeparator', _str(stt['Reaction_param_separator'], 'sep') if 'Reaction_param_separator' in stt
             else _str(base['Reaction_param_separator'], 'sep'))
        ab = stt.get('Reaction_around_arrow', aa)
        emit(short + 'AroundArrowL', _str(ab.elts[0], 'aa'))
        emit(short + 'AroundArrowR', _str(ab.elts[1], 'aa'))
        emit(short + 'CoeffSpace', _str(stt.get('Reaction_coeff_space', base['Reaction_coeff_space']), 'cs'))

    # ---- chemistry.py: arrow tokens of the parser -------------------------------------------------------
    src, tree = parse(repo, P_CHEM)
    emit('reactionToken', _str(_class_assign(_class(tree, 'Reaction'), '_str_arrow'), 'Reaction._str_arrow'), 'Reaction._str_arrow (parser token)')
    emit('equilibriumToken', _str(_class_assign(_class(tree, 'Equilibrium'), '_str_arrow'), 'Equilibrium._str_arrow'))
    cmp_attr = _class_assign(_class(tree, 'Reaction'), '_cmp_attr')
    got = [_str(e, '_cmp_attr') for e in cmp_attr.elts]
    out.append('/-- Reaction._cmp_attr: the attributes compared by __eq__ -/')
    out.append('def cmpAttr : List String := %s' % lean_str_list(got))
    dc = _class_assign(_class(tree, 'Reaction'), 'default_checks')
    out.append('def defaultChecks : List String := %s' % lean_str_list(sorted(_str(e, 'default_checks') for e in dc.elts)))

    # ---- parsing.py: separators of to_reaction and the splitter of _parse_multiplicity -------------------
    src, tree = parse(repo, P_PARSING)
    f = find_def(tree, 'to_reaction')
    calls = {}
    for n in ast.walk(f):
        if isinstance(n, ast.Call) and isinstance(n.func, ast.Attribute) and n.func.attr in ('split', 'rstrip') \
                and len(n.args) == 1 and isinstance(n.args[0], ast.Constant):
            calls.setdefault(n.func.attr, []).append(n.args[0].value)
    if sorted(calls.get('split', [])) != sorted(set(calls.get('split', []))) or len(calls.get('split', [])) != 2 or len(calls.get('rstrip', [])) != 1:
        raise ExtractError('to_reaction: expected split(";"), split(" + "), rstrip("\\n"); got %r' % calls)
    part_sep = [s for s in calls['split'] if len(s) == 1]
    term_sep = [s for s in calls['split'] if len(s) != 1]
    if len(part_sep) != 1 or len(term_sep) != 1:
        raise ExtractError('to_reaction: cannot tell the part separator from the term separator: %r' % calls)
    emit('partSep', part_sep[0], "to_reaction: line.split(';')")
    emit('termSep', term_sep[0], "to_reaction: x.split(' + ')")
    emit('lineEnd', calls['rstrip'][0], "to_reaction: line.rstrip('\\n')")
    g = find_def(tree, '_parse_multiplicity')
    pats = [n.args[0].value for n in ast.walk(g) if isinstance(n, ast.Call) and isinstance(n.func, ast.Attribute)
            and n.func.attr == 'split' and isinstance(n.func.value, ast.Name) and n.func.value.id == 're'
            and n.args and isinstance(n.args[0], ast.Constant)]
    if len(pats) != 1:
        raise ExtractError('_parse_multiplicity: expected one re.split')
    emit('multiplicityRegex', pats[0], '_parse_multiplicity: the re.split pattern (semantics hand-modelled, guarded)')
    floats = sorted(n.left.value for n in ast.walk(g) if isinstance(n, ast.Compare) and isinstance(n.left, ast.Constant)
                    and isinstance(n.left.value, str) and len(n.ops) == 1 and isinstance(n.ops[0], ast.In))
    out.append('/-- characters whose presence in the coefficient text selects float() instead of int() -/')
    out.append('def floatMarkers : List Char := %s' % lean_chars(''.join(floats)))

    # ---- reactionsystem.py: from_string ---------------------------------------------------------------
    src, tree = parse(repo, P_RSYS)
    fs = _method(_class(tree, 'ReactionSystem'), 'from_string')
    ct = None
    for a, d in zip(fs.args.args[-len(fs.args.defaults):], fs.args.defaults):
        if a.arg == 'comment_tokens':
            ct = d
    if not (isinstance(ct, ast.Tuple) and all(isinstance(e, ast.Constant) and isinstance(e.value, str) for e in ct.elts)):
        raise ExtractError('from_string: comment_tokens default is not a tuple of string literals')
    out.append('/-- ReactionSystem.from_string: default comment_tokens -/')
    out.append('def commentTokens : List (List Char) := [%s]' % ', '.join(lean_chars(e.value) for e in ct.elts))
    ls = [n.args[0].value for n in ast.walk(fs) if isinstance(n, ast.Call) and isinstance(n.func, ast.Attribute)
          and n.func.attr == 'split' and len(n.args) == 1 and isinstance(n.args[0], ast.Constant)]
    if len(ls) != 1:
        raise ExtractError('from_string: expected one s.split(<literal>)')
    emit('systemLineSep', ls[0], "ReactionSystem.from_string: s.split('\\n')")
    out.append('\nend ChemModel.Gen.Printing\n')
    return {'Printing.lean': '\n'.join(out)}
