"""chempy/kinetics/integrated.py -> Gen/FnIntegrated.lean (every function of the module, translated by pyfn2lean)

Lean names: dimerizationIrrev, pseudoIrrev, pseudoRev, binaryIrrev, binaryRev, unaryIrrevCstr, binaryIrrevCstr.
Arguments = the python parameters without default, in source order (plus `t0` for dimerization_irrev and `n` for
binary_irrev_cstr, which are passed explicitly so that the theorems cover them; `P0` of dimerization_irrev is unused
by the source and keeps its default).
A function added to the module that is not in this list makes the extraction fail (the property quantifies over
"each closed-form expression offered").
"""
import ast
from .common import parse, ExtractError
from . import pyfn2lean as P

REL = 'chempy/kinetics/integrated.py'
FILES = ['FnIntegrated.lean']

SPECS = [
    # python name, lean name, params (None = those without default)
    ('dimerization_irrev', 'dimerizationIrrev', ['t', 'kf', 'initial_C', 't0']),
    ('pseudo_irrev', 'pseudoIrrev', None),
    ('pseudo_rev', 'pseudoRev', None),
    ('binary_irrev', 'binaryIrrev', None),
    ('binary_rev', 'binaryRev', None),
    ('unary_irrev_cstr', 'unaryIrrevCstr', None),
    ('binary_irrev_cstr', 'binaryIrrevCstr', ['t', 'k', 'r', 'p', 'fr', 'fp', 'fv', 'n']),
]


def generate(repo):
    src, tree = parse(repo, REL)
    defs = [n.name for n in tree.body if isinstance(n, ast.FunctionDef)]
    known = [s[0] for s in SPECS]
    extra = [d for d in defs if d not in known]
    if extra:
        raise ExtractError('integrated.py defines functions unknown to the C17 model: %s' % ', '.join(extra))
    ctext, cenv = P.translate_module_constants(src, tree)
    parts = [ctext] if str(ctext).strip() else []
    for py, ln, params in SPECS:
        parts.append(P.translate_function(src, tree, py, lean_name=ln, const_env=cenv, params=params, emit_call_args=('exp',)))
    return {'FnIntegrated.lean': P.wrap_module(parts, REL)}
