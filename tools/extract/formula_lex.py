"""chempy/util/parsing.py (+ chempy/chemistry.py defaults) -> Gen/FormulaLex.lean

Lexical data of the formula grammar, read from the source text (chempy is not imported):

* the element regex of `_get_formula_parser`, parsed with Python's own regex parser into ordered
  branches `(first, secondSet, optional)`; anything outside that shape is refused (ExtractError),
* the literal texts of the hand-modelled regexes (count, state, primes, brackets, caged, `^\\d+`): guards,
* the default prefix list (keys of `_latex_mapping` in dict insertion order), `_greek_letters`,
* the default suffix tuples of `formula_to_composition` / `Species.from_formula`.
"""
import ast
try:
    import re._parser as sre_parse
    import re._constants as sre_c
except ImportError:  # Python < 3.11
    import sre_parse
    import sre_constants as sre_c
from .common import *

REL = 'chempy/util/parsing.py'
REL_CHEM = 'chempy/chemistry.py'
FILES = ['FormulaLex.lean']


def lean_char(ch):
    o = ord(ch)
    if ch == "'":
        return "'\\''"
    if ch == '\\':
        return "'\\\\'"
    if o < 32 or o > 126:
        return "'\\u{%x}'" % o
    return "'%s'" % ch


def lean_chars(s):
    return '[' + ', '.join(lean_char(c) for c in s) + ']'


def _const_str(node, what):
    if isinstance(node, ast.Constant) and isinstance(node.value, str):
        return node.value
    raise ExtractError('%s is not a string literal' % what)


def _regex_call_arg(node, what):
    """node is `Regex(<str literal>)`, possibly wrapped in Suppress(...) and/or followed by `.setResultsName(...)`"""
    n = node
    while True:
        if isinstance(n, ast.Call) and isinstance(n.func, ast.Attribute) and n.func.attr in ('setResultsName', 'set_results_name'):
            n = n.func.value
        elif isinstance(n, ast.Call) and isinstance(n.func, ast.Name) and n.func.id == 'Suppress' and len(n.args) == 1:
            n = n.args[0]
        else:
            break
    if isinstance(n, ast.Call) and isinstance(n.func, ast.Name) and n.func.id == 'Regex' and len(n.args) == 1 and not n.keywords:
        return _const_str(n.args[0], what)
    raise ExtractError('%s is not Regex(<literal>)' % what)


def _local_assign(fn, name):
    found = [n.value for n in ast.walk(fn) if isinstance(n, ast.Assign) and len(n.targets) == 1
             and isinstance(n.targets[0], ast.Name) and n.targets[0].id == name]
    if len(found) != 1:
        raise ExtractError('expected exactly one assignment to %s in _get_formula_parser' % name)
    return found[0]


def element_branches(pattern):
    """ordered alternatives `X`, `X[abc]`, `X[abc]?`, `Xy`, `Xy?` -> (first, secondSet, optional)"""
    p = sre_parse.parse(pattern)
    items = list(p)
    if p.state.flags & ~sre_c.SRE_FLAG_UNICODE:
        raise ExtractError('element regex carries flags')
    if len(items) == 1 and items[0][0] is sre_c.BRANCH:
        alts = [list(a) for a in items[0][1][1]]
    else:
        alts = [items]
    out = []
    for alt in alts:
        if not alt or alt[0][0] is not sre_c.LITERAL:
            raise ExtractError('element regex branch does not start with a literal: %r' % (alt,))
        first = chr(alt[0][1])
        if len(alt) == 1:
            out.append((first, '', True))
            continue
        if len(alt) != 2:
            raise ExtractError('element regex branch longer than two items: %r' % (alt,))
        op, arg = alt[1]
        optional = False
        if op is sre_c.MAX_REPEAT:
            lo, hi, sub = arg
            sub = list(sub)
            if (lo, hi) != (0, 1) or len(sub) != 1:
                raise ExtractError('unsupported repeat in element regex: %r' % (alt,))
            optional = True
            op, arg = sub[0]
        if op is sre_c.LITERAL:
            second = chr(arg)
        elif op is sre_c.IN:
            second = ''
            for o2, a2 in arg:
                if o2 is sre_c.LITERAL:
                    second += chr(a2)
                elif o2 is sre_c.RANGE:
                    second += ''.join(chr(c) for c in range(a2[0], a2[1] + 1))
                else:
                    raise ExtractError('unsupported set item in element regex: %r' % ((o2, a2),))
        else:
            raise ExtractError('unsupported item in element regex: %r' % (alt,))
        out.append((first, second, optional))
    return out


def prefix_keys(src, tree):
    greek = find_assign(tree, '_greek_letters')
    if not isinstance(greek, ast.Tuple):
        raise ExtractError('_greek_letters is not a tuple literal')
    greek = [_const_str(e, '_greek_letters item') for e in greek.elts]
    lm = find_assign(tree, '_latex_mapping')
    want = '{k + "-": "\\\\" + k + "-" for k in _greek_letters}'
    if ''.join(seg(src, lm).split()) != ''.join(want.split()):
        raise ExtractError('_latex_mapping is no longer %s' % want)
    keys = [g + '-' for g in greek]
    for n in tree.body:      # later `_latex_mapping[<literal>] = ...` statements append new keys in order
        if isinstance(n, ast.Assign) and len(n.targets) == 1 and isinstance(n.targets[0], ast.Subscript):
            t = n.targets[0]
            if isinstance(t.value, ast.Name) and t.value.id == '_latex_mapping':
                k = _const_str(t.slice, '_latex_mapping key')
                if k not in keys:
                    keys.append(k)
        elif isinstance(n, (ast.AugAssign, ast.Delete)) or (isinstance(n, ast.Expr) and '_latex_mapping' in seg(src, n)):
            if '_latex_mapping' in seg(src, n):
                raise ExtractError('_latex_mapping is modified in an unsupported way')
    f2c = find_def(tree, 'formula_to_composition')
    body = ''.join(seg(src, f2c).split())
    if 'ifprefixesisNone:prefixes=_latex_mapping.keys()' not in body:
        raise ExtractError('formula_to_composition no longer defaults prefixes to _latex_mapping.keys()')
    return greek, keys


def default_of(fn, argname):
    a = fn.args
    pos = a.posonlyargs + a.args
    defaults = [None] * (len(pos) - len(a.defaults)) + list(a.defaults)
    for arg, d in zip(pos, defaults):
        if arg.arg == argname:
            return d
    for arg, d in zip(a.kwonlyargs, a.kw_defaults):
        if arg.arg == argname:
            return d
    raise ExtractError('%s has no parameter %s' % (fn.name, argname))


def str_tuple(node, what):
    if not isinstance(node, (ast.Tuple, ast.List)):
        raise ExtractError('%s is not a tuple literal' % what)
    return [_const_str(e, what) for e in node.elts]


def generate(repo):
    src, tree = parse(repo, REL)
    fp = find_def(tree, '_get_formula_parser')
    elem_pat = _regex_call_arg(_local_assign(fp, 'element'), 'element')
    branches = element_branches(elem_pat)
    pats = {}
    for lean_name, py in (('countRegex', 'count'), ('stateRegex', 'state'), ('primesRegex', 'primes'), ('cagedRegex', 'caged'),
                          ('lcbRegex', 'LCB'), ('rcbRegex', 'RCB'), ('lsbRegex', 'LSB'), ('rsbRegex', 'RSB'),
                          ('lpRegex', 'LP'), ('rpRegex', 'RP')):
        pats[lean_name] = _regex_call_arg(_local_assign(fp, py), py)
    # the parse action of `count` and the term structure are hand-modelled: guard their source text
    guards = {}
    acts = [n for n in ast.walk(fp) if isinstance(n, ast.Call) and isinstance(n.func, ast.Attribute)
            and n.func.attr in ('setParseAction', 'set_parse_action') and isinstance(n.func.value, ast.Name) and n.func.value.id == 'count']
    if len(acts) != 1:
        raise ExtractError('count.setParseAction not found')
    guards['countAction'] = ' '.join(seg(src, acts[0].args[0]).split())
    guards['termExpr'] = ''.join(seg(src, _local_assign(fp, 'term')).split())
    li = find_def(tree, '_get_leading_integer')
    calls = [n for n in ast.walk(li) if isinstance(n, ast.Call) and isinstance(n.func, ast.Attribute) and n.func.attr == 'findall']
    if len(calls) != 1:
        raise ExtractError('_get_leading_integer: expected one re.findall call')
    pats['leadingIntRegex'] = _const_str(calls[0].args[0], 'leading integer regex')
    greek, keys = prefix_keys(src, tree)
    f2c = find_def(tree, 'formula_to_composition')
    suff = str_tuple(default_of(f2c, 'suffixes'), 'formula_to_composition suffixes default')
    if default_of(f2c, 'prefixes') is None or not (isinstance(default_of(f2c, 'prefixes'), ast.Constant) and default_of(f2c, 'prefixes').value is None):
        raise ExtractError('formula_to_composition prefixes default is not None')
    # chemistry.py: Substance.from_formula passes no suffixes; Species.from_formula uses tuple(phases) + ("(aq)",)
    csrc, ctree = parse(repo, REL_CHEM)
    species = find_def(ctree, 'Species')
    sff = next((n for n in species.body if isinstance(n, ast.FunctionDef) and n.name == 'from_formula'), None)
    if sff is None:
        raise ExtractError('Species.from_formula not found')
    phases = str_tuple(default_of(sff, 'phases'), 'Species.from_formula phases default')
    extra = None
    for n in ast.walk(sff):
        if isinstance(n, ast.Assign) and isinstance(n.targets[0], ast.Name) and n.targets[0].id == 'suffixes':
            s = ''.join(seg(csrc, n.value).split())
            if s.startswith('tuple(phases)+'):
                extra = str_tuple(n.value.right, 'Species extra suffixes')
    if extra is None:
        raise ExtractError('Species.from_formula: suffixes = tuple(phases) + (...) not found')
    subst = find_def(ctree, 'Substance')
    sub_ff = next((n for n in subst.body if isinstance(n, ast.FunctionDef) and n.name == 'from_formula'), None)
    if sub_ff is None or 'composition=formula_to_composition(formula)' not in ''.join(seg(csrc, sub_ff).split()):
        raise ExtractError('Substance.from_formula no longer calls formula_to_composition(formula)')

    out = [HEADER % (REL + ', ' + REL_CHEM), 'namespace ChemModel.Gen\n']
    out.append('/-- the element regex of `_get_formula_parser` as written -/')
    out.append('def elemRegex : String := %s\n' % lean_str(elem_pat))
    out.append('/-- its ordered alternatives `(first, secondSet, optional)`: `X[set]` / `X[set]?` / `X` -/')
    out.append('def elemBranches : List (Char × List Char × Bool) := [')
    out.append(',\n'.join('  (%s, %s, %s)' % (lean_char(a), lean_chars(b), 'true' if c else 'false') for a, b, c in branches) + ']\n')
    out.append('/-! literal texts of the regexes whose semantics are hand-modelled (guards) -/')
    for k in ('countRegex', 'stateRegex', 'primesRegex', 'cagedRegex', 'lpRegex', 'rpRegex', 'lsbRegex', 'rsbRegex',
              'lcbRegex', 'rcbRegex', 'leadingIntRegex'):
        out.append('def %s : String := %s' % (k, lean_str(pats[k])))
    out.append('/-- source text (whitespace-normalised) of the parse action of `count` and of the `term` expression -/')
    out.append('def countAction : String := %s' % lean_str(guards['countAction']))
    out.append('def termExpr : String := %s\n' % lean_str(guards['termExpr']))
    out.append('def greekLetters : List String := %s\n' % lean_str_list(greek))
    out.append('/-- keys of `_latex_mapping` in dict insertion order = default `prefixes` of formula_to_composition -/')
    out.append('def prefixes : List String := %s' % lean_str_list(keys))
    out.append('def prefixesL : List (List Char) := [\n' + ',\n'.join('  ' + lean_chars(k) for k in keys) + ']\n')
    out.append('/-- default `suffixes` of formula_to_composition (also what Substance.from_formula uses) -/')
    out.append('def suffixes : List String := %s' % lean_str_list(suff))
    out.append('def suffixesL : List (List Char) := [' + ', '.join(lean_chars(k) for k in suff) + ']\n')
    out.append('/-- Species.from_formula: default `phases`, and the suffixes it passes on = phases ++ extra -/')
    out.append('def speciesPhases : List String := %s' % lean_str_list(phases))
    out.append('def speciesSuffixes : List String := %s' % lean_str_list(phases + extra))
    out.append('def speciesSuffixesL : List (List Char) := [' + ', '.join(lean_chars(k) for k in phases + extra) + ']\n')
    out.append('end ChemModel.Gen\n')
    return {'FormulaLex.lean': '\n'.join(out)}
