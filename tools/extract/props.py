"""chempy/properties/*.py, chempy/henry.py, chempy/electrochemistry/nernst.py, chempy/einstein_smoluchowski.py
-> Gen/FnProps.lean   (C19; every function translated by pyfn2lean from the source text, chempy is not imported)

For every correlation / relation two translations of the SAME source text are emitted:

  <name>        the `units=None` branch, over plain numbers
  <name>U       the `units=<object>` branch: every `units.<attr>` (and `constants.<attr>`) becomes an extra argument.
                The text is generic over the number class, so it can be read
                  * over ℝ / Float with each unit symbol = its positive scale factor relative to SI
                    ("scale-factor semantics": all values are SI values; used by the `unit_mode_agrees` theorems), and
                  * over the quantity algebra `PhysProps.UV` (magnitude × (factor, dimension vector), errors), Model/PhysProps.lean.
  <name>Warns / <name>WarnMsgs   the range checks (as with warn=True)

Functions with constructs outside pyfn2lean's subset are handled as follows (nothing is guessed):
  * nernst_potential / electrical_mobility_from_D : the function source is normalised first (`x *= e` -> `x = x * (e)`,
    the local `from ..units import to_unitless` is dropped, float literals are checked to be unchanged) and then translated;
    `to_unitless(ratio)` becomes the class method `HasToUnitless.toUnitless` (class emitted in this file);
    `hasattr(ratio, "dimensionality")` is decided per mode (False for plain numbers, True for quantities).
  * sulfuric_acid_density : the `_data` table, the leading part of the function (units, defaults, `t = T - T0`, range checks)
    are translated (`sulfuricT` := `t / K`, `sulfuricTWarns`, `sulfuricTWarnMsgs`); the numpy double sum is hand-modelled in
    Model/PhysProps.lean over the extracted table.
  * density_from_concentration : default `atol`, default `molar_mass`, start value of `rho` (`dfcInit_0/1/2`) and `dfcMaxiter`
    are translated; the loop is hand-modelled.
  * lg_solubility_ratio : the two parameter dictionaries are extracted as association lists (source order), `Tref_K`;
    the sum is hand-modelled.
  * Henry.get_c_at_T_and_P / get_P_at_T_and_c / __call__ : the source text of their `return` expressions is emitted as strings;
    the hand model states them as guards (`decide`), like the regex guards of C01.
"""
import ast, copy
from fractions import Fraction
from .common import parse, ExtractError, seg, find_def, lean_str, num_text_to_fraction
from . import pyfn2lean as P

find_def = P.find_unique_def      # a function defined twice / rebound at module level is an ExtractError

FILES = ['FnProps.lean']

D_DENS = 'chempy/properties/water_density_tanaka_2001.py'
D_VISC = 'chempy/properties/water_viscosity_korson_1969.py'
D_DIFF = 'chempy/properties/water_diffusivity_holz_2000.py'
D_PERM = 'chempy/properties/water_permittivity_bradley_pitzer_1979.py'
D_SULF = 'chempy/properties/sulfuric_acid_density_myhre_1998.py'
D_SCHU = 'chempy/properties/gas_sol_electrolytes_schumpe_1993.py'
D_HENRY = 'chempy/henry.py'
D_NERNST = 'chempy/electrochemistry/nernst.py'
D_MOB = 'chempy/einstein_smoluchowski.py'

CLASS_TEXT = '''/-- `chempy.units.to_unitless(x)` applied to a value that has a `dimensionality` attribute: conversion of a
dimensionless quantity to a pure number (ValueError otherwise).  Scale-factor semantics: the identity. -/
class HasToUnitless (α : Type) where toUnitless : α → α
'''


IMPURE = {}     # function name -> P.impure_augassigns(original FunctionDef): `x op= e` that is not `x = x op e` for array arguments


def tf(src, tree, funcname, **kw):
    """P.translate_function on a source that THIS extractor normalised (`op=` desugared): the impure augmented assignments of the
    original function are handed to the translator (hashed into @skipped, so the `…_sig_guard` opens)"""
    if IMPURE.get(funcname):
        kw.setdefault('extra_skipped', list(IMPURE[funcname]))
    return P.translate_function(src, tree, funcname, **kw)


def _float_values(node):
    return [Fraction(repr(n.value)) for n in ast.walk(node) if isinstance(n, ast.Constant) and isinstance(n.value, float)]


def _literal_check(src, fnode):
    """every float literal of the function must survive ast.unparse unchanged (exact decimal text vs shortest repr)"""
    for n in ast.walk(fnode):
        if isinstance(n, ast.Constant) and isinstance(n.value, float):
            txt = seg(src, n)
            if num_text_to_fraction(txt) != Fraction(repr(n.value)):
                raise ExtractError('float literal %s is not its own shortest representation; cannot normalise the function' % txt)


class _Norm(ast.NodeTransformer):
    def visit_AugAssign(self, n):
        if not isinstance(n.target, ast.Name):
            raise ExtractError('augmented assignment to a non-name')
        return ast.copy_location(ast.Assign(targets=[ast.Name(id=n.target.id, ctx=ast.Store())],
                                            value=ast.BinOp(left=ast.Name(id=n.target.id, ctx=ast.Load()), op=n.op, right=n.value)), n)

    def visit_ImportFrom(self, n):
        if n.module == 'units' and n.level in (1, 2) and [a.name for a in n.names] == ['to_unitless'] and n.names[0].asname is None:
            return ast.copy_location(ast.Pass(), n)
        raise ExtractError('unexpected local import: %s' % ast.unparse(n))


def _is_boolish(n):
    if isinstance(n, (ast.BoolOp, ast.Compare)):
        return True
    if isinstance(n, ast.UnaryOp) and isinstance(n.op, ast.Not):
        return True
    return (isinstance(n, ast.Call) and not n.keywords and len(n.args) == 1 and
            ((isinstance(n.func, ast.Name) and n.func.id in ('_any', 'any')) or
             (isinstance(n.func, ast.Attribute) and n.func.attr == 'any')) and _is_boolish(n.args[0]))


def inline_bool_temps(f):
    """Inline boolean temporaries (`flag = <comparisons / and / or / not / _any(...)>` ... `if flag:`) into the tests that use them.
    Done only when it is obviously meaning-preserving: the name is assigned exactly once in the function, is only read inside `if` tests,
    every read comes after the assignment in the same or a nested block, and no name occurring in the expression is assigned again later.
    Anything else is left alone (the translator then refuses the function).  In place on a COPY of the FunctionDef."""
    stores = {}
    for n in ast.walk(f):
        if isinstance(n, ast.Name) and isinstance(n.ctx, ast.Store):
            stores[n.id] = stores.get(n.id, 0) + 1
        elif isinstance(n, ast.AugAssign) and isinstance(n.target, ast.Name):
            stores[n.target.id] = stores.get(n.target.id, 0) + 1
    test_reads = set()
    for n in ast.walk(f):
        if isinstance(n, (ast.If, ast.IfExp)):
            for x in ast.walk(n.test):
                if isinstance(x, ast.Name):
                    test_reads.add(id(x))

    def process(body):
        i = 0
        while i < len(body):
            st = body[i]
            if (isinstance(st, ast.Assign) and len(st.targets) == 1 and isinstance(st.targets[0], ast.Name)
                    and _is_boolish(st.value) and stores.get(st.targets[0].id) == 1):
                name = st.targets[0].id
                rest = body[i + 1:]
                reads = [x for r in rest for x in ast.walk(r) if isinstance(x, ast.Name) and x.id == name]
                all_reads = [x for x in ast.walk(f) if isinstance(x, ast.Name) and x.id == name and isinstance(x.ctx, ast.Load)]
                free = {x.id for x in ast.walk(st.value) if isinstance(x, ast.Name)}
                later_stores = {x.id for r in rest for x in ast.walk(r) if isinstance(x, ast.Name) and isinstance(x.ctx, ast.Store)}
                later_stores |= {x.target.id for r in rest for x in ast.walk(r) if isinstance(x, ast.AugAssign) and isinstance(x.target, ast.Name)}
                if reads and len(reads) == len(all_reads) and all(id(x) in test_reads for x in reads) and not (free & later_stores):
                    class Sub(ast.NodeTransformer):
                        def visit_Name(self, n):
                            return copy.deepcopy(st.value) if (n.id == name and isinstance(n.ctx, ast.Load)) else n
                    body[i + 1:] = [Sub().visit(r) for r in rest]
                    del body[i]
                    continue
            for fld in ('body', 'orelse'):
                sub = getattr(st, fld, None)
                if isinstance(sub, list) and sub and isinstance(sub[0], ast.stmt):
                    process(sub)
            i += 1
    process(f.body)
    return f


def normalised(src, tree, funcname):
    """(source text, tree) of a module holding only `funcname`, with `x op= e` rewritten and the to_unitless import dropped"""
    f = find_def(tree, funcname)
    _literal_check(src, f)
    IMPURE[funcname] = P.impure_augassigns(f)
    g = ast.fix_missing_locations(inline_bool_temps(_Norm().visit(copy.deepcopy(f))))
    text = ast.unparse(g) + '\n'
    t2 = ast.parse(text)
    if sorted(_float_values(f)) != sorted(_float_values(t2)):
        raise ExtractError('%s: float literals changed by normalisation' % funcname)
    return text, t2


def with_err_mult(src, tree, funcname):
    """module text of `funcname` in which the optional pair `err_mult=None` is PASSED: two leading parameters `err_mult_0`,
    `err_mult_1` and the default `err_mult=(err_mult_0, err_mult_1)` (so `err_mult is not None` holds and `err_mult[i]` is the
    i-th argument); `x += e` rewritten as in `normalised`."""
    f = find_def(tree, funcname)
    _literal_check(src, f)
    IMPURE[funcname] = P.impure_augassigns(f)
    g = inline_bool_temps(_Norm().visit(copy.deepcopy(f)))
    a = g.args
    names = [x.arg for x in a.args]
    if 'err_mult' not in names:
        raise ExtractError('%s has no parameter err_mult' % funcname)
    i = names.index('err_mult') - (len(a.args) - len(a.defaults))
    if i < 0 or not (isinstance(a.defaults[i], ast.Constant) and a.defaults[i].value is None):
        raise ExtractError('%s: default of err_mult is not None' % funcname)
    if len(a.defaults) != len(a.args):
        raise ExtractError('%s: parameters without default' % funcname)
    a.defaults[i] = ast.Tuple(elts=[ast.Name(id='err_mult_0', ctx=ast.Load()), ast.Name(id='err_mult_1', ctx=ast.Load())], ctx=ast.Load())
    a.args = [ast.arg(arg='err_mult_0'), ast.arg(arg='err_mult_1')] + a.args
    text = ast.unparse(ast.fix_missing_locations(g)) + '\n'
    t2 = ast.parse(text)
    if sorted(_float_values(f)) != sorted(_float_values(t2)):
        raise ExtractError('%s: float literals changed by normalisation' % funcname)
    return text, t2


def truncated(src, tree, funcname, stop, ret, drop_params=()):
    """module text holding `funcname` cut before the first top-level statement for which stop(stmt) holds, with `return <ret>`
    appended.  ExtractError if no statement matches."""
    f = find_def(tree, funcname)
    _literal_check(src, f)
    IMPURE[funcname] = P.impure_augassigns(f)
    g = inline_bool_temps(_Norm().visit(copy.deepcopy(f)))
    if drop_params:
        # parameters that the kept statements do not use (callbacks, **kwargs); defaults are aligned from the right
        a = g.args
        nd = len(a.defaults)
        keep = [(x, (a.defaults[i - (len(a.args) - nd)] if i >= len(a.args) - nd else None)) for i, x in enumerate(a.args)
                if x.arg not in drop_params]
        a.args = [x for x, _ in keep]
        a.defaults = [d_ for _, d_ in keep if d_ is not None]
        if any(d_ is None for _, d_ in keep[len(keep) - len(a.defaults):]):
            raise ExtractError('%s: cannot drop parameters' % funcname)
        if a.kwarg is not None and a.kwarg.arg in drop_params:
            a.kwarg = None
    for i, st in enumerate(g.body):
        if stop(st):
            g.body = g.body[:i] + [ast.parse('return ' + ret).body[0]]
            break
    else:
        raise ExtractError('%s: statement at which to cut not found' % funcname)
    text = ast.unparse(ast.fix_missing_locations(g)) + '\n'
    return text, ast.parse(text)


def _assigns(name):
    return lambda st: (isinstance(st, ast.Assign) and len(st.targets) == 1 and isinstance(st.targets[0], ast.Name)
                       and st.targets[0].id == name)


def dict_table(src, tree, name):
    """module-level `name = {"key": float, ...}` -> Lean `List (String × α)` in source order"""
    for st in tree.body:
        if _assigns(name)(st) and isinstance(st.value, ast.Dict):
            items = []
            for k, v in zip(st.value.keys, st.value.values):
                if not (isinstance(k, ast.Constant) and isinstance(k.value, str)):
                    raise ExtractError('%s: key is not a string literal' % name)
                neg = False
                if isinstance(v, ast.UnaryOp) and isinstance(v.op, ast.USub):
                    neg, v = True, v.operand
                if not (isinstance(v, ast.Constant) and isinstance(v.value, (int, float)) and not isinstance(v.value, bool)):
                    raise ExtractError('%s[%r]: value is not a numeric literal' % (name, k.value))
                lit = P.float_lit(seg(src, v)) if isinstance(v.value, float) else P.int_lit(v.value)
                items.append('(%s, %s)' % (lean_str(k.value), '(-%s)' % lit if neg else lit))
            keys = [k.value for k in st.value.keys]
            if len(set(keys)) != len(keys):
                raise ExtractError('%s: duplicate keys' % name)
            return items
    raise ExtractError('no module-level dict %s' % name)


def return_text(src, tree, cls, meth):
    c = find_def(tree, cls)
    for n in c.body:
        if isinstance(n, ast.FunctionDef) and n.name == meth:
            rets = [s for s in n.body if isinstance(s, ast.Return)]
            others = [s for s in n.body if not isinstance(s, ast.Return)
                      and not (isinstance(s, ast.Expr) and isinstance(s.value, ast.Constant) and isinstance(s.value.value, str))]
            if len(rets) != 1 or others:
                raise ExtractError('%s.%s is not a single return statement' % (cls, meth))
            return ast.unparse(rets[0].value), [a.arg for a in n.args.args]
    raise ExtractError('no method %s.%s' % (cls, meth))


def generate(repo):
    parts = [CLASS_TEXT]
    TU = {'to_unitless': ('HasToUnitless.toUnitless', 'HasToUnitless')}
    HD = '{α : Type} [Add α] [Sub α] [Mul α] [Div α] [Neg α] [NatCast α]'

    # ---- water density (Tanaka 2001) ----------------------------------------------------------------
    src, tree = parse(repo, D_DENS)
    src, tree = normalised(src, tree, 'water_density')      # every function goes through the same normalisation (see `normalised`)
    parts.append(tf(src, tree, 'water_density', lean_name='waterDensity', params=['T']))
    parts.append(tf(src, tree, 'water_density', lean_name='waterDensityU', params=['T'], units_mode=True))
    parts.append(tf(src, tree, 'water_density', lean_name='waterDensityI', params=['T'], inline_lets=True,
                                      doc='`water_density` (units=None) with every local inlined'))

    # ---- water viscosity (Korson 1969) -------------------------------------------------------------
    src, tree = parse(repo, D_VISC)
    ctext, cenv = P.translate_module_constants(src, tree, names=['A', 'B', 'C', 'eta20_cP'], prefix='visc_')
    parts.append(ctext)
    vsrc, vtree = normalised(src, tree, 'water_viscosity')
    parts.append(tf(vsrc, vtree, 'water_viscosity', lean_name='waterViscosity', const_env=cenv, params=['T']))
    parts.append(tf(vsrc, vtree, 'water_viscosity', lean_name='waterViscosityU', const_env=cenv, params=['T'],
                                      units_mode=True, extra_funcs=TU))

    # ---- water self-diffusion (Holz 2000) -----------------------------------------------------------
    src, tree = parse(repo, D_DIFF)
    names = ['gamma', 'D0', 'TS', 'low_t_bound', 'high_t_bound']
    ctext, cenv = P.translate_module_constants(src, tree, names=names + ['dgamma', 'dD0', 'dTS'], prefix='diff_')
    parts.append(ctext)
    dsrc_, dtree_ = normalised(src, tree, 'water_self_diffusion_coefficient')
    parts.append(tf(dsrc_, dtree_, 'water_self_diffusion_coefficient', lean_name='waterDiffusivity',
                                      const_env=cenv, params=['T']))
    parts.append(tf(dsrc_, dtree_, 'water_self_diffusion_coefficient', lean_name='waterDiffusivityU',
                                      const_env=cenv, params=['T'], units_mode=True))

    esrc, etree = with_err_mult(src, tree, 'water_self_diffusion_coefficient')
    EP = ['T', 'err_mult_0', 'err_mult_1']
    parts.append(tf(esrc, etree, 'water_self_diffusion_coefficient', lean_name='waterDiffusivityErr', const_env=cenv, params=EP, defaults_may_use_params=True,
                                      doc='`water_self_diffusion_coefficient(T, err_mult=(err_mult_0, err_mult_1))`, units=None'))
    parts.append(tf(esrc, etree, 'water_self_diffusion_coefficient', lean_name='waterDiffusivityErrU', const_env=cenv, params=EP, defaults_may_use_params=True,
                                      units_mode=True, doc='`water_self_diffusion_coefficient(T, units=u, err_mult=(err_mult_0, err_mult_1))`'))

    # ---- water permittivity (Bradley & Pitzer 1979) -----------------------------------------------
    src, tree = parse(repo, D_PERM)
    psrc, ptree = normalised(src, tree, 'water_permittivity')
    parts.append(tf(psrc, ptree, 'water_permittivity', lean_name='waterPermittivity', params=['T', 'P']))
    parts.append(tf(psrc, ptree, 'water_permittivity', lean_name='waterPermittivityU', params=['T', 'P'],
                                      units_mode=True, extra_funcs=TU))

    # ---- sulfuric acid density (Myhre 1998) --------------------------------------------------------
    src, tree = parse(repo, D_SULF)
    ctext, cenv = P.translate_module_constants(src, tree, names=['_data'], prefix='sulfuric')
    parts.append(ctext)
    is_tarr = _assigns('t_arr')
    tsrc, ttree = truncated(src, tree, 'sulfuric_acid_density', is_tarr, 't_K')
    cut_hook = lambda test, text: None
    parts.append(tf(tsrc, ttree, 'sulfuric_acid_density', lean_name='sulfuricT', params=['w', 'T'],
                                      doc='the reduced temperature `t_K` (= `t / K`) of `sulfuric_acid_density` (function cut before `t_arr = ...`)'))
    parts.append(tf(tsrc, ttree, 'sulfuric_acid_density', lean_name='sulfuricTU', params=['w', 'T'], units_mode=True,
                                      extra_funcs=TU, doc='`t_K` (= `to_unitless(t / K)`) of `sulfuric_acid_density` with a units object'))
    parts.append(tf(tsrc, ttree, 'sulfuric_acid_density', lean_name='sulfuricTdef', params=['w'],
                    doc='`t_K` of `sulfuric_acid_density(w)`: T = None -> 298.15 * K (units=None)'))
    parts.append(tf(tsrc, ttree, 'sulfuric_acid_density', lean_name='sulfuricTT0', params=['w', 'T', 'T0'],
                    doc='`t_K` of `sulfuric_acid_density(w, T, T0)` with an explicit zero of the Celsius scale (units=None)'))
    usrc, utree = truncated(src, tree, 'sulfuric_acid_density', is_tarr, 'kg / m3')
    parts.append(tf(usrc, utree, 'sulfuric_acid_density', lean_name='sulfuricUnitU', params=['w', 'T'], units_mode=True, extra_funcs=TU,
                                      doc='the unit `kg / m3` multiplied onto the sum in `sulfuric_acid_density` with a units object'))
    # shape of the hand-modelled tail: emitted as text, guarded in the model
    f = find_def(tree, 'sulfuric_acid_density')
    tail = [ast.unparse(s) for s in f.body[[i for i, s in enumerate(f.body) if is_tarr(s)][0]:]]
    parts.append('/-- source text of the hand-modelled tail of `sulfuric_acid_density` -/\ndef sulfuricTailSrc : List String := [%s]\n'
                 % ', '.join(lean_str(t) for t in tail))
    dsrc, dtree = truncated(src, tree, 'density_from_concentration', _assigns('delta_rho'), '(atol, molar_mass, rho)',
                             drop_params=('rho_cb', 'kwargs'))
    parts.append(tf(dsrc, dtree, 'density_from_concentration', lean_name='dfcInit', params=['conc'], split_tuple=True,
                                      doc='(default atol, default molar_mass, start value of rho) of `density_from_concentration`, units=None'))
    d = find_def(tree, 'density_from_concentration')
    dmap = dict(zip([a.arg for a in d.args.args][len(d.args.args) - len(d.args.defaults):], d.args.defaults))
    mi = dmap.get('maxiter')
    if not (isinstance(mi, ast.Constant) and isinstance(mi.value, int) and not isinstance(mi.value, bool) and mi.value >= 0):
        raise ExtractError('density_from_concentration: default maxiter is not a natural number literal')
    wd = dmap.get('warn')
    if not (isinstance(wd, ast.Constant) and wd.value is False):
        raise ExtractError('density_from_concentration: default warn is not False')
    parts.append('/-- default `maxiter` of `density_from_concentration` -/\ndef dfcMaxiter : Nat := %d\n' % mi.value)
    loop = [s for s in d.body if isinstance(s, ast.While)]
    if len(loop) != 1:
        raise ExtractError('density_from_concentration: expected exactly one while loop')
    parts.append('/-- source text of the hand-modelled loop of `density_from_concentration` -/\ndef dfcLoopSrc : String := %s\n'
                 % lean_str(ast.unparse(loop[0])))

    # ---- Schumpe 1993 ----------------------------------------------------------------------------------
    src, tree = parse(repo, D_SCHU)
    ctext, cenv = P.translate_module_constants(src, tree, names=['Tref_K'], prefix='schumpe_')
    parts.append(ctext)
    for nm, ln in (('p_ion_rM', 'schumpeIon'), ('p_gas_rM', 'schumpeGas')):
        items = dict_table(src, tree, nm)
        parts.append('/-- module dictionary `%s` as an association list in source order -/\ndef %s %s : List (String × α) :=\n  [%s]\n'
                     % (nm, ln, '{α : Type} [Neg α] [Div α] [NatCast α]', ',\n   '.join(items)))
    f = find_def(tree, 'lg_solubility_ratio')
    parts.append('/-- source text of `lg_solubility_ratio` after the docstring (hand-modelled) -/\ndef schumpeBodySrc : List String := [%s]\n'
                 % ', '.join(lean_str(ast.unparse(s)) for s in f.body
                             if not (isinstance(s, ast.Expr) and isinstance(s.value, ast.Constant) and isinstance(s.value.value, str))))

    # ---- Henry ------------------------------------------------------------------------------------------
    src, tree = parse(repo, D_HENRY)
    hsrc, htree = normalised(src, tree, 'Henry_H_at_T')
    parts.append(tf(hsrc, htree, 'Henry_H_at_T', lean_name='henryHAtTU', params=['T', 'H', 'Tderiv', 'T0'], units_mode=True,
                                      extra_funcs=TU, doc='`Henry_H_at_T(T, H, Tderiv, T0, units=u)` with an explicit reference temperature'))
    parts.append(tf(hsrc, htree, 'Henry_H_at_T', lean_name='henryHAtT', params=['T', 'H', 'Tderiv', 'T0'],
                                      doc='`Henry_H_at_T(T, H, Tderiv, T0)` with an explicit reference temperature, units=None'))
    parts.append(tf(hsrc, htree, 'Henry_H_at_T', lean_name='henryHAtTDefault', params=['T', 'H', 'Tderiv'],
                                      doc='`Henry_H_at_T(T, H, Tderiv)`: T0 = 298.15 (units=None)'))
    parts.append(tf(hsrc, htree, 'Henry_H_at_T', lean_name='henryHAtTDefaultU', params=['T', 'H', 'Tderiv'], units_mode=True,
                                      extra_funcs=TU,
                                      doc='`Henry_H_at_T(T, H, Tderiv, units=u)`: T0 = 298.15 * u.Kelvin'))
    for meth, ln in (('__call__', 'henryCallSrc'), ('get_kH_at_T', 'henryGetKHSrc'), ('get_c_at_T_and_P', 'henryGetCSrc'),
                     ('get_P_at_T_and_c', 'henryGetPSrc')):
        txt, args = return_text(src, tree, 'Henry', meth)
        parts.append('/-- `return` expression and parameters of `Henry.%s` -/\ndef %s : String × List String := (%s, [%s])\n'
                     % (meth, ln, lean_str(txt), ', '.join(lean_str(a) for a in args)))
    txt, args = return_text(src, tree, 'HenryWithUnits', '__call__')
    parts.append('/-- `return` expression and parameters of `HenryWithUnits.__call__` -/\ndef henryWithUnitsCallSrc : String × List String := (%s, [%s])\n'
                 % (lean_str(txt), ', '.join(lean_str(a) for a in args)))

    # ---- Nernst -------------------------------------------------------------------------------------------
    src, tree = parse(repo, D_NERNST)
    nsrc, ntree = normalised(src, tree, 'nernst_potential')
    NP = ['ion_conc_out', 'ion_conc_in', 'charge', 'T']
    tu = TU

    def hook(val):
        def h(test, text):
            if isinstance(test, ast.Call) and isinstance(test.func, ast.Name) and test.func.id == 'hasattr' \
                    and len(test.args) == 2 and isinstance(test.args[1], ast.Constant) and test.args[1].value == 'dimensionality':
                return val
            return None
        return h
    parts.append(tf(nsrc, ntree, 'nernst_potential', lean_name='nernstPotential', params=NP, cond_hook=hook(False),
                                      doc='`nernst_potential` on plain numbers (constants=None, units=None)'))
    parts.append(tf(nsrc, ntree, 'nernst_potential', lean_name='nernstPotentialU', params=NP, units_mode=True,
                                      cond_hook=hook(True), extra_funcs=tu,
                                      doc='`nernst_potential(..., constants=None, units=u)` on quantities (the ratio has a `dimensionality`)'))
    parts.append(tf(nsrc, ntree, 'nernst_potential', lean_name='nernstPotentialQ', params=NP, cond_hook=hook(True),
                                      extra_funcs=tu,
                                      doc='`nernst_potential` with constants=None, units=None and concentrations that are quantities (T a plain number)'))
    parts.append(tf(nsrc, ntree, 'nernst_potential', lean_name='nernstPotentialC', params=NP, objects=('constants',),
                                      cond_hook=hook(False),
                                      doc='`nernst_potential(..., constants=c)` with a plain-number concentration ratio'))
    parts.append(tf(nsrc, ntree, 'nernst_potential', lean_name='nernstPotentialCU', params=NP, objects=('constants',),
                                      cond_hook=hook(True), extra_funcs=tu,
                                      doc='`nernst_potential(..., constants=c)` with concentrations that are quantities'))

    # ---- Einstein-Smoluchowski ------------------------------------------------------------------------------
    src, tree = parse(repo, D_MOB)
    msrc, mtree = normalised(src, tree, 'electrical_mobility_from_D')
    MP = ['D', 'charge', 'T']
    parts.append(tf(msrc, mtree, 'electrical_mobility_from_D', lean_name='mobility', params=MP))
    parts.append(tf(msrc, mtree, 'electrical_mobility_from_D', lean_name='mobilityU', params=MP, units_mode=True))
    parts.append(tf(msrc, mtree, 'electrical_mobility_from_D', lean_name='mobilityC', params=MP, objects=('constants',)))

    return {'FnProps.lean': P.wrap_module(parts, 'chempy/properties/*.py, henry.py, electrochemistry/nernst.py, einstein_smoluchowski.py')}
