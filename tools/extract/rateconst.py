"""chempy/kinetics/arrhenius.py + chempy/kinetics/eyring.py -> Gen/FnRateConst.lean (C16)

Translated by pyfn2lean (plain-number path: constants=None, units=None):

  Lean name             python
  getR                  arrhenius._get_R()
  getKBOverH            eyring._get_kB_over_h()
  arrheniusEquation     arrhenius.arrhenius_equation(A, Ea, T)
  eyringEquation        eyring.eyring_equation(dH, dS, T)
  arrheniusFromRateconstA   first constructor argument of ArrheniusParam.from_rateconst_at_T(Ea, (T, k)): k*exp(Ea/R/T)
  arrheniusEaOverR      ArrheniusParam.Ea_over_R          (argument: self.Ea)
  eyringKBhExpDSR       EyringParam.kB_h_times_exp_dS_R   (argument: self.dS)
  eyringDHOverR         EyringParam.dH_over_R             (argument: self.dH)

Two source idioms are outside pyfn2lean's subset and are rewritten on the AST before translation (anything else that
does not fit raises ExtractError -> stub file -> the C16 theorems do not build):
  * `try: X = <expr>.rescale(...) / .simplified  except AttributeError: <fallback>`  -> the fallback branch
    (plain numbers have no `.rescale` / `.simplified`; the unit-carrying branch is exercised by the harness only);
  * `_get_R(constants, units)` / `_get_kB_over_h(constants, units)` with exactly these two names as arguments
    -> a call without arguments of the translated helper (both are None on this path).
`from_rateconst_at_T` is a classmethod ending in `return cls(<A-expr>, Ea, **kwargs)`: a synthetic function
`(Ea, T, k) -> <A-expr>` is built from its statements `T, k = T_k`, `R = _get_R(...)` and that return.
"""
import ast, copy
from .common import parse, ExtractError, find_def, lean_str, HEADER
from . import pyfn2lean as P

FILES = ['FnRateConst.lean', 'RatesSrc.lean']
ARR = 'chempy/kinetics/arrhenius.py'
EYR = 'chempy/kinetics/eyring.py'
HELPERS = {'_get_R': 'getR', '_get_kB_over_h': 'getKBOverH'}


class _Rewrite(ast.NodeTransformer):
    def __init__(self):
        self.discarded = []      # ast.dump of the `try:` bodies dropped here -> hashed into the signature record (pyfn2lean @skipped)

    def visit_Try(self, node):
        self.generic_visit(node)
        if (len(node.handlers) == 1 and isinstance(node.handlers[0].type, ast.Name)
                and node.handlers[0].type.id == 'AttributeError' and not node.orelse and not node.finalbody
                and len(node.body) == 1 and isinstance(node.body[0], ast.Assign)
                and any(isinstance(x, ast.Attribute) and x.attr in ('rescale', 'simplified') for x in ast.walk(node.body[0]))):
            body = node.handlers[0].body
            self.discarded += [ast.dump(x) for x in node.body]
            return body            # the plain-number branch (may be `pass`)
        raise ExtractError('line %d: try-statement of an unknown shape' % node.lineno)

    def visit_Call(self, node):
        self.generic_visit(node)
        if isinstance(node.func, ast.Name) and node.func.id in HELPERS:
            names = [a.id if isinstance(a, ast.Name) else None for a in node.args]
            if names != ['constants', 'units'] or node.keywords:
                raise ExtractError('line %d: %s called with unexpected arguments' % (node.lineno, node.func.id))
            node.args = []
        return node


def _fn(tree, cls, name):
    """a rewritten deep copy of function `name` (inside class `cls` when given), as a one-function module"""
    scope = find_def(tree, cls) if cls else tree
    if cls and not isinstance(scope, ast.ClassDef):
        raise ExtractError('%s is not a class' % cls)
    hits = [n for n in scope.body if isinstance(n, ast.FunctionDef) and n.name == name]
    if len(hits) > 1:
        raise ExtractError('%s%s is defined %d times' % (cls + '.' if cls else '', name, len(hits)))
    if not cls:
        P.find_unique_def(tree, name)          # also: not rebound at module level
    for n in hits:
        rw = _Rewrite()
        f = rw.visit(copy.deepcopy(n))         # decorators are KEPT: translate_function rejects a decorated function
        m = ast.Module(body=[f], type_ignores=[])
        m.discarded = rw.discarded
        return m
    raise ExtractError('no function %s%s' % (cls + '.' if cls else '', name))


def _from_rateconst(tree):
    """synthetic `def from_rateconst_A(Ea, T, k)` from ArrheniusParam.from_rateconst_at_T"""
    m = _fn(tree, 'ArrheniusParam', 'from_rateconst_at_T')
    f = m.body[0]
    if [ast.unparse(d) for d in f.decorator_list] != ['classmethod']:
        raise ExtractError('from_rateconst_at_T: expected exactly the decorator @classmethod')
    params = [a.arg for a in f.args.args]
    if params[:3] != ['cls', 'Ea', 'T_k']:
        raise ExtractError('from_rateconst_at_T: unexpected signature %r' % params)
    body, unpack, ret = [], None, None
    for st in f.body:
        if isinstance(st, ast.Expr) and isinstance(st.value, ast.Constant) and isinstance(st.value.value, str):
            continue
        if (isinstance(st, ast.Assign) and isinstance(st.targets[0], ast.Tuple) and isinstance(st.value, ast.Name)
                and st.value.id == 'T_k'):
            unpack = [e.id for e in st.targets[0].elts]
            continue
        if isinstance(st, ast.If) and isinstance(st.test, ast.Compare) and isinstance(st.test.left, ast.Name) \
                and st.test.left.id == 'backend' and all(isinstance(x, ast.ImportFrom) for x in st.body) and not st.orelse:
            continue            # `if backend is None: from chempy.units import patched_numpy as backend`
        if isinstance(st, ast.Return):
            ret = st
            continue
        body.append(st)
    if unpack != ['T', 'k']:
        raise ExtractError('from_rateconst_at_T: expected `T, k = T_k`')
    c = ret.value if ret is not None else None
    if not (isinstance(c, ast.Call) and isinstance(c.func, ast.Name) and c.func.id == 'cls' and len(c.args) == 2
            and isinstance(c.args[1], ast.Name) and c.args[1].id == 'Ea'):
        raise ExtractError('from_rateconst_at_T: expected `return cls(<A>, Ea, **kwargs)`')
    g = ast.FunctionDef(name='from_rateconst_A', args=ast.arguments(
        posonlyargs=[], args=[ast.arg(arg='Ea'), ast.arg(arg='T'), ast.arg(arg='k')], kwonlyargs=[], kw_defaults=[], defaults=[]),
        body=body + [ast.Return(value=c.args[0])], decorator_list=[], lineno=f.lineno, col_offset=0)
    mod = ast.Module(body=[g], type_ignores=[])
    ast.fix_missing_locations(mod)
    mod.discarded = m.discarded
    return mod


def generate(repo):
    asrc, atree = parse(repo, ARR)
    esrc, etree = parse(repo, EYR)
    calls = dict(HELPERS)
    none2 = {'constants': None, 'units': None}
    parts = []

    def TF(src, mod, *a, **kw):          # the discarded `try:` bodies go into the signature record
        return P.translate_function(src, mod, *a, extra_skipped=mod.discarded, **kw)
    parts.append(TF(asrc, _fn(atree, None, '_get_R'), '_get_R', lean_name='getR', params=[]))
    parts.append(TF(esrc, _fn(etree, None, '_get_kB_over_h'), '_get_kB_over_h', lean_name='getKBOverH', params=[]))
    parts.append(TF(asrc, _fn(atree, None, 'arrhenius_equation'), 'arrhenius_equation',
                                      lean_name='arrheniusEquation', params=['A', 'Ea', 'T'], extra_calls=calls, inline_lets=True))
    parts.append(TF(esrc, _fn(etree, None, 'eyring_equation'), 'eyring_equation',
                                      lean_name='eyringEquation', params=['dH', 'dS', 'T'], extra_calls=calls, inline_lets=True))
    parts.append(TF(asrc, _from_rateconst(atree), 'from_rateconst_A', lean_name='arrheniusFromRateconstA',
                                      params=['Ea', 'T', 'k'], extra_calls=calls, inline_lets=True,
                                      doc='first constructor argument of `ArrheniusParam.from_rateconst_at_T(Ea, (T, k))`'))
    parts.append(TF(asrc, _fn(atree, 'ArrheniusParam', 'Ea_over_R'), 'Ea_over_R', lean_name='arrheniusEaOverR',
                                      params=[], objects=('self',), fixed=none2, extra_calls=calls, inline_lets=True))
    parts.append(TF(esrc, _fn(etree, 'EyringParam', 'kB_h_times_exp_dS_R'), 'kB_h_times_exp_dS_R',
                                      lean_name='eyringKBhExpDSR', params=[], objects=('self',), fixed=none2,
                                      extra_calls=calls, inline_lets=True))
    parts.append(TF(esrc, _fn(etree, 'EyringParam', 'dH_over_R'), 'dH_over_R', lean_name='eyringDHOverR',
                                      params=[], objects=('self',), fixed=none2, extra_calls=calls, inline_lets=True))
    return {'FnRateConst.lean': P.wrap_module(parts, ARR + ', ' + EYR), 'RatesSrc.lean': _sources(repo)}


# ---- source texts of the hand-modelled `__call__` bodies (guards) -----------------------------------------------
# (file, path of nested def/class names, Lean name).  The text is `ast.unparse` of the body without its docstring:
# insensitive to comments / layout, sensitive to any change of the code.  `Props/C16.lean` holds one `…_guard` theorem per
# entry comparing it with the text the hand model `Model/Expr.call` was written from.
SRC = [
    ('chempy/kinetics/rates.py', ['MassAction', 'active_conc_prod'], 'srcMassActionConcProd'),
    ('chempy/kinetics/rates.py', ['MassAction', 'rate_coeff'], 'srcMassActionRateCoeff'),
    ('chempy/kinetics/rates.py', ['MassAction', '__call__'], 'srcMassActionCall'),
    ('chempy/kinetics/rates.py', ['Arrhenius', '__call__'], 'srcArrheniusCall'),
    ('chempy/kinetics/rates.py', ['Eyring', '__call__'], 'srcEyringCall'),
    ('chempy/kinetics/rates.py', ['EyringHS', '__call__'], 'srcEyringHSCall'),
    ('chempy/kinetics/rates.py', ['mk_Radiolytic', '_Radiolytic', '__call__'], 'srcRadiolyticCall'),
    ('chempy/kinetics/rates.py', ['RampedTemp', '__call__'], 'srcRampedTempCall'),
    ('chempy/kinetics/rates.py', ['SinTemp', '__call__'], 'srcSinTempCall'),
    ('chempy/thermodynamics/expressions.py', ['MassActionEq', 'eq_const'], 'srcMassActionEqConst'),
    ('chempy/thermodynamics/expressions.py', ['MassActionEq', '__call__'], 'srcMassActionEqCall'),
    ('chempy/thermodynamics/expressions.py', ['GibbsEqConst', 'eq_const'], 'srcGibbsEqConst'),
    ('chempy/util/_expr.py', ['create_Poly', '_poly'], 'srcPoly'),
    ('chempy/util/_expr.py', ['create_Piecewise', '_pw'], 'srcPiecewise'),
    ('chempy/util/_expr.py', ['Expr', 'from_callback', 'body'], 'srcFromCallbackBody'),
    ('chempy/util/_expr.py', ['UnaryFunction', '__call__'], 'srcUnaryFunctionCall'),
    ('chempy/util/_expr.py', ['Log10', '__call__'], 'srcLog10Call'),
    ('chempy/util/_expr.py', ['_BinaryExpr', '__call__'], 'srcBinaryCall'),
    ('chempy/util/_expr.py', ['_NegExpr', '__call__'], 'srcNegCall'),
    ('chempy/util/_expr.py', ['Constant', '__call__'], 'srcConstantCall'),
    ('chempy/util/_expr.py', ['Symbol', '__call__'], 'srcSymbolCall'),
]


def _descend(tree, path, rel):
    node = tree
    for name in path:
        for n in ast.walk(node):
            if n is not node and isinstance(n, (ast.FunctionDef, ast.ClassDef)) and n.name == name:
                node = n
                break
        else:
            raise ExtractError('%s: no %s' % (rel, '.'.join(path)))
    return node


def source_texts(repo):
    out = []
    cache = {}
    for rel, path, lname in SRC:
        if rel not in cache:
            cache[rel] = parse(repo, rel)[1]
        f = _descend(cache[rel], path, rel)
        body = list(f.body)
        if body and isinstance(body[0], ast.Expr) and isinstance(body[0].value, ast.Constant) and isinstance(body[0].value.value, str):
            body = body[1:]
        sig = ast.unparse(f.args)
        text = 'def(%s): ' % sig + '; '.join(ast.unparse(st).replace('\n', ' ') for st in body)
        out.append((lname, '.'.join(path), rel, ' '.join(text.split())))
    return out


def _sources(repo):
    lines = [HEADER % 'chempy/kinetics/rates.py, chempy/thermodynamics/expressions.py, chempy/util/_expr.py',
             'namespace ChemModel.Gen', '']
    for lname, path, rel, text in source_texts(repo):
        lines.append('/-- code of `%s` (%s), normalised by `ast.unparse` -/' % (path, rel))
        lines.append('def %s : String := %s' % (lname, lean_str(text)))
        lines.append('')
    lines.append('end ChemModel.Gen')
    return '\n'.join(lines) + '\n'

