"""chempy/kinetics/arrhenius.py + chempy/kinetics/eyring.py -> Gen/FnRateConst.lean (C16)

Translated by pyfn2lean (plain-number path: constants=None, units=None):

  Lean name             python
  getR                  arrhenius._get_R()
  getKBOverH            eyring._get_kB_over_h()
  arrheniusEquation     arrhenius.arrhenius_equation(A, Ea, T)
  eyringEquation        eyring.eyring_equation(dH, dS, T)
  arrheniusFromRateconstA   first constructor argument of ArrheniusParam.from_rateconst_at_T(Ea, (T, k)): k*exp(Ea/R/T)
  arrheniusEaOverR      ArrheniusParam.Ea_over_R          (argument: self.Ea)
  eyringKBhExpDSR       EyringParam.kB_h_times_exp_dS_R   (argument: self.dS)
  eyringDHOverR         EyringParam.dH_over_R             (argument: self.dH)

Two source idioms are outside pyfn2lean's subset and are rewritten on the AST before translation (anything else that
does not fit raises ExtractError -> stub file -> the C16 theorems do not build):
  * `try: X = <expr>.rescale(...) / .simplified  except AttributeError: <fallback>`  -> the fallback branch
    (plain numbers have no `.rescale` / `.simplified`; the unit-carrying branch is exercised by the harness only);
  * `_get_R(constants, units)` / `_get_kB_over_h(constants, units)` with exactly these two names as arguments
    -> a call without arguments of the translated helper (both are None on this path).
`from_rateconst_at_T` is a classmethod ending in `return cls(<A-expr>, Ea, **kwargs)`: a synthetic function
`(Ea, T, k) -> <A-expr>` is built from its statements `T, k = T_k`, `R = _get_R(...)` and that return.
"""
import ast, copy, os
from .common import parse, ExtractError, find_def, lean_str, HEADER
from . import pyfn2lean as P

FILES = ['FnRateConst.lean']
ARR = 'chempy/kinetics/arrhenius.py'
EYR = 'chempy/kinetics/eyring.py'
HELPERS = {'_get_R': 'getR', '_get_kB_over_h': 'getKBOverH'}


QUANTITY_ONLY = ('rescale', 'simplified', 'dimensionality', 'magnitude', 'units')   # attributes plain numbers do not have


def _mentions_quantity_attr(node):
    return any(isinstance(x, ast.Attribute) and x.attr in QUANTITY_ONLY for x in ast.walk(node))


class _Rewrite(ast.NodeTransformer):
    """plain-number specialisation of the three idioms that fall outside pyfn2lean's subset (no special-casing of names):
      * `try: <one assignment / return that touches a quantity-only attribute> except AttributeError: <fallback>` -> fallback
      * `getattr(X, "<quantity-only attribute>", D)` -> D
      * a call of a pure single-`return` helper defined in the same file or imported from a sibling module
        (`from .mod import f`) -> its return expression with the arguments substituted (after the same rewrites);
        helpers named in HELPERS keep their zero-argument translated form."""

    def __init__(self, repo, rel, tree, depth=0, discarded=None):
        self.repo, self.rel, self.tree, self.depth = repo, rel, tree, depth
        self.discarded = [] if discarded is None else discarded     # ast.dump of everything this specialisation drops

    def visit_Try(self, node):
        if (len(node.handlers) == 1 and isinstance(node.handlers[0].type, ast.Name)
                and node.handlers[0].type.id == 'AttributeError' and not node.orelse and not node.finalbody
                and len(node.body) == 1 and isinstance(node.body[0], (ast.Assign, ast.Return))
                and _mentions_quantity_attr(node.body[0])):
            self.discarded.append(ast.dump(node.body[0]))
            out = []
            for st in node.handlers[0].body:
                r = self.visit(st)
                out.extend(r if isinstance(r, list) else [r])
            return out            # the plain-number branch (may be `pass`)
        raise ExtractError('line %d: try-statement of an unknown shape' % node.lineno)

    def _helper(self, name):
        """(FunctionDef, rel) of a module-level function of this file or of a sibling module it is imported from"""
        for n in self.tree.body:
            if isinstance(n, ast.FunctionDef) and n.name == name:
                return n, self.rel, self.tree
        for n in self.tree.body:
            if isinstance(n, ast.ImportFrom) and n.level == 1 and n.module and any(a.name == name and a.asname is None for a in n.names):
                rel = os.path.join(os.path.dirname(self.rel), n.module.replace('.', '/') + '.py')
                try:
                    _, t = parse(self.repo, rel)
                except OSError:
                    return None
                for m in t.body:
                    if isinstance(m, ast.FunctionDef) and m.name == name:
                        return m, rel, t
        return None

    def visit_Call(self, node):
        self.generic_visit(node)
        if isinstance(node.func, ast.Name) and node.func.id == 'getattr' and len(node.args) == 3 and not node.keywords \
                and isinstance(node.args[1], ast.Constant) and node.args[1].value in QUANTITY_ONLY:
            self.discarded.append(ast.dump(node))
            return node.args[2]
        if isinstance(node.func, ast.Name) and node.func.id in HELPERS:
            names = [a.id if isinstance(a, ast.Name) else None for a in node.args]
            if names != ['constants', 'units'] or node.keywords:
                raise ExtractError('line %d: %s called with unexpected arguments' % (node.lineno, node.func.id))
            node.args = []
            return node
        if isinstance(node.func, ast.Name) and self.depth < 4:
            h = self._helper(node.func.id)
            if h is not None:
                f, rel, t = h
                g = _Rewrite(self.repo, rel, t, self.depth + 1, self.discarded).visit(copy.deepcopy(f))
                body = [st for st in g.body if not (isinstance(st, ast.Expr) and isinstance(st.value, ast.Constant)
                                                    and isinstance(st.value.value, str)) and not isinstance(st, ast.Pass)]
                a = g.args
                if (len(body) == 1 and isinstance(body[0], ast.Return) and body[0].value is not None
                        and not a.vararg and not a.kwarg and not a.kwonlyargs and not g.decorator_list):
                    expr = body[0].value
                    self.discarded.append('inlined helper: ' + ast.dump(f))
                    if rel != self.rel and any(isinstance(x, ast.Constant) and isinstance(x.value, float) for x in ast.walk(expr)):
                        raise ExtractError('line %d: helper %s of another file contains a float literal' % (node.lineno, f.name))
                    params = [x.arg for x in a.args]
                    bind = {}
                    for pname, arg in zip(params, node.args):
                        bind[pname] = arg
                    for kw in node.keywords:
                        if kw.arg not in params or kw.arg in bind:
                            raise ExtractError('line %d: bad keyword in call of %s' % (node.lineno, f.name))
                        bind[kw.arg] = kw.value
                    nd = len(a.defaults)
                    for pname, d in zip(params[len(params) - nd:], a.defaults):
                        bind.setdefault(pname, d)
                    if set(bind) != set(params):
                        raise ExtractError('line %d: call of %s does not bind every parameter' % (node.lineno, f.name))

                    class _Sub(ast.NodeTransformer):
                        def visit_Name(self, n):
                            return copy.deepcopy(bind[n.id]) if isinstance(n.ctx, ast.Load) and n.id in bind else n
                    return ast.copy_location(_Sub().visit(copy.deepcopy(expr)), node)
        return node


def _fn(tree, cls, name, repo=None, rel=None):
    """a rewritten deep copy of function `name` (inside class `cls` when given), as a one-function module"""
    scope = find_def(tree, cls) if cls else tree
    if cls and not isinstance(scope, ast.ClassDef):
        raise ExtractError('%s is not a class' % cls)
    hits = [n for n in scope.body if isinstance(n, ast.FunctionDef) and n.name == name]
    if len(hits) > 1:
        raise ExtractError('%s%s is defined %d times' % (cls + '.' if cls else '', name, len(hits)))
    if not cls:
        P.find_unique_def(tree, name)          # also: not rebound at module level
    for n in hits:
        rw = _Rewrite(repo, rel, tree)
        f = rw.visit(copy.deepcopy(n))         # decorators are KEPT: translate_function rejects a decorated function
        m = ast.Module(body=[f], type_ignores=[])
        m.discarded = rw.discarded
        return m
    raise ExtractError('no function %s%s' % (cls + '.' if cls else '', name))


def _from_rateconst(tree, repo, rel):
    """synthetic `def from_rateconst_A(Ea, T, k)` from ArrheniusParam.from_rateconst_at_T"""
    m = _fn(tree, 'ArrheniusParam', 'from_rateconst_at_T', repo, rel)
    f = m.body[0]
    if [ast.unparse(d) for d in f.decorator_list] != ['classmethod']:
        raise ExtractError('from_rateconst_at_T: expected exactly the decorator @classmethod')
    params = [a.arg for a in f.args.args]
    if params[:3] != ['cls', 'Ea', 'T_k']:
        raise ExtractError('from_rateconst_at_T: unexpected signature %r' % params)
    body, unpack, ret = [], None, None
    for st in f.body:
        if isinstance(st, ast.Expr) and isinstance(st.value, ast.Constant) and isinstance(st.value.value, str):
            continue
        if (isinstance(st, ast.Assign) and isinstance(st.targets[0], ast.Tuple) and isinstance(st.value, ast.Name)
                and st.value.id == 'T_k'):
            unpack = [e.id for e in st.targets[0].elts]
            continue
        if isinstance(st, ast.If) and isinstance(st.test, ast.Compare) and isinstance(st.test.left, ast.Name) \
                and st.test.left.id == 'backend' and all(isinstance(x, ast.ImportFrom) for x in st.body) and not st.orelse:
            continue            # `if backend is None: from chempy.units import patched_numpy as backend`
        if isinstance(st, ast.Return):
            ret = st
            continue
        body.append(st)
    if unpack != ['T', 'k']:
        raise ExtractError('from_rateconst_at_T: expected `T, k = T_k`')
    c = ret.value if ret is not None else None
    if not (isinstance(c, ast.Call) and isinstance(c.func, ast.Name) and c.func.id == 'cls' and len(c.args) == 2
            and isinstance(c.args[1], ast.Name) and c.args[1].id == 'Ea'):
        raise ExtractError('from_rateconst_at_T: expected `return cls(<A>, Ea, **kwargs)`')
    g = ast.FunctionDef(name='from_rateconst_A', args=ast.arguments(
        posonlyargs=[], args=[ast.arg(arg='Ea'), ast.arg(arg='T'), ast.arg(arg='k')], kwonlyargs=[], kw_defaults=[], defaults=[]),
        body=body + [ast.Return(value=c.args[0])], decorator_list=[], lineno=f.lineno, col_offset=0)
    mod = ast.Module(body=[g], type_ignores=[])
    ast.fix_missing_locations(mod)
    mod.discarded = m.discarded
    return mod


def generate(repo):
    asrc, atree = parse(repo, ARR)
    esrc, etree = parse(repo, EYR)
    calls = dict(HELPERS)
    none2 = {'constants': None, 'units': None}
    parts = []

    def TF(src, mod, *a, **kw):          # the discarded `try:` bodies go into the signature record
        return P.translate_function(src, mod, *a, extra_skipped=mod.discarded, **kw)
    parts.append(TF(asrc, _fn(atree, None, '_get_R', repo, ARR), '_get_R', lean_name='getR', params=[]))
    parts.append(TF(esrc, _fn(etree, None, '_get_kB_over_h', repo, EYR), '_get_kB_over_h', lean_name='getKBOverH', params=[]))
    parts.append(TF(asrc, _fn(atree, None, 'arrhenius_equation', repo, ARR), 'arrhenius_equation',
                                      lean_name='arrheniusEquation', params=['A', 'Ea', 'T'], extra_calls=calls, inline_lets=True))
    parts.append(TF(esrc, _fn(etree, None, 'eyring_equation', repo, EYR), 'eyring_equation',
                                      lean_name='eyringEquation', params=['dH', 'dS', 'T'], extra_calls=calls, inline_lets=True))
    parts.append(TF(asrc, _from_rateconst(atree, repo, ARR), 'from_rateconst_A', lean_name='arrheniusFromRateconstA',
                                      params=['Ea', 'T', 'k'], extra_calls=calls, inline_lets=True,
                                      doc='first constructor argument of `ArrheniusParam.from_rateconst_at_T(Ea, (T, k))`'))
    parts.append(TF(asrc, _fn(atree, 'ArrheniusParam', 'Ea_over_R', repo, ARR), 'Ea_over_R', lean_name='arrheniusEaOverR',
                                      params=[], objects=('self',), fixed=none2, extra_calls=calls, inline_lets=True))
    parts.append(TF(esrc, _fn(etree, 'EyringParam', 'kB_h_times_exp_dS_R', repo, EYR), 'kB_h_times_exp_dS_R',
                                      lean_name='eyringKBhExpDSR', params=[], objects=('self',), fixed=none2,
                                      extra_calls=calls, inline_lets=True))
    parts.append(TF(esrc, _fn(etree, 'EyringParam', 'dH_over_R', repo, EYR), 'dH_over_R', lean_name='eyringDHOverR',
                                      params=[], objects=('self',), fixed=none2, extra_calls=calls, inline_lets=True))
    return {'FnRateConst.lean': P.wrap_module(parts, ARR + ', ' + EYR)}

