"""chempy/electrolytes.py -> Gen/FnElectrolytes.lean   (namespace ChemModel.Gen.Electrolytes)

Translated by pyfn2lean (function bodies, every code path specialised separately):

  A   aNum          eps_r T rho b0                                  constants=None, units=None   (hard-coded combined factor)
      aNumUnits     eps_r T rho b0 units_meter units_Kelvin units_mol          constants=None, units given, b0 given explicitly
      aNumUnitsB0   eps_r T rho units_molal units_meter units_Kelvin units_mol constants=None, units given, b0 left at its default
                                                                               (`b0 is integer_one` -> b0 = 1*units.molal)
      aConst        eps_r T rho b0 constants_{Faraday_constant,Avogadro_constant,vacuum_permittivity,Boltzmann_constant,pi}
      aConstUnitsB0 eps_r T rho units_molal constants_...                      constants given, units given, b0 default
  B   bNum, bNumUnits, bNumUnitsB0, bConst (constants_{Faraday_constant,vacuum_permittivity,molar_gas_constant}), bConstUnitsB0
  limitingLogGamma IS z A I0 ; extendedLogGamma IS z a A B C I0 ; daviesLogGamma IS z A C I0 ;
  limitingLogGammaD / extendedLogGammaD / daviesLogGammaD : the same with the Python defaults (I0 = 1, C = 0 / -0.3) inlined

Two syntactic forms of the source are outside pyfn2lean's subset and are desugared HERE, on the source text, before translation
(every other character of the function is passed on unchanged, in particular the float literals):
  * `x op= e`                      ->  `x = x op (e)`                      (numbers: same meaning)
  * `b0 = _get_b0(b0, units)`      ->  the body of `_get_b0` with `return e` replaced by `b0 = e` (arguments must be the
                                       parameter names themselves); its test `units is not None and b0 is integer_one` is
                                       decided per specialisation (b0 defaulted / b0 given) -- any other test => ExtractError.

Data:
  * `combinedA`, `combinedB`       the hard-coded literals of the constants=None paths (for the theorems about the constants)
  * `neutralityAtol`               the literal f in `allclose(net, tot * 0, atol=tot * f)` of ionic_strength
    `allcloseRtol`                 the default `rtol` of chempy.units.allclose
  * `constFaraday`, `constAvogadro`, `constVacuumPermittivity`, `constBoltzmann`, `constPi`, `constMolarGas`
      the SI magnitudes of the attributes of `chempy.units.default_constants` (= `quantities.constants`, guarded on the source
      text of chempy/units.py) that A and B access, read from the INSTALLED `quantities` package as the exact rational value of
      the stored double.  (chempy itself is not imported.)  Trusted: that these doubles are what `constants.<name>` evaluates to;
      the harness re-checks it against the running interpreter on every run (op `constants`).
"""
import ast
from fractions import Fraction
from .common import parse, ExtractError, find_def, seg
from . import pyfn2lean as P

REL = 'chempy/electrolytes.py'
FILES = ['FnElectrolytes.lean']
NS = 'ChemModel.Gen.Electrolytes'

OPS = {ast.Add: '+', ast.Sub: '-', ast.Mult: '*', ast.Div: '/', ast.Pow: '**'}
B0_TEST = 'units is not None and b0 is integer_one'

# attribute of `constants` -> (lean name, expected SI dimensionality string of quantities)
CONSTS = [
    ('Faraday_constant', 'constFaraday', 's*A/mol'),
    ('Avogadro_constant', 'constAvogadro', '1/mol'),
    ('vacuum_permittivity', 'constVacuumPermittivity', 's**4*A**2/(kg*m**3)'),
    ('Boltzmann_constant', 'constBoltzmann', 'kg*m**2/(s**2*K)'),
    ('pi', 'constPi', 'dimensionless'),
    ('molar_gas_constant', 'constMolarGas', 'kg*m**2/(s**2*mol*K)'),
]


def _indent_of(line):
    return line[:len(line) - len(line.lstrip())]


def desugar(src, tree, funcs, helper='_get_b0'):
    """text-level rewriting of AugAssign and of `t = helper(params...)` inside the named functions"""
    lines = src.split('\n')
    h = find_def(tree, helper)
    hparams = [a.arg for a in h.args.args]
    hbody = [s for s in h.body if not (isinstance(s, ast.Expr) and isinstance(s.value, ast.Constant))]

    def conv(stmts, target, ind):
        out = []
        for s in stmts:
            if isinstance(s, ast.Return) and s.value is not None:
                out.append('%s%s = %s' % (ind, target, seg(src, s.value)))
            elif isinstance(s, ast.If):
                out.append('%sif %s:' % (ind, seg(src, s.test)))
                out += conv(s.body, target, ind + '    ')
                if s.orelse:
                    out.append('%selse:' % ind)
                    out += conv(s.orelse, target, ind + '    ')
            else:
                raise ExtractError('%s: statement outside the inlinable subset (line %d)' % (helper, s.lineno))
        return out

    edits = []
    for fn in funcs:
        f = find_def(tree, fn)
        for st in ast.walk(f):
            if isinstance(st, ast.AugAssign):
                if not isinstance(st.target, ast.Name) or type(st.op) not in OPS:
                    raise ExtractError('%s line %d: augmented assignment outside the subset' % (fn, st.lineno))
                ind = _indent_of(lines[st.lineno - 1])
                new = ['%s%s = %s %s (%s)' % (ind, st.target.id, st.target.id, OPS[type(st.op)], seg(src, st.value))]
                edits.append((st.lineno, st.end_lineno, new))
            elif (isinstance(st, ast.Assign) and isinstance(st.value, ast.Call) and isinstance(st.value.func, ast.Name)
                  and st.value.func.id == helper):
                c = st.value
                if (c.keywords or len(c.args) != len(hparams) or len(st.targets) != 1 or not isinstance(st.targets[0], ast.Name)
                        or any(not isinstance(a, ast.Name) or a.id != p for a, p in zip(c.args, hparams))):
                    raise ExtractError('%s line %d: call of %s outside the inlinable form' % (fn, st.lineno, helper))
                ind = _indent_of(lines[st.lineno - 1])
                edits.append((st.lineno, st.end_lineno, conv(hbody, st.targets[0].id, ind)))
    for lo, hi, new in sorted(edits, reverse=True):
        lines[lo - 1:hi] = new
    src2 = '\n'.join(lines)
    return src2, ast.parse(src2)


def _hook(b0_default):
    def hook(node, text):
        if ' '.join((text or '').split()) == B0_TEST:
            return bool(b0_default)      # evaluated only when `units` is an object (otherwise decided statically)
        return None
    return hook


def _exact(x):
    q = Fraction(float(x))
    if float(q) != float(x):
        raise ExtractError('not a finite double: %r' % (x,))
    return q


def _literal_def(name, doc, q):
    return ('/-- %s -/\ndef %s {α : Type} [NatCast α] [Neg α] [Div α] : α := Num.frac (%d) %d\n'
            % (doc, name, q.numerator, q.denominator))


def _dec_def(name, doc, text):
    q = P.num_text_to_fraction(text)
    k = 0
    while (q * 10 ** k).denominator != 1:
        k += 1
        if k > 400:
            raise ExtractError('literal %s has no finite decimal expansion' % text)
    return ('/-- %s (source text `%s`) -/\ndef %s {α : Type} [NatCast α] [Neg α] [Div α] : α := Num.dec (%d) %d\n'
            % (doc, text, name, int(q * 10 ** k), k))


def _combined_literal(src, tree, fn):
    """the float literal assigned to `combined` in the `constants is None` branch"""
    f = find_def(tree, fn)
    found = [st for st in ast.walk(f) if isinstance(st, ast.Assign) and len(st.targets) == 1
             and isinstance(st.targets[0], ast.Name) and st.targets[0].id == 'combined']
    if len(found) != 1 or not isinstance(found[0].value, ast.Constant) or not isinstance(found[0].value.value, (int, float)):
        raise ExtractError('%s: expected exactly one `combined = <number>`' % fn)
    return seg(src, found[0].value)


def _tolerances(repo, src, tree):
    f = find_def(tree, 'ionic_strength')
    calls = [c for c in ast.walk(f) if isinstance(c, ast.Call) and isinstance(c.func, ast.Name) and c.func.id == 'allclose']
    if len(calls) != 1:
        raise ExtractError('ionic_strength: expected exactly one call of allclose')
    c = calls[0]
    kws = {k.arg: k.value for k in c.keywords}
    if (len(c.args) != 2 or set(kws) != {'atol'} or ' '.join(seg(src, c.args[0]).split()) != 'net'
            or ' '.join(seg(src, c.args[1]).split()) != 'tot * 0'):
        raise ExtractError('ionic_strength: allclose call is not `allclose(net, tot * 0, atol=...)`')
    at = kws['atol']
    if not (isinstance(at, ast.BinOp) and isinstance(at.op, ast.Mult) and isinstance(at.left, ast.Name) and at.left.id == 'tot'
            and isinstance(at.right, ast.Constant) and isinstance(at.right.value, (int, float))):
        raise ExtractError('ionic_strength: atol is not `tot * <number>`')
    atol_text = seg(src, at.right)
    usrc, utree = parse(repo, 'chempy/units.py')
    ac = [n for n in utree.body if isinstance(n, ast.FunctionDef) and n.name == 'allclose']
    if len(ac) != 1:
        raise ExtractError('units.py: no top-level allclose')
    a = ac[0].args
    names = [x.arg for x in a.args]
    if names != ['a', 'b', 'rtol', 'atol'] or len(a.defaults) != 2:
        raise ExtractError('units.allclose: signature changed')
    r, at_def = a.defaults
    if not (isinstance(r, ast.Constant) and isinstance(r.value, (int, float)) and isinstance(at_def, ast.Constant) and at_def.value is None):
        raise ExtractError('units.allclose: defaults changed')
    # guard: default_constants is quantities.constants
    ok = False
    for n in ast.walk(utree):
        if (isinstance(n, ast.Assign) and len(n.targets) == 1 and isinstance(n.targets[0], ast.Name)
                and n.targets[0].id == 'default_constants' and ' '.join(seg(usrc, n.value).split()) == 'NameSpace(pq.constants)'):
            ok = True
    if not ok:
        raise ExtractError('units.py: default_constants is no longer NameSpace(pq.constants)')
    return atol_text, seg(usrc, r)


def _constants():
    try:
        import quantities as pq
    except Exception as e:  # pragma: no cover
        raise ExtractError('cannot import quantities: %s' % e)
    out = []
    for attr, lean, dim in CONSTS:
        q = getattr(pq.constants, attr)
        s = q.simplified
        d = s.dimensionality.string
        if d != dim:
            raise ExtractError('quantities.constants.%s has SI dimensionality %s, expected %s' % (attr, d, dim))
        if float(s.magnitude) != float(q.definition.magnitude):     # the definition is given in coherent SI units
            raise ExtractError('quantities.constants.%s is not defined in coherent SI units' % attr)
        out.append((attr, lean, dim, _exact(float(s.magnitude))))
    return out


def generate(repo):
    src0, tree0 = parse(repo, REL)
    src, tree = desugar(src0, tree0, ['A', 'B'])
    _, cenv = P.translate_module_constants(src, tree, names=['integer_one'])
    parts = []

    def tr(py, ln, params, objects=(), b0_default=False, doc=None):
        d = P.translate_function(src, tree, py, lean_name=ln, const_env=cenv, params=params, objects=objects,
                                 cond_hook=_hook(b0_default))
        parts.append(d)
        return d

    parts.append(_dec_def('combinedA', 'hard-coded combined factor of `A` (constants=None)', _combined_literal(src0, tree0, 'A')))
    parts.append(_dec_def('combinedB', 'hard-coded combined factor of `B` (constants=None)', _combined_literal(src0, tree0, 'B')))
    atol_text, rtol_text = _tolerances(repo, src0, tree0)
    parts.append(_dec_def('neutralityAtol', 'factor f of `atol=tot * f` in the neutrality test of ionic_strength', atol_text))
    parts.append(_dec_def('allcloseRtol', 'default rtol of chempy.units.allclose', rtol_text))
    for attr, lean, dim, q in _constants():
        parts.append(_literal_def(lean, 'SI magnitude (%s) of quantities.constants.%s = exact value of the double %r'
                                  % (dim, attr, float(q)), q))

    full = ['eps_r', 'T', 'rho', 'b0']
    nob0 = ['eps_r', 'T', 'rho']
    for py, l in (('A', 'a'), ('B', 'b')):
        tr(py, l + 'Num', full)
        tr(py, l + 'NumUnits', full, objects=('units',))
        tr(py, l + 'NumUnitsB0', nob0, objects=('units',), b0_default=True)
        tr(py, l + 'Const', full, objects=('constants',))
        tr(py, l + 'ConstUnitsB0', nob0, objects=('units', 'constants'), b0_default=True)
    tr('limiting_log_gamma', 'limitingLogGamma', ['IS', 'z', 'A', 'I0'])
    tr('extended_log_gamma', 'extendedLogGamma', ['IS', 'z', 'a', 'A', 'B', 'C', 'I0'])
    tr('davies_log_gamma', 'daviesLogGamma', ['IS', 'z', 'A', 'C', 'I0'])
    tr('limiting_log_gamma', 'limitingLogGammaD', ['IS', 'z', 'A'])
    tr('extended_log_gamma', 'extendedLogGammaD', ['IS', 'z', 'a', 'A', 'B'])
    tr('extended_log_gamma', 'extendedLogGammaDC', ['IS', 'z', 'a', 'A', 'B', 'C'])
    tr('davies_log_gamma', 'daviesLogGammaD', ['IS', 'z', 'A'])
    tr('davies_log_gamma', 'daviesLogGammaDC', ['IS', 'z', 'A', 'C'])
    return {'FnElectrolytes.lean': P.wrap_module(parts, REL, namespace=NS)}
