"""chempy/electrolytes.py -> Gen/FnElectrolytes.lean   (namespace ChemModel.Gen.Electrolytes)

Translated by pyfn2lean (function bodies, every code path specialised separately):

  A   aNum          eps_r T rho b0                                  constants=None, units=None   (hard-coded combined factor)
      aNumUnits     eps_r T rho b0 units_meter units_Kelvin units_mol          constants=None, units given, b0 given explicitly
      aNumUnitsB0   eps_r T rho units_molal units_meter units_Kelvin units_mol constants=None, units given, b0 left at its default
                                                                               (`b0 is integer_one` -> b0 = 1*units.molal)
      aConst        eps_r T rho b0 constants_{Faraday_constant,Avogadro_constant,vacuum_permittivity,Boltzmann_constant,pi}
      aConstUnitsB0 eps_r T rho units_molal constants_...                      constants given, units given, b0 default
  B   bNum, bNumUnits, bNumUnitsB0, bConst (constants_{Faraday_constant,vacuum_permittivity,molar_gas_constant}), bConstUnitsB0
  limitingLogGamma IS z A I0 ; extendedLogGamma IS z a A B C I0 ; daviesLogGamma IS z A C I0 ;
  limitingLogGammaD / extendedLogGammaD / daviesLogGammaD : the same with the Python defaults (I0 = 1, C = 0 / -0.3) inlined

Two syntactic forms of the source are outside pyfn2lean's subset and are desugared HERE, on the source text, before translation
(every other character of the function is passed on unchanged, in particular the float literals):
  * `x op= e`                      ->  `x = x op (e)`                      (numbers: same meaning)
  * `b0 = _get_b0(b0, units)`      ->  the body of `_get_b0` with `return e` replaced by `b0 = e` (arguments must be the
                                       parameter names themselves); its test `units is not None and b0 is integer_one` is
                                       decided per specialisation (b0 defaulted / b0 given) -- any other test => ExtractError.

Data:
  * `combinedA`, `combinedB`       the hard-coded literals of the constants=None paths (for the theorems about the constants)
  * `neutralityAtol`               the literal f in `allclose(net, tot * 0, atol=tot * f)` of ionic_strength
    `allcloseRtol`                 the default `rtol` of chempy.units.allclose
  * `constFaraday`, `constAvogadro`, `constVacuumPermittivity`, `constBoltzmann`, `constPi`, `constMolarGas`
      the SI magnitudes of the attributes of `chempy.units.default_constants` (= `quantities.constants`, guarded on the source
      text of chempy/units.py) that A and B access, read from the INSTALLED `quantities` package as the exact rational value of
      the stored double.  (chempy itself is not imported.)  Trusted: that these doubles are what `constants.<name>` evaluates to;
      the harness re-checks it against the running interpreter on every run (op `constants`).
"""
import ast
from fractions import Fraction
from .common import parse, ExtractError, find_def, seg, lean_str
from . import pyfn2lean as P

REL = 'chempy/electrolytes.py'
FILES = ['FnElectrolytes.lean']
NS = 'ChemModel.Gen.Electrolytes'

OPS = {ast.Add: '+', ast.Sub: '-', ast.Mult: '*', ast.Div: '/', ast.Pow: '**'}
B0_TEST = 'units is not None and b0 is integer_one'

# attribute of `constants` -> (lean name, expected SI dimensionality string of quantities)
CONSTS = [
    ('Faraday_constant', 'constFaraday', 's*A/mol'),
    ('Avogadro_constant', 'constAvogadro', '1/mol'),
    ('vacuum_permittivity', 'constVacuumPermittivity', 's**4*A**2/(kg*m**3)'),
    ('Boltzmann_constant', 'constBoltzmann', 'kg*m**2/(s**2*K)'),
    ('pi', 'constPi', 'dimensionless'),
    ('molar_gas_constant', 'constMolarGas', 'kg*m**2/(s**2*mol*K)'),
]


def _indent_of(line):
    return line[:len(line) - len(line.lstrip())]


def desugar(src, tree, funcs, helper='_get_b0'):
    """text-level rewriting of AugAssign and of `t = helper(params...)` inside the named functions"""
    lines = src.split('\n')
    h = find_def(tree, helper)
    hparams = [a.arg for a in h.args.args]
    hbody = [s for s in h.body if not (isinstance(s, ast.Expr) and isinstance(s.value, ast.Constant))]

    def conv(stmts, target, ind):
        out = []
        for s in stmts:
            if isinstance(s, ast.Return) and s.value is not None:
                out.append('%s%s = %s' % (ind, target, seg(src, s.value)))
            elif isinstance(s, ast.If):
                out.append('%sif %s:' % (ind, seg(src, s.test)))
                out += conv(s.body, target, ind + '    ')
                if s.orelse:
                    out.append('%selse:' % ind)
                    out += conv(s.orelse, target, ind + '    ')
            else:
                raise ExtractError('%s: statement outside the inlinable subset (line %d)' % (helper, s.lineno))
        return out

    edits = []
    for fn in funcs:
        f = find_def(tree, fn)
        for st in ast.walk(f):
            if isinstance(st, ast.AugAssign):
                if not isinstance(st.target, ast.Name) or type(st.op) not in OPS:
                    raise ExtractError('%s line %d: augmented assignment outside the subset' % (fn, st.lineno))
                ind = _indent_of(lines[st.lineno - 1])
                new = ['%s%s = %s %s (%s)' % (ind, st.target.id, st.target.id, OPS[type(st.op)], seg(src, st.value))]
                edits.append((st.lineno, st.end_lineno, new))
            elif (isinstance(st, ast.Assign) and isinstance(st.value, ast.Call) and isinstance(st.value.func, ast.Name)
                  and st.value.func.id == helper):
                c = st.value
                if (c.keywords or len(c.args) != len(hparams) or len(st.targets) != 1 or not isinstance(st.targets[0], ast.Name)
                        or any(not isinstance(a, ast.Name) or a.id != p for a, p in zip(c.args, hparams))):
                    raise ExtractError('%s line %d: call of %s outside the inlinable form' % (fn, st.lineno, helper))
                ind = _indent_of(lines[st.lineno - 1])
                edits.append((st.lineno, st.end_lineno, conv(hbody, st.targets[0].id, ind)))
    for lo, hi, new in sorted(edits, reverse=True):
        lines[lo - 1:hi] = new
    src2 = '\n'.join(lines)
    return src2, ast.parse(src2)


def _hook(b0_default):
    def hook(node, text):
        if ' '.join((text or '').split()) == B0_TEST:
            return bool(b0_default)      # evaluated only when `units` is an object (otherwise decided statically)
        return None
    return hook


def _exact(x):
    q = Fraction(float(x))
    if float(q) != float(x):
        raise ExtractError('not a finite double: %r' % (x,))
    return q


def _literal_def(name, doc, q):
    return ('/-- %s -/\ndef %s {α : Type} [NatCast α] [Neg α] [Div α] : α := Num.frac (%d) %d\n'
            % (doc, name, q.numerator, q.denominator))


def _dec_def(name, doc, text):
    q = P.num_text_to_fraction(text)
    k = 0
    while (q * 10 ** k).denominator != 1:
        k += 1
        if k > 400:
            raise ExtractError('literal %s has no finite decimal expansion' % text)
    return ('/-- %s (source text `%s`) -/\ndef %s {α : Type} [NatCast α] [Neg α] [Div α] : α := Num.dec (%d) %d\n'
            % (doc, text, name, int(q * 10 ** k), k))


def _combined_literal(src, tree, fn):
    """the float literal assigned to `combined` in the `constants is None` branch"""
    f = find_def(tree, fn)
    found = [st for st in ast.walk(f) if isinstance(st, ast.Assign) and len(st.targets) == 1
             and isinstance(st.targets[0], ast.Name) and st.targets[0].id == 'combined']
    if len(found) != 1 or not isinstance(found[0].value, ast.Constant) or not isinstance(found[0].value.value, (int, float)):
        raise ExtractError('%s: expected exactly one `combined = <number>`' % fn)
    return seg(src, found[0].value)


def _tolerances(repo, src, tree):
    an = _analyse_ionic_strength(src, tree)
    at = an['atol']
    if not (isinstance(at, ast.BinOp) and isinstance(at.op, ast.Mult) and isinstance(at.left, ast.Name) and at.left.id == an['T']
            and isinstance(at.right, ast.Constant) and isinstance(at.right.value, (int, float))):
        raise ExtractError('ionic_strength: atol is not `<total> * <number>`')
    atol_text = seg(src, at.right)
    usrc, utree = parse(repo, 'chempy/units.py')
    ac = [n for n in utree.body if isinstance(n, ast.FunctionDef) and n.name == 'allclose']
    if len(ac) != 1:
        raise ExtractError('units.py: no top-level allclose')
    a = ac[0].args
    names = [x.arg for x in a.args]
    if names != ['a', 'b', 'rtol', 'atol'] or len(a.defaults) != 2:
        raise ExtractError('units.allclose: signature changed')
    r, at_def = a.defaults
    if not (isinstance(r, ast.Constant) and isinstance(r.value, (int, float)) and isinstance(at_def, ast.Constant) and at_def.value is None):
        raise ExtractError('units.allclose: defaults changed')
    # guard: default_constants is quantities.constants
    ok = False
    for n in ast.walk(utree):
        if (isinstance(n, ast.Assign) and len(n.targets) == 1 and isinstance(n.targets[0], ast.Name)
                and n.targets[0].id == 'default_constants' and ' '.join(seg(usrc, n.value).split()) == 'NameSpace(pq.constants)'):
            ok = True
    if not ok:
        raise ExtractError('units.py: default_constants is no longer NameSpace(pq.constants)')
    return atol_text, seg(usrc, r)


def _constants():
    try:
        import quantities as pq
    except Exception as e:  # pragma: no cover
        raise ExtractError('cannot import quantities: %s' % e)
    out = []
    for attr, lean, dim in CONSTS:
        q = getattr(pq.constants, attr)
        s = q.simplified
        d = s.dimensionality.string
        if d != dim:
            raise ExtractError('quantities.constants.%s has SI dimensionality %s, expected %s' % (attr, d, dim))
        if float(s.magnitude) != float(q.definition.magnitude):     # the definition is given in coherent SI units
            raise ExtractError('quantities.constants.%s is not defined in coherent SI units' % attr)
        out.append((attr, lean, dim, _exact(float(s.magnitude))))
    return out


UNIT_ORDER = ['units_molal', 'units_meter', 'units_Kelvin', 'units_mol']
CONST_ORDER = ['constants_Faraday_constant', 'constants_Avogadro_constant', 'constants_vacuum_permittivity',
               'constants_Boltzmann_constant', 'constants_pi', 'constants_molar_gas_constant']


def _canonical_wrapper(d, name, params):
    """`def <name>` with the FIXED argument order  params, units (molal, meter, Kelvin, mol), constants (F, N_A, eps0, k_B, pi, R)
    around the translated `<name>_raw`, whatever order the translator chooses for the attribute arguments"""
    extra = [a for a in d.args if a not in params]
    order = list(params) + [a for a in UNIT_ORDER if a in extra] + [a for a in CONST_ORDER if a in extra]
    if sorted(order) != sorted(d.args):
        raise ExtractError('%s: unexpected attribute arguments %s' % (name, ', '.join(d.args)))
    return ('/-- `%s` with the canonical argument order (%s) -/\ndef %s {α : Type} %s (%s : α) : α :=\n  %s %s\n'
            % (d.name, ', '.join(order), name, P._binders(d.classes), ' '.join(order), d.name, ' '.join(d.args)))


def _one(nodes, what):
    if len(nodes) != 1:
        raise ExtractError('ionic_strength / allclose: expected exactly one %s, found %d' % (what, len(nodes)))
    return nodes[0]


def _norm(src, node):
    return ' '.join(seg(src, node).split())


def _none_start_idiom(stmts, src):
    """`acc = None` ... `for <target> in <iter>: if acc is None: acc = E else: acc += E` (or `acc = acc + E`) inside a statement list
    -> list of (acc, loop node, E node).  The first and the added term must be the same expression (up to white space)."""
    out = []
    none_assigned = set()
    for st in stmts:
        if (isinstance(st, ast.Assign) and len(st.targets) == 1 and isinstance(st.targets[0], ast.Name)
                and isinstance(st.value, ast.Constant) and st.value.value is None):
            none_assigned.add(st.targets[0].id)
        if not isinstance(st, ast.For) or st.orelse or len(st.body) != 1 or not isinstance(st.body[0], ast.If):
            continue
        br = st.body[0]
        t = br.test
        if isinstance(t, ast.Compare) and len(t.ops) == 1 and isinstance(t.left, ast.Name) and isinstance(t.comparators[0], ast.Constant) \
                and t.comparators[0].value is None and isinstance(t.ops[0], (ast.Is, ast.IsNot)):
            first, rest = (br.body, br.orelse) if isinstance(t.ops[0], ast.Is) else (br.orelse, br.body)     # if/else may be inverted
        else:
            continue
        acc = t.left.id
        if len(first) != 1 or len(rest) != 1 or not isinstance(first[0], ast.Assign) or _norm(src, first[0].targets[0]) != acc:
            continue
        e1 = first[0].value
        r = rest[0]
        if isinstance(r, ast.AugAssign) and isinstance(r.op, ast.Add) and _norm(src, r.target) == acc:
            e2 = r.value
        elif (isinstance(r, ast.Assign) and _norm(src, r.targets[0]) == acc and isinstance(r.value, ast.BinOp)
              and isinstance(r.value.op, ast.Add) and _norm(src, r.value.left) == acc):
            e2 = r.value.right
        else:
            continue
        if acc not in none_assigned:
            raise ExtractError('accumulation of `%s` (line %d) does not start from None' % (acc, st.lineno))
        if _norm(src, e1) != _norm(src, e2):
            raise ExtractError('first term `%s` and added term `%s` of `%s` differ' % (_norm(src, e1), _norm(src, e2), acc))
        out.append((acc, st, e1))
    return out


def _sum_helpers(src, tree):
    """module-level helpers `def h(xs): acc = None; for x in xs: <None-start idiom with the term x>; return acc` (any names)"""
    hs = set()
    for f in tree.body:
        if not isinstance(f, ast.FunctionDef) or len(f.args.args) != 1 or f.args.defaults or f.args.vararg or f.args.kwarg:
            continue
        body = [n for n in f.body if not (isinstance(n, ast.Expr) and isinstance(n.value, ast.Constant))]
        try:
            found = _none_start_idiom(body, src)
        except ExtractError:
            continue
        if (len(body) == 3 and len(found) == 1 and isinstance(body[2], ast.Return) and isinstance(body[2].value, ast.Name)
                and body[2].value.id == found[0][0] and isinstance(found[0][1].iter, ast.Name)
                and found[0][1].iter.id == f.args.args[0].arg and isinstance(found[0][1].target, ast.Name)
                and isinstance(found[0][2], ast.Name) and found[0][2].id == found[0][1].target.id):
            hs.add(f.name)
    return hs


def _accumulations(src, tree, stmts):
    """every `acc` of the statement list that is the None-started sum of E over `for <b>, <z> in zip(molalities, charges)`, written
    either as the explicit loop or as `acc = helper(E for <b>, <z> in zip(molalities, charges))` with a helper of `_sum_helpers`:
    {acc: (name of b, name of z, E node)}"""
    def pair(target, it):
        if not (isinstance(target, ast.Tuple) and len(target.elts) == 2 and all(isinstance(e, ast.Name) for e in target.elts)
                and _norm(src, it) == 'zip(molalities, charges)'):
            raise ExtractError('ionic_strength: accumulation does not run over `for b, z in zip(molalities, charges)`')
        return target.elts[0].id, target.elts[1].id
    def fresh(e):
        # `acc = E` followed by `acc += E'` mutates the object E evaluated to: harmless only if E creates a new object
        if not isinstance(e, (ast.BinOp, ast.UnaryOp, ast.Call, ast.Constant)):
            raise ExtractError('ionic_strength: the accumulated term `%s` is not a fresh object (the in-place `+=` would modify the '
                               'caller\'s molality)' % _norm(src, e))
        return e
    out = {}
    for acc, loop, e in _none_start_idiom(stmts, src):
        out[acc] = pair(loop.target, loop.iter) + (fresh(e),)
    helpers = _sum_helpers(src, tree)
    for st in stmts:
        if (isinstance(st, ast.Assign) and len(st.targets) == 1 and isinstance(st.targets[0], ast.Name)
                and isinstance(st.value, ast.Call) and isinstance(st.value.func, ast.Name) and st.value.func.id in helpers
                and len(st.value.args) == 1 and not st.value.keywords
                and isinstance(st.value.args[0], (ast.GeneratorExp, ast.ListComp)) and len(st.value.args[0].generators) == 1
                and not st.value.args[0].generators[0].ifs):
            g = st.value.args[0]
            out[st.targets[0].id] = pair(g.generators[0].target, g.generators[0].iter) + (fresh(g.elt),)
    return out


def _analyse_ionic_strength(src, tree):
    """the data flow of ionic_strength, independent of variable names and of how the two sums are spelled:
    total T (top level) and net N (inside `if warn:`) accumulations, `return R(T)`, `if not allclose(N, REF(T), atol=ATOL(T)): warn`"""
    f = find_def(tree, 'ionic_strength')
    top = _accumulations(src, tree, f.body)
    warn_if = _one([n for n in f.body if isinstance(n, ast.If) and _norm(src, n.test) == 'warn' and not n.orelse], '`if warn:` block')
    inner = _accumulations(src, tree, warn_if.body)
    ret = _one([n for n in f.body if isinstance(n, ast.Return)], 'return')
    if f.body[-1] is not ret:
        raise ExtractError('ionic_strength: the return is not the last statement')
    tests = [n for n in warn_if.body if isinstance(n, ast.If)]
    test = _one(tests, 'neutrality test in the warn block')
    t = test.test
    if isinstance(t, ast.UnaryOp) and isinstance(t.op, ast.Not):
        call, warn_body, other = t.operand, test.body, test.orelse
    else:                                                              # `if allclose(...): pass else: warn`
        call, warn_body, other = t, test.orelse, [n for n in test.body if not isinstance(n, ast.Pass)]
    if not (isinstance(call, ast.Call) and getattr(call.func, 'id', None) == 'allclose' and len(warn_body) == 1 and not other
            and _norm(src, warn_body[0]).startswith('warnings.warn(')):
        raise ExtractError('ionic_strength: neutrality test is no longer `if not allclose(...): warnings.warn(...)`')
    kws = {k.arg: k.value for k in call.keywords}
    if len(call.args) != 2 or set(kws) != {'atol'} or not isinstance(call.args[0], ast.Name) or call.args[0].id not in inner:
        raise ExtractError('ionic_strength: allclose is not called as allclose(<net sum>, <ref>, atol=<atol>)')
    N = call.args[0].id
    used = lambda node: {n.id for n in ast.walk(node) if isinstance(n, ast.Name)}
    cand = [v for v in top if v in used(ret.value)]
    T = _one(cand, 'top-level sum used by the return value')
    for node, what in ((ret.value, 'return value'), (call.args[1], 'reference of allclose'), (kws['atol'], 'atol')):
        if used(node) - {T}:
            raise ExtractError('ionic_strength: %s depends on more than the total sum (%s)' % (what, ', '.join(sorted(used(node) - {T}))))
    if len(top) != 1 or len(inner) != 1:
        raise ExtractError('ionic_strength: expected one sum at top level and one in the warn block')
    return {'T': T, 'N': N, 'tot': top[T], 'net': inner[N], 'ret': ret.value, 'ref': call.args[1], 'atol': kws['atol']}


def _ionic_strength_pieces(repo, src, tree):
    """python source of small straight-line functions holding the expressions of ionic_strength and of the scalar path of
    chempy.units.allclose, verbatim from the source text (translated afterwards by pyfn2lean)"""
    an = _analyse_ionic_strength(src, tree)
    T = an['T']
    usrc, utree = parse(repo, 'chempy/units.py')
    ac = _one([n for n in utree.body if isinstance(n, ast.FunctionDef) and n.name == 'allclose'], 'units.allclose')
    body = [n for n in ac.body if not (isinstance(n, ast.Expr) and isinstance(n.value, ast.Constant))]
    # scalar path: [if UncertainQuantity ...]* ; try: d = abs(a - b) ... ; lim = abs(a) * rtol ; if atol is not None: lim += atol ;
    #              try: len(d) except TypeError: return d <= lim  else: ...
    trys = [n for n in body if isinstance(n, ast.Try)]
    if len(trys) != 2:
        raise ExtractError('units.allclose: structure changed (expected two try blocks)')
    d_assign = trys[0].body[0]
    if not (len(trys[0].body) == 1 and isinstance(d_assign, ast.Assign) and seg(usrc, d_assign.targets[0]) == 'd'):
        raise ExtractError('units.allclose: `d = ...` changed')
    lim_assign = _one([n for n in body if isinstance(n, ast.Assign) and seg(usrc, n.targets[0]) == 'lim'], '`lim = ...`')
    lim_if = _one([n for n in body if isinstance(n, ast.If) and ' '.join(seg(usrc, n.test).split()) == 'atol is not None'],
                  '`if atol is not None:`')
    st = lim_if.body[0] if len(lim_if.body) == 1 and not lim_if.orelse else None
    if isinstance(st, ast.AugAssign) and isinstance(st.op, ast.Add) and seg(usrc, st.target) == 'lim':
        lim_added = st.value                                            # `lim += atol`
    elif (isinstance(st, ast.Assign) and len(st.targets) == 1 and seg(usrc, st.targets[0]) == 'lim' and isinstance(st.value, ast.BinOp)
          and isinstance(st.value.op, ast.Add) and _norm(usrc, st.value.left) == 'lim'):
        lim_added = st.value.right                                      # `lim = lim + atol`  (same value, not in place)
    else:
        raise ExtractError('units.allclose: `lim = lim + atol` changed')
    t2 = trys[1]
    if not (len(t2.body) == 1 and ' '.join(seg(usrc, t2.body[0]).split()) == 'len(d)' and len(t2.handlers) == 1
            and getattr(t2.handlers[0].type, 'id', None) == 'TypeError' and len(t2.handlers[0].body) == 1
            and isinstance(t2.handlers[0].body[0], ast.Return)):
        raise ExtractError('units.allclose: scalar return path changed')
    ret_text = ' '.join(seg(usrc, t2.handlers[0].body[0].value).split())
    (b1, z1, e_tot), (b2, z2, e_net) = an['tot'], an['net']
    py = '\n'.join([
        'def is_term_tot(%s, %s):\n    return %s\n' % (b1, z1, seg(src, e_tot)),
        'def is_term_net(%s, %s):\n    return %s\n' % (b2, z2, seg(src, e_net)),
        'def is_result(%s):\n    return %s\n' % (T, seg(src, an['ret'])),
        'def is_neutral_ref(%s):\n    return %s\n' % (T, seg(src, an['ref'])),
        'def is_neutral_atol(%s):\n    return %s\n' % (T, seg(src, an['atol'])),
        'def allclose_d(a, b):\n    return %s\n' % seg(usrc, d_assign.value),
        'def allclose_lim(a, rtol, atol):\n    lim = %s\n    lim = lim + (%s)\n    return lim\n'
        % (seg(usrc, lim_assign.value), seg(usrc, lim_added)),
    ])
    # the two array returns (scalar lim / broadcast of lim and d) are hand-modelled: their text is guarded
    # For the 1-d arrays of the model `len(x) != len(y)` and `np.shape(x) != np.shape(y)` say the same: both spellings of the
    # "shapes differ" test are normalised to `shape_differs(x, y)` before the text is pinned.
    class _ShapeTest(ast.NodeTransformer):
        def visit_Compare(self, n):
            self.generic_visit(n)
            if len(n.ops) == 1 and isinstance(n.ops[0], ast.NotEq) and isinstance(n.left, ast.Call) and isinstance(n.comparators[0], ast.Call):
                l, r = n.left, n.comparators[0]
                fn = lambda c: ast.unparse(c.func)
                if (fn(l) == fn(r) and fn(l) in ('len', 'np.shape', 'numpy.shape') and len(l.args) == len(r.args) == 1
                        and not l.keywords and not r.keywords and isinstance(l.args[0], ast.Name) and isinstance(r.args[0], ast.Name)):
                    return ast.Call(func=ast.Name(id='shape_differs', ctx=ast.Load()), args=[l.args[0], r.args[0]], keywords=[])
            return n
    import copy
    arr_text = ' ; '.join(' '.join(ast.unparse(ast.fix_missing_locations(_ShapeTest().visit(copy.deepcopy(n)))).split())
                          for n in t2.orelse)
    return py, ret_text, arr_text


def _signature(tree, name, lean):
    """(parameter, default as source text | "") list of a top-level function / method-free def, as a Lean literal"""
    f = find_def(tree, name)
    a = f.args
    names = [x.arg for x in a.args]
    defs = [''] * (len(names) - len(a.defaults)) + [ast.unparse(d) for d in a.defaults]
    items = ', '.join('(%s, %s)' % (lean_str(n), lean_str(d)) for n, d in zip(names, defs))
    return '/-- parameters and defaults of `%s` (source text) -/\ndef %s : List (String × String) := [%s]\n' % (name, lean, items)


PRELUDE = """/-- Python `abs` on numbers (trusted reading): used by the translated body of `chempy.units.allclose` -/
class HasPyAbs (α : Type) where pabs : α → α
instance {α : Type} [LT α] [DecidableLT α] [Neg α] [NatCast α] : HasPyAbs α := ⟨fun x => if x < ((0 : Nat) : α) then -x else x⟩
"""


def generate(repo):
    src0, tree0 = parse(repo, REL)
    src, tree = desugar(src0, tree0, ['A', 'B'])
    _, cenv = P.translate_module_constants(src, tree, names=['integer_one'])
    parts = []

    def tr(py, ln, params, objects=(), b0_default=False, doc=None):
        # `op=` is desugared by this extractor: in-place updates that are NOT pure re-bindings (target is a parameter / an alias) are
        # reported by the translator's analysis on the ORIGINAL function and hashed into the signature record (guard opens)
        impure = P.impure_augassigns(find_def(tree0, py))
        d = P.translate_function(src, tree, py, lean_name=ln, const_env=cenv, params=params, objects=objects,
                                 cond_hook=_hook(b0_default), extra_skipped=impure)
        parts.append(d)
        return d

    parts.append(_dec_def('combinedA', 'hard-coded combined factor of `A` (constants=None)', _combined_literal(src0, tree0, 'A')))
    parts.append(_dec_def('combinedB', 'hard-coded combined factor of `B` (constants=None)', _combined_literal(src0, tree0, 'B')))
    atol_text, rtol_text = _tolerances(repo, src0, tree0)
    parts.append(_dec_def('neutralityAtol', 'factor f of `atol=tot * f` in the neutrality test of ionic_strength', atol_text))
    parts.append(_dec_def('allcloseRtol', 'default rtol of chempy.units.allclose', rtol_text))
    for attr, lean, dim, q in _constants():
        parts.append(_literal_def(lean, 'SI magnitude (%s) of quantities.constants.%s = exact value of the double %r'
                                  % (dim, attr, float(q)), q))

    full = ['eps_r', 'T', 'rho', 'b0']
    nob0 = ['eps_r', 'T', 'rho']

    def trw(py, ln, params, objects=(), b0_default=False):
        d = tr(py, ln + '_raw', params, objects, b0_default)
        parts.append(_canonical_wrapper(d, ln, params))

    for py, l in (('A', 'a'), ('B', 'b')):
        tr(py, l + 'Num', full)
        trw(py, l + 'NumUnits', full, objects=('units',))
        trw(py, l + 'NumUnitsB0', nob0, objects=('units',), b0_default=True)
        trw(py, l + 'Const', full, objects=('constants',))
        trw(py, l + 'ConstUnitsB0', nob0, objects=('units', 'constants'), b0_default=True)
    tr('limiting_log_gamma', 'limitingLogGamma', ['IS', 'z', 'A', 'I0'])
    tr('extended_log_gamma', 'extendedLogGamma', ['IS', 'z', 'a', 'A', 'B', 'C', 'I0'])
    tr('davies_log_gamma', 'daviesLogGamma', ['IS', 'z', 'A', 'C', 'I0'])
    tr('limiting_log_gamma', 'limitingLogGammaD', ['IS', 'z', 'A'])
    tr('extended_log_gamma', 'extendedLogGammaD', ['IS', 'z', 'a', 'A', 'B'])
    tr('extended_log_gamma', 'extendedLogGammaDC', ['IS', 'z', 'a', 'A', 'B', 'C'])
    tr('davies_log_gamma', 'daviesLogGammaD', ['IS', 'z', 'A'])
    tr('davies_log_gamma', 'daviesLogGammaDC', ['IS', 'z', 'A', 'C'])
    # expressions of ionic_strength and of the scalar path of allclose, verbatim from the source text
    pysrc, ret_text, arr_text = _ionic_strength_pieces(repo, src0, tree0)
    ptree = ast.parse(pysrc)
    absf = {'abs': ('HasPyAbs.pabs', 'HasPyAbs')}
    for py, ln in (('is_term_tot', 'isTermTot'), ('is_term_net', 'isTermNet'), ('is_result', 'isResult'),
                   ('is_neutral_ref', 'isNeutralRef'), ('is_neutral_atol', 'isNeutralAtol'), ('allclose_d', 'allcloseD'),
                   ('allclose_lim', 'allcloseLim')):
        parts.append(P.translate_function(pysrc, ptree, py, lean_name=ln, const_env={}, extra_funcs=absf,
                                          doc='expression of the source (see tools/extract/electrolytes.py)'))
    parts.append('/-- the scalar return of chempy.units.allclose (`except TypeError:` branch of `len(d)`), source text -/\n'
                 'def allcloseReturnText : String := %s\n' % lean_str(ret_text))
    parts.append('/-- the array branch of chempy.units.allclose (`else:` of `try: len(d)`), normalised source text -/\n'
                 'def allcloseArrayBranchText : String := %s\n' % lean_str(arr_text))
    usrc, utree = parse(repo, 'chempy/units.py')
    for name, lean in (('ionic_strength', 'sigIonicStrength'), ('A', 'sigA'), ('B', 'sigB'), ('limiting_log_gamma', 'sigLimiting'),
                       ('extended_log_gamma', 'sigExtended'), ('davies_log_gamma', 'sigDavies'),
                       ('limiting_activity_product', 'sigLimitingProduct'), ('extended_activity_product', 'sigExtendedProduct'),
                       ('davies_activity_product', 'sigDaviesProduct')):
        parts.append(_signature(tree0, name, lean))
    parts.append(_signature(utree, 'allclose', 'sigAllclose'))
    # the hand-modelled bodies (loops of the activity products, the callable classes): normalised source text, pinned by `_guard`s
    def body_text(node):
        body = [n for n in node.body if not (isinstance(n, ast.Expr) and isinstance(n.value, ast.Constant))]
        return ' ; '.join(' '.join(ast.unparse(n).split()) for n in body)
    for name, lean in (('limiting_activity_product', 'srcLimitingProduct'), ('extended_activity_product', 'srcExtendedProduct'),
                       ('davies_activity_product', 'srcDaviesProduct')):
        parts.append('/-- body of `%s` (normalised source text) -/\ndef %s : String := %s\n'
                     % (name, lean, lean_str(body_text(find_def(tree0, name)))))
    for cls, lean in (('_ActivityProductBase', 'srcBaseClass'), ('LimitingDebyeHuckelActivityProduct', 'srcLimitingClass'),
                      ('ExtendedDebyeHuckelActivityProduct', 'srcExtendedClass')):
        c = find_def(tree0, cls)
        meths = [n for n in c.body if isinstance(n, ast.FunctionDef)]
        txt = ' || '.join('%s(%s): %s' % (m.name, ', '.join(a.arg for a in m.args.args) + (', *' + m.args.vararg.arg if m.args.vararg else ''),
                                          body_text(m)) for m in meths)
        parts.append('/-- methods of class `%s` (normalised source text) -/\ndef %s : String := %s\n' % (cls, lean, lean_str(txt)))
    return {'FnElectrolytes.lean': P.wrap_module([PRELUDE] + parts, REL, namespace=NS)}
