"""chempy/printing/numbers.py (+ the superscript table of util/parsing.py, the `%.3g` default and the parameter
separators of printer.py / web.py) -> Gen/PrintingNumbers.lean

Everything is taken from the AST of the source text.  Each function is checked to still have the *shape*
the hand model (Model/NumFmt.lean) assumes; anything else raises ExtractError (=> stub => obligations open).
All texts are emitted as `List Char` literals (the model works on `List Char` so that `decide +kernel` can run it).
"""
import ast, re
from .common import *

REL = 'chempy/printing/numbers.py'
REL_PARSING = 'chempy/util/parsing.py'
REL_PRINTER = 'chempy/printing/printer.py'
REL_WEB = 'chempy/printing/web.py'
FILES = ['PrintingNumbers.lean']


def lean_char(ch):
    o = ord(ch)
    if ch == "'":
        return "'\\''"
    if ch == '\\':
        return "'\\\\'"
    if ch == '\n':
        return "'\\n'"
    if ch == '\t':
        return "'\\t'"
    if o < 32 or o == 127:
        return '(Char.ofNat %d)' % o
    return "'%s'" % ch


def lean_chars(s):
    return '[' + ', '.join(lean_char(c) for c in s) + ']'


def lean_chars_list(l):
    return '[' + ', '.join(lean_chars(s) for s in l) + ']'


def _const_str(node, what):
    if isinstance(node, ast.Constant) and isinstance(node.value, str):
        return node.value
    raise ExtractError('%s: expected a string literal' % what)


def _is_name(node, name):
    return isinstance(node, ast.Name) and node.id == name


def _body(f):
    """function body without the docstring"""
    b = list(f.body)
    if b and isinstance(b[0], ast.Expr) and isinstance(b[0].value, ast.Constant) and isinstance(b[0].value.value, str):
        b = b[1:]
    return b


def _ones_test(test, what):
    """`significand in ("1", "1.0")` -> ['1', '1.0']"""
    if not (isinstance(test, ast.Compare) and _is_name(test.left, 'significand') and len(test.ops) == 1
            and isinstance(test.ops[0], ast.In) and isinstance(test.comparators[0], (ast.Tuple, ast.List))):
        raise ExtractError('%s: test is no longer `significand in (...)`' % what)
    return [_const_str(e, what) for e in test.comparators[0].elts]


def _assign_const_or_sig_plus_const(stmts, target, what):
    """[`target = "lit"`] -> (False, lit);  [`target = significand + "lit"`] -> (True, lit)"""
    if not (len(stmts) == 1 and isinstance(stmts[0], ast.Assign) and len(stmts[0].targets) == 1
            and _is_name(stmts[0].targets[0], target)):
        raise ExtractError('%s: expected a single assignment to %s' % (what, target))
    v = stmts[0].value
    if isinstance(v, ast.Constant):
        return False, _const_str(v, what)
    if isinstance(v, ast.BinOp) and isinstance(v.op, ast.Add) and _is_name(v.left, 'significand'):
        return True, _const_str(v.right, what)
    raise ExtractError('%s: unexpected right-hand side' % what)


def _is_str_int_mantissa(node):
    """str(int(mantissa))"""
    return (isinstance(node, ast.Call) and _is_name(node.func, 'str') and len(node.args) == 1 and not node.keywords
            and isinstance(node.args[0], ast.Call) and _is_name(node.args[0].func, 'int')
            and len(node.args[0].args) == 1 and not node.args[0].keywords and _is_name(node.args[0].args[0], 'mantissa'))


def _pow10(tree, name, var):
    """common shape:  if significand in ONES: var = A  else: var = significand + B ;  return <expr>"""
    f = find_def(tree, name)
    if [a.arg for a in f.args.args] != ['significand', 'mantissa']:
        raise ExtractError('%s: parameters changed' % name)
    b = _body(f)
    if not (len(b) == 2 and isinstance(b[0], ast.If) and isinstance(b[1], ast.Return)):
        raise ExtractError('%s: body is no longer if/else + return' % name)
    ones = _ones_test(b[0].test, name)
    s1, a = _assign_const_or_sig_plus_const(b[0].body, var, name)
    s2, c = _assign_const_or_sig_plus_const(b[0].orelse, var, name)
    if s1 or not s2:
        raise ExtractError('%s: branches are no longer  %s = "..."  /  %s = significand + "..."' % (name, var, var))
    return ones, a, c, b[1].value


def _split_percent_s(t, what):
    if t.count('%') != 1 or t.count('%s') != 1:
        raise ExtractError('%s: template %r is not a single-%%s template' % (what, t))
    i = t.index('%s')
    return t[:i], t[i + 2:]


def generate(repo):
    src, tree = parse(repo, REL)
    out = [HEADER % REL, 'namespace ChemModel.Gen.PrintingNumbers\n']

    # ---- roman ------------------------------------------------------------------------
    f = find_def(tree, 'roman')
    toks = vals = None
    for st in _body(f):
        if isinstance(st, ast.Assign) and len(st.targets) == 1 and _is_name(st.targets[0], 'tokens'):
            v = st.value
            if not (isinstance(v, ast.Call) and isinstance(v.func, ast.Attribute) and v.func.attr == 'split'
                    and not v.args and not v.keywords):
                raise ExtractError('roman: tokens is no longer "<literal>".split()')
            toks = _const_str(v.func.value, 'roman tokens').split()
        if isinstance(st, ast.Assign) and len(st.targets) == 1 and _is_name(st.targets[0], 'values'):
            v = st.value
            if not (isinstance(v, ast.Tuple) and all(isinstance(e, ast.Constant) and type(e.value) is int for e in v.elts)):
                raise ExtractError('roman: values is not a tuple of int literals')
            vals = [e.value for e in v.elts]
    if toks is None or vals is None:
        raise ExtractError('roman: tokens/values not found')
    if any(v < 0 for v in vals):
        raise ExtractError('roman: negative value')
    out.append('/-- `tokens` and `values` of `roman` (zipped by the code: the shorter list decides) -/')
    out.append('def romanTokens : List (List Char) := %s' % lean_chars_list(toks))
    out.append('def romanValues : List Nat := %s\n' % vals)

    # ---- _latex_pow_10 ----------------------------------------------------------------
    ones, a, c, ret = _pow10(tree, '_latex_pow_10', 'fmt')
    if not (isinstance(ret, ast.BinOp) and isinstance(ret.op, ast.Mod) and _is_name(ret.left, 'fmt') and _is_str_int_mantissa(ret.right)):
        raise ExtractError('_latex_pow_10: return is no longer fmt % str(int(mantissa))')
    a1, a2 = _split_percent_s(a, '_latex_pow_10')
    c1, c2 = _split_percent_s(c, '_latex_pow_10')
    out.append('/-- `_latex_pow_10`: significands printed as a bare power; templates split at their `%s` -/')
    out.append('def latexOnes : List (List Char) := %s' % lean_chars_list(ones))
    out.append('def latexOnePre : List Char := %s' % lean_chars(a1))
    out.append('def latexOnePost : List Char := %s' % lean_chars(a2))
    out.append('def latexSepPre : List Char := %s' % lean_chars(c1))
    out.append('def latexSepPost : List Char := %s\n' % lean_chars(c2))

    # ---- _unicode_pow_10 --------------------------------------------------------------
    ones, a, c, ret = _pow10(tree, '_unicode_pow_10', 'result')
    want = 'result+"".join(map(_unicode_sup.get,str(int(mantissa))))'
    got = ''.join(seg(src, ret).split()).replace('u"', '"').replace("u'", "'").replace("'", '"')
    if got != want:
        raise ExtractError('_unicode_pow_10: return is no longer %s' % want)
    out.append('/-- `_unicode_pow_10` -/')
    out.append('def unicodeOnes : List (List Char) := %s' % lean_chars_list(ones))
    out.append('def unicodeOne : List Char := %s' % lean_chars(a))
    out.append('def unicodeSep : List Char := %s\n' % lean_chars(c))

    # ---- _html_pow_10 -----------------------------------------------------------------
    ones, a, c, ret = _pow10(tree, '_html_pow_10', 'result')
    if not (isinstance(ret, ast.BinOp) and isinstance(ret.op, ast.Add) and isinstance(ret.left, ast.BinOp)
            and isinstance(ret.left.op, ast.Add) and _is_name(ret.left.left, 'result') and _is_str_int_mantissa(ret.left.right)):
        raise ExtractError('_html_pow_10: return is no longer result + str(int(mantissa)) + "..."')
    close = _const_str(ret.right, '_html_pow_10')
    out.append('/-- `_html_pow_10` -/')
    out.append('def htmlOnes : List (List Char) := %s' % lean_chars_list(ones))
    out.append('def htmlOne : List Char := %s' % lean_chars(a))
    out.append('def htmlSep : List Char := %s' % lean_chars(c))
    out.append('def htmlClose : List Char := %s\n' % lean_chars(close))

    # ---- _number_to_X: default precisions, default space ------------------------------
    f = find_def(tree, '_number_to_X')
    names = [a.arg for a in f.args.args]
    if names != ['number', 'uncertainty', 'unit', 'fmt', 'unit_fmt', 'fmt_pow_10', 'space'] or len(f.args.defaults) != 1:
        raise ExtractError('_number_to_X: signature changed')
    space = _const_str(f.args.defaults[0], '_number_to_X space default')
    top_if = [st for st in f.body if isinstance(st, ast.If) and ''.join(seg(src, st.test).split()) == 'uncertaintyisNone']
    if len(top_if) != 1:
        raise ExtractError('_number_to_X: `if uncertainty is None:` not found exactly once at top level')

    def default_fmt(stmts, what):
        for st in stmts:
            if isinstance(st, ast.If) and ''.join(seg(src, st.test).split()) == 'fmtisNone':
                if (len(st.body) == 1 and isinstance(st.body[0], ast.Assign) and _is_name(st.body[0].targets[0], 'fmt')
                        and isinstance(st.body[0].value, ast.Constant) and type(st.body[0].value.value) is int
                        and st.body[0].value.value >= 0):
                    return st.body[0].value.value
        raise ExtractError('_number_to_X: default fmt (%s) not found' % what)

    def fmt_call(stmts, what, want):
        for st in stmts:
            if isinstance(st, ast.If) and ''.join(seg(src, st.test).split()) == 'isinstance(fmt,int)':
                got = ''.join(seg(src, st.body[0]).split()).replace("'", '"')
                if len(st.body) == 1 and got == want:
                    return
                raise ExtractError('_number_to_X: %s is %s, expected %s' % (what, got, want))
        raise ExtractError('_number_to_X: isinstance(fmt, int) branch (%s) not found' % what)

    p_plain = default_fmt(top_if[0].body, 'without uncertainty')
    p_unc = default_fmt(top_if[0].orelse, 'with uncertainty')
    fmt_call(top_if[0].body, 'formatting without uncertainty', 'flt=("%%.%dg"%fmt)%mag')
    fmt_call(top_if[0].orelse, 'formatting with uncertainty', 'flt=_float_str_w_uncert(mag,uncertainty,fmt)')
    tail = f.body[-1]
    want_tail = ('if"e"inflt:significand,mantissa=flt.split("e")returnfmt_pow_10(significand,mantissa)+unit_str'
                 'else:returnflt+unit_str')
    if ''.join(seg(src, tail).split()).replace("'", '"') != want_tail:
        raise ExtractError('_number_to_X: the final split-at-"e" statement changed')
    out.append('/-- `_number_to_X`: `fmt = N` defaults (without / with uncertainty), separator before the unit -/')
    out.append('def defaultPrecision : Nat := %d' % p_plain)
    out.append('def defaultUncertPrecision : Nat := %d' % p_unc)
    out.append('def defaultSpace : List Char := %s' % lean_chars(space))

    def x_call(name):
        g = find_def(tree, name)
        rets = [n for n in ast.walk(g) if isinstance(n, ast.Return)]
        if len(rets) != 1 or not (isinstance(rets[0].value, ast.Call) and _is_name(rets[0].value.func, '_number_to_X')):
            raise ExtractError('%s: no longer a single call of _number_to_X' % name)
        c = rets[0].value
        if c.keywords or [seg(src, a) for a in c.args[:4]] != ['number', 'uncertainty', 'unit', 'fmt']:
            raise ExtractError('%s: arguments of _number_to_X changed' % name)
        return [seg(src, a) for a in c.args[4:6]], (c.args[6] if len(c.args) > 6 else None)

    (ufmt, pfmt), sp = x_call('number_to_scientific_latex')
    if (ufmt, pfmt) != ('latex_of_unit', '_latex_pow_10') or sp is None:
        raise ExtractError('number_to_scientific_latex: renderer arguments changed')
    out.append('def latexSpace : List Char := %s' % lean_chars(_const_str(sp, 'latex space')))
    (ufmt, pfmt), sp = x_call('number_to_scientific_unicode')
    if (ufmt, pfmt) != ('unicode_of_unit', '_unicode_pow_10') or sp is not None:
        raise ExtractError('number_to_scientific_unicode: renderer arguments changed')
    (ufmt, pfmt), sp = x_call('number_to_scientific_html')
    if (ufmt, pfmt) != ('html_of_unit', '_html_pow_10') or sp is not None:
        raise ExtractError('number_to_scientific_html: renderer arguments changed')
    out.append('')

    # ---- _unicode_sup of util/parsing.py ----------------------------------------------
    psrc, ptree = parse(repo, REL_PARSING)
    d = find_assign(ptree, '_unicode_sup')
    if not isinstance(d, ast.Dict):
        raise ExtractError('_unicode_sup is not a dict literal')
    sup = []
    for k, v in zip(d.keys, d.values):
        k, v = _const_str(k, '_unicode_sup key'), _const_str(v, '_unicode_sup value')
        if len(k) != 1 or len(v) != 1:
            raise ExtractError('_unicode_sup: entries are not single characters')
        sup.append((k, v))
    loops = [n for n in ptree.body if isinstance(n, ast.For) and '_unicode_sup[' in seg(psrc, n)]
    if len(loops) != 1:
        raise ExtractError('_unicode_sup: expected exactly one filling loop')
    lp = loops[0]
    if ''.join(seg(psrc, lp.target).split()) != 'k,v' or ''.join(seg(psrc, lp.body[0]).split()) != '_unicode_sup[str(k)]=v' \
            or len(lp.body) != 1 or not (isinstance(lp.iter, ast.Call) and _is_name(lp.iter.func, 'enumerate') and len(lp.iter.args) == 1):
        raise ExtractError('_unicode_sup: filling loop changed')
    digits = _const_str(lp.iter.args[0], '_unicode_sup digits')
    for i, ch in enumerate(digits):
        if i > 9:
            raise ExtractError('_unicode_sup: more than ten digits')
        sup = [(k, v) for k, v in sup if k != str(i)] + [(str(i), ch)]
    # any later assignment to _unicode_sup would invalidate the table
    n_mod = len(re.findall(r'\b_unicode_sup\s*(?:\[[^\]]*\]\s*=[^=]|=[^=]|\.(?:update|pop|setdefault|clear|popitem)\b)', psrc))
    if n_mod != 2:
        raise ExtractError('_unicode_sup: modified in %d places, expected 2' % n_mod)
    out.append('/-- `_unicode_sup` of chempy/util/parsing.py as (key, value) pairs -/')
    out.append('def unicodeSup : List (Char × Char) := [%s]\n' % ', '.join('(%s, %s)' % (lean_char(k), lean_char(v)) for k, v in sup))

    # ---- Printer defaults -------------------------------------------------------------
    rsrc, rtree = parse(repo, REL_PRINTER)
    cls = find_def(rtree, 'Printer')
    ds = None
    for st in cls.body:
        if isinstance(st, ast.Assign) and _is_name(st.targets[0], '_default_settings'):
            ds = st.value
    if not (isinstance(ds, ast.Call) and _is_name(ds.func, 'dict')):
        raise ExtractError('Printer._default_settings is not dict(...)')
    kw = {k.arg: k.value for k in ds.keywords}
    mf = ''.join(seg(rsrc, kw['magnitude_fmt']).split()).replace("'", '"') if 'magnitude_fmt' in kw else ''
    m = re.fullmatch(r'lambdax:"%\.(\d+)g"%x', mf)
    if not m:
        raise ExtractError('Printer magnitude_fmt is no longer lambda x: "%.Ng" % x')
    out.append('/-- Printer._default_settings: magnitude_fmt = "%.Ng" % x, Reaction_param_separator -/')
    out.append('def strMagnitudePrecision : Nat := %d' % int(m.group(1)))
    out.append('def paramSeparator : List Char := %s' % lean_chars(_const_str(kw.get('Reaction_param_separator'), 'Reaction_param_separator')))
    wsrc, wtree = parse(repo, REL_WEB)
    semi = find_assign(wtree, '_html_semicolon')
    hp = find_def(wtree, 'HTMLPrinter')
    ok = False
    for st in hp.body:
        if isinstance(st, ast.Assign) and _is_name(st.targets[0], '_default_settings') and isinstance(st.value, ast.Call):
            for k in st.value.keywords:
                if k.arg == 'Reaction_param_separator' and _is_name(k.value, '_html_semicolon'):
                    ok = True
    if not ok:
        raise ExtractError('HTMLPrinter Reaction_param_separator is no longer _html_semicolon')
    out.append('def htmlParamSeparator : List Char := %s\n' % lean_chars(_const_str(semi, '_html_semicolon')))

    out.append('end ChemModel.Gen.PrintingNumbers\n')
    return {'PrintingNumbers.lean': '\n'.join(out)}
