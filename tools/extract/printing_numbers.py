"""chempy/printing/numbers.py (+ the superscript table of util/parsing.py, the `%.3g` default and the parameter
separators of printer.py / web.py) -> Gen/PrintingNumbers.lean

Everything is taken from the AST of the source text.  Each function is checked to still have the *shape*
the hand model (Model/NumFmt.lean) assumes; anything else raises ExtractError (=> stub => obligations open).
All texts are emitted as `List Char` literals (the model works on `List Char` so that `decide +kernel` can run it).
"""
import ast, copy, re
from .common import *

REL = 'chempy/printing/numbers.py'
REL_PARSING = 'chempy/util/parsing.py'
REL_PRINTER = 'chempy/printing/printer.py'
REL_WEB = 'chempy/printing/web.py'
FILES = ['PrintingNumbers.lean']


def lean_char(ch):
    o = ord(ch)
    if ch == "'":
        return "'\\''"
    if ch == '\\':
        return "'\\\\'"
    if ch == '\n':
        return "'\\n'"
    if ch == '\t':
        return "'\\t'"
    if o < 32 or o == 127:
        return '(Char.ofNat %d)' % o
    return "'%s'" % ch


def lean_chars(s):
    return '[' + ', '.join(lean_char(c) for c in s) + ']'


def lean_chars_list(l):
    return '[' + ', '.join(lean_chars(s) for s in l) + ']'


def _const_str(node, what):
    if isinstance(node, ast.Constant) and isinstance(node.value, str):
        return node.value
    raise ExtractError('%s: expected a string literal' % what)


def _is_name(node, name):
    return isinstance(node, ast.Name) and node.id == name


def _body(f):
    """function body without the docstring"""
    b = list(f.body)
    if b and isinstance(b[0], ast.Expr) and isinstance(b[0].value, ast.Constant) and isinstance(b[0].value.value, str):
        b = b[1:]
    return b


# ---------------------------------------------------------------------------------------------------------------
# A small symbolic executor for loop-free Python functions.  A function body is turned into a decision tree
#     ('if', condition, tree_if_true, tree_if_false) | ('ret', expression)
# whose expressions mention only the function's parameters (renamed by POSITION to canonical names) and free names:
# local variables are substituted forward, tuple-unpacking becomes indexing, early returns / guard clauses / inverted
# tests (`not`, `not in`, `is not`) are normalised, and calls to other module-level functions of the same file are
# inlined (except the functions the hand model mirrors by name, which stay opaque).  Facts are then read off the tree
# per scenario, so they do not depend on local names, on helper extraction or on the order of if/else branches.
KEEP_OPAQUE = {'_number_to_X', '_float_str_w_uncert', '_latex_pow_10', '_unicode_pow_10', '_html_pow_10', 'roman', '_mag'}


class _Subst(ast.NodeTransformer):
    def __init__(self, env):
        self.env = env

    def visit_Name(self, node):
        if isinstance(node.ctx, ast.Load) and node.id in self.env:
            return copy.deepcopy(self.env[node.id])
        return node


def _subst(expr, env):
    return _Subst(env).visit(copy.deepcopy(expr))


def _norm_cond(c):
    """-> (positive condition, negated?)"""
    neg = False
    while True:
        if isinstance(c, ast.UnaryOp) and isinstance(c.op, ast.Not):
            c, neg = c.operand, not neg
        elif isinstance(c, ast.Compare) and len(c.ops) == 1 and isinstance(c.ops[0], ast.NotIn):
            c, neg = ast.Compare(c.left, [ast.In()], c.comparators), not neg
        elif isinstance(c, ast.Compare) and len(c.ops) == 1 and isinstance(c.ops[0], ast.IsNot):
            c, neg = ast.Compare(c.left, [ast.Is()], c.comparators), not neg
        else:
            return c, neg


def _fold(c):
    """decide conditions that are constant after substitution (isinstance(5, int), 5 is None)"""
    if isinstance(c, ast.Call) and _is_name(c.func, 'isinstance') and len(c.args) == 2 and isinstance(c.args[0], ast.Constant) \
            and _is_name(c.args[1], 'int'):
        return type(c.args[0].value) is int
    if isinstance(c, ast.Compare) and len(c.ops) == 1 and isinstance(c.ops[0], ast.Is) and isinstance(c.left, ast.Constant) \
            and isinstance(c.comparators[0], ast.Constant):
        return c.left.value is c.comparators[0].value
    return None


def _map_leaves(tree, f):
    if tree[0] == 'if':
        return ('if', tree[1], _map_leaves(tree[2], f), _map_leaves(tree[3], f))
    return f(tree[1])


def _helper_call(value, funcs):
    return (isinstance(value, ast.Call) and isinstance(value.func, ast.Name) and value.func.id in funcs
            and value.func.id not in KEEP_OPAQUE and not value.keywords and not any(isinstance(a, ast.Starred) for a in value.args))


def _inline(fdef, args, funcs, depth):
    names = [a.arg for a in fdef.args.args]
    if fdef.args.vararg or fdef.args.kwarg or fdef.args.kwonlyargs or len(args) > len(names):
        raise ExtractError('%s: cannot inline (signature)' % fdef.name)
    env = dict(zip(names, args))
    nd = len(fdef.args.defaults)
    for n, d in zip(names[len(names) - nd:], fdef.args.defaults):
        env.setdefault(n, d)
    if len(env) != len(names):
        raise ExtractError('%s: cannot inline (missing argument)' % fdef.name)
    return _symexec(_body(fdef), env, funcs, depth + 1, fdef.name)


def _symexec(stmts, env, funcs, depth, what):
    if depth > 6:
        raise ExtractError('%s: helper nesting too deep' % what)
    if not stmts:
        return ('ret', ast.Constant(None))
    st, rest = stmts[0], stmts[1:]
    if isinstance(st, ast.Expr) and isinstance(st.value, ast.Constant):
        return _symexec(rest, env, funcs, depth, what)
    if isinstance(st, ast.Assign) and len(st.targets) == 1 and isinstance(st.targets[0], ast.Name):
        t = st.targets[0].id
        if _helper_call(st.value, funcs):
            sub = _inline(funcs[st.value.func.id], [_subst(a, env) for a in st.value.args], funcs, depth)
            return _map_leaves(sub, lambda e: _symexec(rest, dict(env, **{t: e}), funcs, depth, what))
        return _symexec(rest, dict(env, **{t: _subst(st.value, env)}), funcs, depth, what)
    if isinstance(st, ast.Assign) and len(st.targets) == 1 and isinstance(st.targets[0], ast.Tuple) \
            and all(isinstance(e, ast.Name) for e in st.targets[0].elts):
        v = _subst(st.value, env)
        env2 = dict(env)
        for i, e in enumerate(st.targets[0].elts):
            env2[e.id] = ast.Subscript(copy.deepcopy(v), ast.Constant(i), ast.Load())
        return _symexec(rest, env2, funcs, depth, what)
    if isinstance(st, ast.AugAssign) and isinstance(st.target, ast.Name):
        t = st.target.id
        cur = env.get(t, ast.Name(t, ast.Load()))
        return _symexec(rest, dict(env, **{t: ast.BinOp(copy.deepcopy(cur), st.op, _subst(st.value, env))}), funcs, depth, what)
    if isinstance(st, ast.If):
        c, neg = _norm_cond(_subst(st.test, env))
        body, orelse = (st.orelse, st.body) if neg else (st.body, st.orelse)
        k = _fold(c)
        if k is True:
            return _symexec(list(body) + rest, env, funcs, depth, what)
        if k is False:
            return _symexec(list(orelse) + rest, env, funcs, depth, what)
        return ('if', c, _symexec(list(body) + rest, env, funcs, depth, what), _symexec(list(orelse) + rest, env, funcs, depth, what))
    if isinstance(st, ast.Return):
        if st.value is None:
            return ('ret', ast.Constant(None))
        if _helper_call(st.value, funcs):
            return _inline(funcs[st.value.func.id], [_subst(a, env) for a in st.value.args], funcs, depth)
        return ('ret', _subst(st.value, env))
    if isinstance(st, ast.Pass):
        return _symexec(rest, env, funcs, depth, what)
    raise ExtractError('%s: statement outside the loop-free subset: %s' % (what, type(st).__name__))


def _tree_of(tree, name, canon):
    """decision tree of module-level function `name`, parameters renamed by position to `canon`"""
    funcs = {n.name: n for n in tree.body if isinstance(n, ast.FunctionDef)}
    if name not in funcs:
        raise ExtractError('no def %s' % name)
    f = funcs[name]
    params = [a.arg for a in f.args.args]
    if len(params) != len(canon) or f.args.vararg or f.args.kwarg or f.args.kwonlyargs:
        raise ExtractError('%s: signature changed' % name)
    env = {p: ast.Name(c, ast.Load()) for p, c in zip(params, canon)}
    return f, _symexec(_body(f), env, funcs, 0, name)


def _walk(tree, decide, what):
    while tree[0] == 'if':
        d = decide(tree[1])
        if d is None:
            raise ExtractError('%s: unexpected condition `%s`' % (what, ast.unparse(tree[1])))
        tree = tree[2] if d else tree[3]
    return tree[1]


def _unify(pat, act, binds):
    """structural match of two expressions; Names `_P_xxx` in the pattern are placeholders bound in `binds`"""
    if isinstance(pat, ast.Name) and pat.id.startswith('_P_'):
        if pat.id in binds:
            return ast.dump(binds[pat.id]) == ast.dump(act)
        binds[pat.id] = act
        return True
    if type(pat) is not type(act):
        return False
    if isinstance(pat, ast.AST):
        for f in pat._fields:
            if f in ('ctx', 'kind', 'type_comment'):
                continue
            if not _unify(getattr(pat, f, None), getattr(act, f, None), binds):
                return False
        return True
    if isinstance(pat, list):
        return len(pat) == len(act) and all(_unify(x, y, binds) for x, y in zip(pat, act))
    return pat == act


def _match(template, expr, what):
    binds = {}
    if not _unify(ast.parse(template, mode='eval').body, expr, binds):
        raise ExtractError('%s: `%s` is not of the form `%s`' % (what, ast.unparse(expr), template))
    return binds


def _int_const(node, what):
    if isinstance(node, ast.Constant) and type(node.value) is int and node.value >= 0:
        return node.value
    raise ExtractError('%s: expected a non-negative int literal, got `%s`' % (what, ast.unparse(node)))


def _pow10(tree, name, tmpl_one, tmpl_sep):
    """`_X_pow_10`: if <significand> in ONES: <tmpl_one> else: <tmpl_sep>   (any local names, either branch order)"""
    f, t = _tree_of(tree, name, ['significand', 'mantissa'])
    ones = []

    def decide(want):
        def d(c):
            if isinstance(c, ast.Compare) and len(c.ops) == 1 and isinstance(c.ops[0], ast.In) and _is_name(c.left, 'significand') \
                    and isinstance(c.comparators[0], (ast.Tuple, ast.List, ast.Set)):
                ones[:] = [_const_str(e, name) for e in c.comparators[0].elts]
                return want
            return None
        return d
    b1 = _match(tmpl_one, _walk(t, decide(True), name), name)
    b2 = _match(tmpl_sep, _walk(t, decide(False), name), name)
    if not ones:
        raise ExtractError('%s: no test `significand in (...)`' % name)
    return ones, {k: _const_str(v, name) for k, v in b1.items()}, {k: _const_str(v, name) for k, v in b2.items()}


def _split_percent_s(t, what):
    if t.count('%') != 1 or t.count('%s') != 1:
        raise ExtractError('%s: template %r is not a single-%%s template' % (what, t))
    i = t.index('%s')
    return t[:i], t[i + 2:]


def _roman_tables(f):
    """the two sequences the loop `for a, b in zip(X, Y)` of roman runs over, whatever the local names"""
    loops = [n for n in ast.walk(f) if isinstance(n, ast.For)]
    if len(loops) != 1:
        raise ExtractError('roman: expected exactly one loop')
    it = loops[0].iter
    if not (isinstance(it, ast.Call) and _is_name(it.func, 'zip') and len(it.args) == 2 and not it.keywords):
        raise ExtractError('roman: the loop no longer iterates over zip(tokens, values)')
    assigned = {}
    for st in _body(f):
        if isinstance(st, ast.Assign) and len(st.targets) == 1 and isinstance(st.targets[0], ast.Name):
            assigned.setdefault(st.targets[0].id, []).append(st.value)

    def resolve(e):
        if isinstance(e, ast.Name):
            if len(assigned.get(e.id, [])) != 1:
                raise ExtractError('roman: %s is not assigned exactly once' % e.id)
            return assigned[e.id][0]
        return e
    tv, vv = resolve(it.args[0]), resolve(it.args[1])
    if not (isinstance(tv, ast.Call) and isinstance(tv.func, ast.Attribute) and tv.func.attr == 'split' and not tv.args and not tv.keywords):
        raise ExtractError('roman: tokens is no longer "<literal>".split()')
    toks = _const_str(tv.func.value, 'roman tokens').split()
    if not (isinstance(vv, (ast.Tuple, ast.List)) and all(isinstance(e, ast.Constant) and type(e.value) is int for e in vv.elts)):
        raise ExtractError('roman: values is not a tuple of int literals')
    return toks, [e.value for e in vv.elts]


def generate(repo):
    src, tree = parse(repo, REL)
    out = [HEADER % REL, 'namespace ChemModel.Gen.PrintingNumbers\n']

    # ---- roman ------------------------------------------------------------------------
    toks, vals = _roman_tables(find_def(tree, 'roman'))
    if any(v < 0 for v in vals):
        raise ExtractError('roman: negative value')
    out.append('/-- `tokens` and `values` of `roman` (zipped by the code: the shorter list decides) -/')
    out.append('def romanTokens : List (List Char) := %s' % lean_chars_list(toks))
    out.append('def romanValues : List Nat := %s\n' % vals)

    # ---- _latex_pow_10 ----------------------------------------------------------------
    ones, b1, b2 = _pow10(tree, '_latex_pow_10', '_P_a % str(int(mantissa))', '(significand + _P_c) % str(int(mantissa))')
    a1, a2 = _split_percent_s(b1['_P_a'], '_latex_pow_10')
    c1, c2 = _split_percent_s(b2['_P_c'], '_latex_pow_10')
    out.append('/-- `_latex_pow_10`: significands printed as a bare power; templates split at their `%s` -/')
    out.append('def latexOnes : List (List Char) := %s' % lean_chars_list(ones))
    out.append('def latexOnePre : List Char := %s' % lean_chars(a1))
    out.append('def latexOnePost : List Char := %s' % lean_chars(a2))
    out.append('def latexSepPre : List Char := %s' % lean_chars(c1))
    out.append('def latexSepPost : List Char := %s\n' % lean_chars(c2))

    # ---- _unicode_pow_10 --------------------------------------------------------------
    ones, b1, b2 = _pow10(tree, '_unicode_pow_10', '_P_a + "".join(map(_unicode_sup.get, str(int(mantissa))))',
                          '(significand + _P_c) + "".join(map(_unicode_sup.get, str(int(mantissa))))')
    out.append('/-- `_unicode_pow_10` -/')
    out.append('def unicodeOnes : List (List Char) := %s' % lean_chars_list(ones))
    out.append('def unicodeOne : List Char := %s' % lean_chars(b1['_P_a']))
    out.append('def unicodeSep : List Char := %s\n' % lean_chars(b2['_P_c']))

    # ---- _html_pow_10 -----------------------------------------------------------------
    ones, b1, b2 = _pow10(tree, '_html_pow_10', '(_P_a + str(int(mantissa))) + _P_z', '((significand + _P_c) + str(int(mantissa))) + _P_z')
    if b1['_P_z'] != b2['_P_z']:
        raise ExtractError('_html_pow_10: the two branches close differently')
    out.append('/-- `_html_pow_10` -/')
    out.append('def htmlOnes : List (List Char) := %s' % lean_chars_list(ones))
    out.append('def htmlOne : List Char := %s' % lean_chars(b1['_P_a']))
    out.append('def htmlSep : List Char := %s' % lean_chars(b2['_P_c']))
    out.append('def htmlClose : List Char := %s\n' % lean_chars(b1['_P_z']))

    # ---- _number_to_X: every path the hand model mirrors, read off the decision tree -----------------
    CANON = ['number', 'uncertainty', 'unit', 'fmt', 'unit_fmt', 'fmt_pow_10', 'space']
    f, t = _tree_of(tree, '_number_to_X', CANON)
    if len(f.args.defaults) != 1:
        raise ExtractError('_number_to_X: defaults changed')
    space = _const_str(f.args.defaults[0], '_number_to_X space default')
    U0 = '(uncertainty or getattr(number, "uncertainty", None))'
    UNIT = '(unit or unit_of(number))'

    def scenario(unit_one, unc_none, fmt_none, has_e):
        def d(c):
            if isinstance(c, ast.Compare) and len(c.ops) == 1 and isinstance(c.ops[0], ast.Is):
                left, right = c.left, c.comparators[0]
                if isinstance(right, ast.Constant) and right.value == 1 and type(right.value) is int:
                    return unit_one
                if isinstance(right, ast.Constant) and right.value is None:
                    if _is_name(left, 'fmt'):
                        return fmt_none
                    if ast.dump(left) == ast.dump(ast.parse(U0, mode='eval').body):
                        return unc_none
                    if isinstance(left, ast.Call) and _is_name(left.func, 'to_unitless'):
                        return False          # a converted magnitude is never None (only reached on the path where it was not None)
            if isinstance(c, ast.Call) and _is_name(c.func, 'isinstance') and len(c.args) == 2 and _is_name(c.args[0], 'fmt') \
                    and _is_name(c.args[1], 'int'):
                return True
            if isinstance(c, ast.Compare) and len(c.ops) == 1 and isinstance(c.ops[0], ast.In) and isinstance(c.left, ast.Constant) \
                    and c.left.value == 'e':
                return has_e
            return None
        return _walk(t, d, '_number_to_X')

    defaults = {True: set(), False: set()}
    for unit_one in (True, False):
        mag = 'number' if unit_one else 'to_unitless(number, %s)' % UNIT
        unit_str = '""' if unit_one else '(space + unit_fmt(%s))' % UNIT
        for unc_none in (True, False):
            unc = U0 if unit_one else 'to_unitless(%s, %s)' % (U0, UNIT)
            for fmt_none in (True, False):
                prec = '_P_prec' if fmt_none else 'fmt'
                flt = '(("%%%%.%%dg" %% %s) %% %s)' % (prec, mag) if unc_none else '_float_str_w_uncert(%s, %s, %s)' % (mag, unc, prec)
                for has_e in (True, False):
                    want = ('fmt_pow_10(%s.split("e")[0], %s.split("e")[1]) + %s' % (flt, flt, unit_str)) if has_e else '%s + %s' % (flt, unit_str)
                    b = _match(want, scenario(unit_one, unc_none, fmt_none, has_e),
                               '_number_to_X [unit is 1: %s, uncertainty None: %s, fmt None: %s, "e" in text: %s]' % (unit_one, unc_none, fmt_none, has_e))
                    if fmt_none:
                        defaults[unc_none].add(_int_const(b['_P_prec'], '_number_to_X default fmt'))
    if len(defaults[True]) != 1 or len(defaults[False]) != 1:
        raise ExtractError('_number_to_X: default fmt differs between paths: %r' % defaults)
    out.append('/-- `_number_to_X`: `fmt = N` defaults (without / with uncertainty), separator before the unit -/')
    out.append('def defaultPrecision : Nat := %d' % defaults[True].pop())
    out.append('def defaultUncertPrecision : Nat := %d' % defaults[False].pop())
    out.append('def defaultSpace : List Char := %s' % lean_chars(space))

    def x_call(name, want_unit_fmt, want_pow):
        g, gt = _tree_of(tree, name, ['number', 'uncertainty', 'unit', 'fmt'])
        if gt[0] != 'ret':
            raise ExtractError('%s: no longer a single call of _number_to_X' % name)
        for tmpl in ('_number_to_X(number, uncertainty, unit, fmt, %s, %s, _P_space)' % (want_unit_fmt, want_pow),
                     '_number_to_X(number, uncertainty, unit, fmt, %s, %s)' % (want_unit_fmt, want_pow)):
            binds = {}
            if _unify(ast.parse(tmpl, mode='eval').body, gt[1], binds):
                return binds.get('_P_space')
        raise ExtractError('%s: is no longer _number_to_X(number, uncertainty, unit, fmt, %s, %s[, space])' % (name, want_unit_fmt, want_pow))

    sp = x_call('number_to_scientific_latex', 'latex_of_unit', '_latex_pow_10')
    if sp is None:
        raise ExtractError('number_to_scientific_latex: no space argument')
    out.append('def latexSpace : List Char := %s' % lean_chars(_const_str(sp, 'latex space')))
    if x_call('number_to_scientific_unicode', 'unicode_of_unit', '_unicode_pow_10') is not None \
            or x_call('number_to_scientific_html', 'html_of_unit', '_html_pow_10') is not None:
        raise ExtractError('number_to_scientific_unicode/html: unexpected space argument')
    out.append('')

    # ---- _unicode_sup of util/parsing.py ----------------------------------------------
    psrc, ptree = parse(repo, REL_PARSING)
    d = find_assign(ptree, '_unicode_sup')
    if not isinstance(d, ast.Dict):
        raise ExtractError('_unicode_sup is not a dict literal')
    sup = []
    for k, v in zip(d.keys, d.values):
        k, v = _const_str(k, '_unicode_sup key'), _const_str(v, '_unicode_sup value')
        if len(k) != 1 or len(v) != 1:
            raise ExtractError('_unicode_sup: entries are not single characters')
        sup.append((k, v))
    loops = [n for n in ptree.body if isinstance(n, ast.For) and '_unicode_sup[' in seg(psrc, n)]
    if len(loops) != 1:
        raise ExtractError('_unicode_sup: expected exactly one filling loop')
    lp = loops[0]
    if ''.join(seg(psrc, lp.target).split()) != 'k,v' or ''.join(seg(psrc, lp.body[0]).split()) != '_unicode_sup[str(k)]=v' \
            or len(lp.body) != 1 or not (isinstance(lp.iter, ast.Call) and _is_name(lp.iter.func, 'enumerate') and len(lp.iter.args) == 1):
        raise ExtractError('_unicode_sup: filling loop changed')
    digits = _const_str(lp.iter.args[0], '_unicode_sup digits')
    for i, ch in enumerate(digits):
        if i > 9:
            raise ExtractError('_unicode_sup: more than ten digits')
        sup = [(k, v) for k, v in sup if k != str(i)] + [(str(i), ch)]
    # any later assignment to _unicode_sup would invalidate the table
    n_mod = len(re.findall(r'\b_unicode_sup\s*(?:\[[^\]]*\]\s*=[^=]|=[^=]|\.(?:update|pop|setdefault|clear|popitem)\b)', psrc))
    if n_mod != 2:
        raise ExtractError('_unicode_sup: modified in %d places, expected 2' % n_mod)
    out.append('/-- `_unicode_sup` of chempy/util/parsing.py as (key, value) pairs -/')
    out.append('def unicodeSup : List (Char × Char) := [%s]\n' % ', '.join('(%s, %s)' % (lean_char(k), lean_char(v)) for k, v in sup))

    # ---- Printer defaults -------------------------------------------------------------
    rsrc, rtree = parse(repo, REL_PRINTER)
    cls = find_def(rtree, 'Printer')
    ds = None
    for st in cls.body:
        if isinstance(st, ast.Assign) and _is_name(st.targets[0], '_default_settings'):
            ds = st.value
    if not (isinstance(ds, ast.Call) and _is_name(ds.func, 'dict')):
        raise ExtractError('Printer._default_settings is not dict(...)')
    kw = {k.arg: k.value for k in ds.keywords}
    mf = ''.join(seg(rsrc, kw['magnitude_fmt']).split()).replace("'", '"') if 'magnitude_fmt' in kw else ''
    m = re.fullmatch(r'lambdax:"%\.(\d+)g"%x', mf)
    if not m:
        raise ExtractError('Printer magnitude_fmt is no longer lambda x: "%.Ng" % x')
    out.append('/-- Printer._default_settings: magnitude_fmt = "%.Ng" % x, Reaction_param_separator -/')
    out.append('def strMagnitudePrecision : Nat := %d' % int(m.group(1)))
    out.append('def paramSeparator : List Char := %s' % lean_chars(_const_str(kw.get('Reaction_param_separator'), 'Reaction_param_separator')))
    wsrc, wtree = parse(repo, REL_WEB)
    semi = find_assign(wtree, '_html_semicolon')
    hp = find_def(wtree, 'HTMLPrinter')
    ok = False
    for st in hp.body:
        if isinstance(st, ast.Assign) and _is_name(st.targets[0], '_default_settings') and isinstance(st.value, ast.Call):
            for k in st.value.keywords:
                if k.arg == 'Reaction_param_separator' and _is_name(k.value, '_html_semicolon'):
                    ok = True
    if not ok:
        raise ExtractError('HTMLPrinter Reaction_param_separator is no longer _html_semicolon')
    out.append('def htmlParamSeparator : List Char := %s\n' % lean_chars(_const_str(semi, '_html_semicolon')))

    out.append('end ChemModel.Gen.PrintingNumbers\n')
    return {'PrintingNumbers.lean': '\n'.join(out)}
