"""chempy/util/periodic.py -> Gen/Periodic.lean"""
import ast
from fractions import Fraction
from .common import *

REL = 'chempy/util/periodic.py'
FILES = ['Periodic.lean']


def generate(repo):
    src, tree = parse(repo, REL)
    el = find_assign(tree, '_elements')
    if not isinstance(el, ast.Tuple):
        raise ExtractError('_elements is not a tuple literal')
    syms, names, masses = [], [], []
    for row in el.elts:
        if not (isinstance(row, (ast.List, ast.Tuple)) and len(row.elts) >= 3):
            raise ExtractError('row of _elements has unexpected shape')
        s, n, m = row.elts[:3]
        if not (isinstance(s, ast.Constant) and isinstance(s.value, str) and isinstance(n, ast.Constant) and isinstance(n.value, str)):
            raise ExtractError('symbol/name not string literals')
        syms.append(s.value)
        names.append(n.value)
        if isinstance(m, ast.Constant) and isinstance(m.value, str):
            t = m.value
            # _get_relative_atomic_masses: float(mass[1:-1]) if str(mass).startswith("[")
            masses.append(num_text_to_fraction(t[1:-1] if t.startswith('[') else t))
        elif isinstance(m, ast.Constant) and isinstance(m.value, (int, float)):
            masses.append(num_text_to_fraction(seg(src, m)))
        else:
            raise ExtractError('mass not a literal')
    # the derived tuples must be the plain projections the model assumes
    for nm, want in (('symbols', 'tuple(n[0] for n in _elements)'), ('names', 'tuple(n[1] for n in _elements)'),
                     ('lower_names', 'tuple(n[1].lower() for n in _elements)')):
        got = seg(src, find_assign(tree, nm))
        if ''.join(got.split()) != ''.join(want.split()):
            raise ExtractError('%s is no longer %s' % (nm, want))
    # the way the table is turned into relative_atomic_masses must be the bracket rule the model assumes
    want_fn = ("def _get_relative_atomic_masses():\n    for mass in tuple((element[2] for element in _elements)):\n"
               "        yield (float(mass[1:-1]) if str(mass).startswith('[') else float(mass))")
    got_fn = ast.unparse(find_def(tree, '_get_relative_atomic_masses'))
    if got_fn != want_fn:
        raise ExtractError('_get_relative_atomic_masses is no longer the bracket rule the model assumes: ' + got_fn[:200])
    if ast.unparse(find_assign(tree, 'relative_atomic_masses')) != 'tuple(_get_relative_atomic_masses())':
        raise ExtractError('relative_atomic_masses is no longer tuple(_get_relative_atomic_masses())')
    # electron mass literal inside mass_from_composition
    f = find_def(tree, 'mass_from_composition')
    consts = [n for n in ast.walk(f) if isinstance(n, ast.Constant) and isinstance(n.value, float) and n.value != 0.0]
    if len(consts) != 1:
        raise ExtractError('expected exactly one float literal (electron mass) in mass_from_composition')
    me = num_text_to_fraction(seg(src, consts[0]))
    scale = 1
    for m in masses:
        while (m * scale).denominator != 1:
            scale *= 10
    pl = [c.value for c in find_assign(tree, 'period_lengths').elts]
    apl = [c.value for c in find_assign(tree, 'accum_period_lengths').elts]
    out = [HEADER % REL, 'namespace ChemModel.Gen\n']
    out.append('def symbols : List String := %s\n' % lean_str_list(syms))
    out.append('def names : List String := %s\n' % lean_str_list(names))
    out.append('/-- relative atomic masses times `massScale`, exact values of the literals as written -/')
    out.append('def massScale : Nat := %d' % scale)
    out.append('def massTab : List Nat := [%s]\n' % ', '.join(str(int(m * scale)) for m in masses))
    out.append('/-- the electron-mass literal of mass_from_composition as an exact fraction -/')
    out.append('def electronMassNum : Nat := %d\ndef electronMassDen : Nat := %d\n' % (me.numerator, me.denominator))
    out.append('def periodLengths : List Nat := %s' % pl)
    out.append('def accumPeriodLengths : List Nat := %s\n' % apl)
    out.append('end ChemModel.Gen\n')
    return {'Periodic.lean': '\n'.join(out)}
