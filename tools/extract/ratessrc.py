"""rates.py / expressions.py / _expr.py -> Gen/RatesSrc.lean (C16): NORMALISED code of every body that `Model/Expr.lean`
transcribes by hand.  `Props/C16.lean` holds one `…_guard` theorem per entry comparing the regenerated text with the
text the model was written from: a semantic edit of such a body opens a proof obligation.

The comparison is made robust against harmless rewrites by normalising the AST before printing it (`norm_text`):
  * the docstring is dropped (comments and layout never reach the AST);
  * `else` after a branch that ends in `return` / `raise` / `continue` / `break` is hoisted (`if c: return a else: B` == `if c: return a; B`;
    `else: if …` and `elif …` are the same AST anyway);
  * a temporary that is assigned once by a plain `name = expr`, read exactly once, and read in the NEXT statement before any
    call of that statement has been completed, is inlined (evaluation order is preserved; not done when the use sits inside a
    loop / comprehension / lambda);
  * local names (assigned inside the body; NOT the parameters, which are keyword API) are alpha-renamed to v0, v1, … in order
    of first occurrence (attributes, globals, builtins and keyword-argument names of calls are kept).
Everything else (operators, their order, literals, attribute and method names, control structure) is compared verbatim.
"""
import ast, copy
from .common import parse, ExtractError, lean_str, HEADER

FILES = ['RatesSrc.lean']

# (file, path of nested def/class names, Lean name)
SRC = [
    ('chempy/kinetics/rates.py', ['MassAction', 'active_conc_prod'], 'srcMassActionConcProd'),
    ('chempy/kinetics/rates.py', ['MassAction', 'rate_coeff'], 'srcMassActionRateCoeff'),
    ('chempy/kinetics/rates.py', ['MassAction', '__call__'], 'srcMassActionCall'),
    ('chempy/kinetics/rates.py', ['Arrhenius', '__call__'], 'srcArrheniusCall'),
    ('chempy/kinetics/rates.py', ['Eyring', '__call__'], 'srcEyringCall'),
    ('chempy/kinetics/rates.py', ['EyringHS', '__call__'], 'srcEyringHSCall'),
    ('chempy/kinetics/rates.py', ['mk_Radiolytic', '_Radiolytic', '__call__'], 'srcRadiolyticCall'),
    ('chempy/kinetics/rates.py', ['RampedTemp', '__call__'], 'srcRampedTempCall'),
    ('chempy/kinetics/rates.py', ['SinTemp', '__call__'], 'srcSinTempCall'),
    ('chempy/thermodynamics/expressions.py', ['MassActionEq', 'eq_const'], 'srcMassActionEqConst'),
    ('chempy/thermodynamics/expressions.py', ['MassActionEq', '__call__'], 'srcMassActionEqCall'),
    ('chempy/thermodynamics/expressions.py', ['GibbsEqConst', 'eq_const'], 'srcGibbsEqConst'),
    ('chempy/util/_expr.py', ['create_Poly', '_poly'], 'srcPoly'),
    ('chempy/util/_expr.py', ['create_Piecewise', '_pw'], 'srcPiecewise'),
    ('chempy/util/_expr.py', ['Expr', 'from_callback', 'body'], 'srcFromCallbackBody'),
    ('chempy/util/_expr.py', ['Expr', 'arg'], 'srcExprArg'),
    ('chempy/util/_expr.py', ['Expr', 'all_args'], 'srcExprAllArgs'),
    ('chempy/util/_expr.py', ['Expr', 'all_params'], 'srcExprAllParams'),
    ('chempy/util/_expr.py', ['UnaryFunction', '__call__'], 'srcUnaryFunctionCall'),
    ('chempy/util/_expr.py', ['Log10', '__call__'], 'srcLog10Call'),
    ('chempy/util/_expr.py', ['_BinaryExpr', '__call__'], 'srcBinaryCall'),
    ('chempy/util/_expr.py', ['_NegExpr', '__call__'], 'srcNegCall'),
    ('chempy/util/_expr.py', ['Constant', '__call__'], 'srcConstantCall'),
    ('chempy/util/_expr.py', ['Symbol', '__call__'], 'srcSymbolCall'),
]


def _descend(tree, path, rel):
    node = tree
    for name in path:
        kids = [n for n in ast.walk(node) if n is not node and isinstance(n, (ast.FunctionDef, ast.ClassDef)) and n.name == name]
        if not kids:
            raise ExtractError('%s: no %s' % (rel, '.'.join(path)))
        node = kids[0]
    return node


_TERMINAL = (ast.Return, ast.Raise, ast.Continue, ast.Break)


def _hoist(stmts):
    """`if c: …return/raise  else: B`  ->  `if c: …return/raise ; B`  (recursively)"""
    out = []
    for st in stmts:
        for fld in ('body', 'orelse', 'finalbody'):
            if isinstance(getattr(st, fld, None), list) and not isinstance(st, ast.Match if hasattr(ast, 'Match') else ()):
                if all(isinstance(x, ast.stmt) for x in getattr(st, fld)):
                    setattr(st, fld, _hoist(getattr(st, fld)))
        if isinstance(st, ast.Try):
            for h in st.handlers:
                h.body = _hoist(h.body)
        if isinstance(st, ast.If) and st.orelse and st.body and isinstance(st.body[-1], _TERMINAL):
            rest, st.orelse = st.orelse, []
            out.append(st)
            out.extend(rest)
        else:
            out.append(st)
    return out


def _loads(node, name):
    return [n for n in ast.walk(node) if isinstance(n, ast.Name) and n.id == name and isinstance(n.ctx, ast.Load)]


def _stores(node, name):
    return [n for n in ast.walk(node) if isinstance(n, ast.Name) and n.id == name and not isinstance(n.ctx, ast.Load)]


def _in_deferred(stmt, name):
    """is the (only) read of `name` inside a loop body / comprehension / lambda of this statement?"""
    for n in ast.walk(stmt):
        if isinstance(n, (ast.ListComp, ast.SetComp, ast.DictComp, ast.GeneratorExp, ast.Lambda, ast.For, ast.While)):
            if _loads(n, name):
                return True
    return False


def _inline_temps(f):
    changed = True
    while changed:
        changed = False
        for holder in ast.walk(f):
            for fld in ('body', 'orelse', 'finalbody'):
                stmts = getattr(holder, fld, None)
                if not isinstance(stmts, list) or not all(isinstance(x, ast.stmt) for x in stmts):
                    continue
                for i in range(len(stmts) - 1):
                    st, nxt = stmts[i], stmts[i + 1]
                    if not (isinstance(st, ast.Assign) and len(st.targets) == 1 and isinstance(st.targets[0], ast.Name)):
                        continue
                    nm = st.targets[0].id
                    if len(_stores(f, nm)) != 1 or len(_loads(f, nm)) != 1 or len(_loads(nxt, nm)) != 1:
                        continue
                    if nm in [a.arg for a in f.args.args + f.args.kwonlyargs] or _in_deferred(nxt, nm):
                        continue
                    # nothing with an effect may be evaluated in the next statement BEFORE the read: no call / subscript-call /
                    # await / yield that is completed (ends) before the position of the read
                    use = _loads(nxt, nm)[0]
                    upos = (use.lineno, use.col_offset)
                    if any(isinstance(x, (ast.Call, ast.Await, ast.Yield, ast.YieldFrom))
                           and (x.end_lineno, x.end_col_offset) <= upos for x in ast.walk(nxt)):
                        continue
                    val = st.value

                    class _Sub(ast.NodeTransformer):
                        def visit_Name(self, n):
                            return copy.deepcopy(val) if n.id == nm and isinstance(n.ctx, ast.Load) else n
                    stmts[i + 1] = _Sub().visit(nxt)
                    del stmts[i]
                    changed = True
                    break
                if changed:
                    break
            if changed:
                break
    return f


def _alpha(f):
    local = []

    def add(n):
        if n not in local:
            local.append(n)
    a = f.args
    params = {x.arg for x in a.posonlyargs + a.args + ([a.vararg] if a.vararg else []) + a.kwonlyargs + ([a.kwarg] if a.kwarg else [])}
    for n in ast.walk(f):       # parameters keep their names: they are keyword API (`backend=`, `reaction=`)
        if isinstance(n, ast.Name) and not isinstance(n.ctx, ast.Load) and n.id not in params:
            add(n.id)
        elif isinstance(n, ast.ExceptHandler) and n.name:
            add(n.name)
    # order of first occurrence in the printed text
    order = []
    for n in ast.walk(f):
        nm = n.arg if isinstance(n, ast.arg) else n.id if isinstance(n, ast.Name) else None
        if nm in local and nm not in order:
            order.append((getattr(n, 'lineno', 0), getattr(n, 'col_offset', 0), nm))
    seen, ren = set(), {}
    for _, _, nm in sorted(order):
        if nm not in seen:
            seen.add(nm)
            ren[nm] = 'v%d' % len(ren)
    for nm in local:
        ren.setdefault(nm, 'v%d' % len(ren))
    for n in ast.walk(f):
        if isinstance(n, ast.arg) and n.arg in ren:
            n.arg = ren[n.arg]
        elif isinstance(n, ast.Name) and n.id in ren:
            n.id = ren[n.id]
        elif isinstance(n, ast.ExceptHandler) and n.name in ren:
            n.name = ren[n.name]
        elif isinstance(n, ast.keyword) and False:
            pass
    return f


def norm_text(f):
    f = copy.deepcopy(f)
    body = list(f.body)
    if body and isinstance(body[0], ast.Expr) and isinstance(body[0].value, ast.Constant) and isinstance(body[0].value.value, str):
        body = body[1:]
    f.body = _hoist(body) or [ast.Pass()]
    f.decorator_list = []
    f = _inline_temps(f)
    f = _alpha(f)
    sig = ast.unparse(f.args)
    text = 'def(%s): ' % sig + '; '.join(ast.unparse(st).replace('\n', ' ') for st in f.body)
    return ' '.join(text.split())


def source_texts(repo):
    out, cache = [], {}
    for rel, path, lname in SRC:
        if rel not in cache:
            cache[rel] = parse(repo, rel)[1]
        f = _descend(cache[rel], path, rel)
        out.append((lname, '.'.join(path), rel, norm_text(f)))
    return out


def generate(repo):
    lines = [HEADER % 'chempy/kinetics/rates.py, chempy/thermodynamics/expressions.py, chempy/util/_expr.py',
             'namespace ChemModel.Gen', '']
    for lname, path, rel, text in source_texts(repo):
        lines.append('/-- code of `%s` (%s), normalised (tools/extract/ratessrc.py: docstring dropped, else-after-return hoisted,\nsingle-use temporaries inlined, local names alpha-renamed) -/' % (path, rel))
        lines.append('def %s : String := %s' % (lname, lean_str(text)))
        lines.append('')
    lines.append('end ChemModel.Gen')
    return {'RatesSrc.lean': '\n'.join(lines) + '\n'}
