"""chempy/units.py -> Gen/Units.lean

Everything is read from the AST of the source text (chempy is NOT imported):

* `registryKeys` / `siRegistry`      the keys of `SI_base_registry` in dict order and the unit each maps to
* `quantitiesMapping`                `_quantities_mapping` of get_physical_dimensionality (unit class name -> registry key)
* `derivedTable`                     for every key of the `derived` dict built by get_derived_unit: the integer exponents
                                     over the registry keys (symbolic evaluation of `registry[k] ** n * ... / derived[k']`)
* `ownUnits`                         every name assigned on `default_units` in the module body, evaluated symbolically to
                                     (exact rational factor relative to SI, exponent vector, u_symbol, defined-by-chempy?)
* `dimConstants`                     the ArithmeticDict constants time, length, ..., energy, volume, concentration

Leaves that are not defined in units.py itself (`pq.mole`, `default_units.eV`, `default_constants.Avogadro_constant`, ...)
come from the third-party package `quantities` (modelled, not verified): it is imported here (NOT chempy) and the leaf is
read as `x.simplified`: factor = the shortest decimal that round-trips to the stored float64 magnitude (Python `repr`,
i.e. the literal as written in quantities' source, e.g. 0.01 -> 1/100, 1.602176487e-19 -> 1602176487/10^28), exponent
vector from its simplified dimensionality through `_quantities_mapping`.  `hasattr(default_units, name)` guards are
decided the same way (defined earlier in units.py, or an attribute of the installed `quantities`).
Float literals of units.py itself (`1e3`, `10.0`, `1e-6`) are taken at the exact decimal value of their text.
"""
import ast
from fractions import Fraction
from .common import *

REL = 'chempy/units.py'
FILES = ['Units.lean']


class _Env:
    def __init__(self, keys, mapping):
        import warnings
        with warnings.catch_warnings():
            warnings.simplefilter('ignore')
            import quantities as pq
        self.pq = pq
        self.keys = keys
        self.mapping = mapping          # class name -> key
        self.own = {}                   # name -> (Fraction, dims tuple, u_symbol or None)

    def zero(self):
        return (0,) * len(self.keys)

    def leaf(self, obj):
        s = obj.simplified
        f = Fraction(repr(float(s.magnitude)))
        d = [0] * len(self.keys)
        for u, e in s.dimensionality.items():
            cls = type(u).__name__
            if cls not in self.mapping:
                raise ExtractError('quantities unit class %s not in _quantities_mapping' % cls)
            if int(e) != e:
                raise ExtractError('non-integer exponent in a quantities unit')
            d[self.keys.index(self.mapping[cls])] += int(e)
        if f <= 0:
            raise ExtractError('non-positive factor of a quantities unit')
        return (f, tuple(d), getattr(obj, 'u_symbol', None))

    def has(self, name):
        return name in self.own or hasattr(self.pq, name)

    def unit(self, name):
        if name in self.own:
            return self.own[name]
        if not hasattr(self.pq, name):
            raise ExtractError('unknown unit name %s' % name)
        return self.leaf(getattr(self.pq, name))

    def constant(self, name):
        if not hasattr(self.pq.constants, name):
            raise ExtractError('unknown constant %s' % name)
        return self.leaf(getattr(self.pq.constants, name))


def _mul(a, b):
    return (a[0] * b[0], tuple(x + y for x, y in zip(a[1], b[1])))


def _div(a, b):
    return (a[0] / b[0], tuple(x - y for x, y in zip(a[1], b[1])))


def _pow(a, n):
    return (a[0] ** n, tuple(x * n for x in a[1]))


def _int_const(node):
    if isinstance(node, ast.UnaryOp) and isinstance(node.op, ast.USub):
        return -_int_const(node.operand)
    if isinstance(node, ast.Constant) and isinstance(node.value, int) and not isinstance(node.value, bool):
        return node.value
    raise ExtractError('integer literal expected as exponent')


def _eval_unit(src, node, env):
    """symbolic value (Fraction factor, dims) of a unit expression of the module body"""
    if isinstance(node, ast.Constant) and isinstance(node.value, (int, float)) and not isinstance(node.value, bool):
        return (num_text_to_fraction(seg(src, node)), env.zero())
    if isinstance(node, ast.Attribute) and isinstance(node.value, ast.Name):
        if node.value.id in ('default_units', 'pq'):
            if node.value.id == 'pq' and node.attr in env.own:
                raise ExtractError('pq.%s shadows a chempy definition' % node.attr)
            return env.unit(node.attr)[:2] if node.value.id == 'default_units' else env.leaf(getattr(env.pq, node.attr))[:2]
        if node.value.id == 'default_constants':
            return env.constant(node.attr)[:2]
    if isinstance(node, ast.BinOp):
        if isinstance(node.op, ast.Pow):
            return _pow(_eval_unit(src, node.left, env), _int_const(node.right))
        a, b = _eval_unit(src, node.left, env), _eval_unit(src, node.right, env)
        if isinstance(node.op, ast.Mult):
            return _mul(a, b)
        if isinstance(node.op, ast.Div):
            return _div(a, b)
    if isinstance(node, ast.Call) and seg(src, node.func) == 'pq.UnitQuantity' and len(node.args) == 2:
        return _eval_unit(src, node.args[1], env)
    raise ExtractError('unit expression outside the subset: %s' % seg(src, node))


def _u_symbol(src, node):
    if isinstance(node, ast.Call) and seg(src, node.func) == 'pq.UnitQuantity':
        for kw in node.keywords:
            if kw.arg == 'u_symbol' and isinstance(kw.value, ast.Constant) and isinstance(kw.value.value, str):
                return kw.value.value
        for kw in node.keywords:
            if kw.arg == 'symbol' and isinstance(kw.value, ast.Constant):
                return kw.value.value
        if isinstance(node.args[0], ast.Constant):
            return node.args[0].value
    return None


def _module_else_body(tree):
    for n in tree.body:
        if isinstance(n, ast.Try) and n.orelse:
            return n.orelse
    raise ExtractError('try: pq = __import__(...) else: block not found')


def _registry(src, body, env_keys_only=False):
    for n in body:
        if isinstance(n, ast.Assign) and len(n.targets) == 1 and isinstance(n.targets[0], ast.Name) \
                and n.targets[0].id == 'SI_base_registry' and isinstance(n.value, ast.Dict):
            keys = []
            for k in n.value.keys:
                if not (isinstance(k, ast.Constant) and isinstance(k.value, str)):
                    raise ExtractError('SI_base_registry key not a string literal')
                keys.append(k.value)
            return keys, n.value.values
    raise ExtractError('SI_base_registry dict literal not found')


def _mapping(src, tree):
    f = find_def(tree, 'get_physical_dimensionality')
    for n in ast.walk(f):
        if isinstance(n, ast.Assign) and isinstance(n.targets[0], ast.Name) and n.targets[0].id == '_quantities_mapping' \
                and isinstance(n.value, ast.Dict):
            out = []
            for k, v in zip(n.value.keys, n.value.values):
                if not (isinstance(k, ast.Attribute) and isinstance(k.value, ast.Name) and k.value.id == 'pq'
                        and isinstance(v, ast.Constant) and isinstance(v.value, str)):
                    raise ExtractError('_quantities_mapping entry of unexpected shape')
                out.append((k.attr, v.value))
            return out
    raise ExtractError('_quantities_mapping not found')


def _derived(src, tree, keys):
    f = find_def(tree, 'get_derived_unit')
    table = {}
    order = []

    def ev(node):
        if isinstance(node, ast.Subscript) and isinstance(node.value, ast.Name) and isinstance(node.slice, ast.Constant):
            k = node.slice.value
            if node.value.id == 'registry':
                if k not in keys:
                    raise ExtractError('registry[%r]: not a registry key' % k)
                return tuple(1 if kk == k else 0 for kk in keys)
            if node.value.id == 'derived':
                if k not in table:
                    raise ExtractError('derived[%r] used before it is defined' % k)
                return table[k]
        if isinstance(node, ast.BinOp):
            if isinstance(node.op, ast.Pow):
                n = _int_const(node.right)
                return tuple(x * n for x in ev(node.left))
            a, b = ev(node.left), ev(node.right)
            if isinstance(node.op, ast.Mult):
                return tuple(x + y for x, y in zip(a, b))
            if isinstance(node.op, ast.Div):
                return tuple(x - y for x, y in zip(a, b))
        raise ExtractError('get_derived_unit: expression outside the subset: %s' % seg(src, node))

    stmts = [s for s in f.body if not (isinstance(s, ast.Expr) and isinstance(s.value, ast.Constant))]
    # expected shape: if registry is None: return 1.0 ; derived = {...} ; derived[k] = e ... ; try: return derived[key] except KeyError: return registry[key]
    if not (len(stmts) >= 3 and isinstance(stmts[0], ast.If)
            and ''.join(ast.unparse(stmts[0]).split()) == 'ifregistryisNone:return1.0'):
        raise ExtractError('get_derived_unit: the `registry is None -> 1.0` guard changed')
    if ''.join(ast.unparse(stmts[-1]).split()) != 'try:returnderived[key]exceptKeyError:returnregistry[key]':
        raise ExtractError('get_derived_unit: the final lookup changed')
    for s in stmts[1:-1]:
        if isinstance(s, ast.Assign) and len(s.targets) == 1:
            t = s.targets[0]
            if isinstance(t, ast.Name) and t.id == 'derived' and isinstance(s.value, ast.Dict):
                for k, v in zip(s.value.keys, s.value.values):
                    if not (isinstance(k, ast.Constant) and isinstance(k.value, str)):
                        raise ExtractError('derived key not a string literal')
                    val = ev(v)          # dict display: values evaluated before `derived` is bound
                    order.append(k.value)
                    table[k.value] = val
                continue
            if isinstance(t, ast.Subscript) and isinstance(t.value, ast.Name) and t.value.id == 'derived' \
                    and isinstance(t.slice, ast.Constant) and isinstance(t.slice.value, str):
                table[t.slice.value] = ev(s.value)
                if t.slice.value not in order:
                    order.append(t.slice.value)
                continue
        raise ExtractError('get_derived_unit: statement outside the subset: %s' % seg(src, s))
    return [(k, table[k]) for k in order]


def _dim_constants(src, tree, keys):
    out = {}
    order = []

    def vec(d):
        return tuple(d.get(k, 0) for k in keys)

    def lit(node):
        if isinstance(node, ast.Dict):
            d = {}
            for k, v in zip(node.keys, node.values):
                if not isinstance(k, ast.Constant) or k.value not in keys:
                    raise ExtractError('dimension constant with unknown key')
                d[k.value] = _int_const(v)
            return vec(d)
        raise ExtractError('dict literal expected')

    def ev(node):
        if isinstance(node, ast.Call) and isinstance(node.func, ast.Name) and node.func.id == 'ArithmeticDict' \
                and len(node.args) == 2 and isinstance(node.args[0], ast.Name) and node.args[0].id == 'int':
            return lit(node.args[1])
        if isinstance(node, ast.Dict):
            return lit(node)
        if isinstance(node, ast.Name) and node.id in out:
            return out[node.id]
        if isinstance(node, ast.BinOp) and isinstance(node.op, (ast.Add, ast.Sub)):
            a, b = ev(node.left), ev(node.right)
            # ArithmeticDict.__add__/__sub__/__radd__/__rsub__ are key-wise (+ / -) with missing keys read as 0
            return tuple(x + y for x, y in zip(a, b)) if isinstance(node.op, ast.Add) else tuple(x - y for x, y in zip(a, b))
        if isinstance(node, ast.BinOp) and isinstance(node.op, ast.Mult):
            for c, o in ((node.left, node.right), (node.right, node.left)):
                try:
                    n = _int_const(c)
                except ExtractError:
                    continue
                return tuple(n * x for x in ev(o))
        raise ExtractError('dimension constant outside the subset: %s' % seg(src, node))

    for n in tree.body:
        if isinstance(n, ast.Assign) and len(n.targets) == 1 and isinstance(n.targets[0], ast.Name):
            nm = n.targets[0].id
            if nm in ('time', 'length', 'mass', 'current', 'temperature', 'amount', 'energy', 'volume', 'concentration'):
                out[nm] = ev(n.value)
                order.append(nm)
    for nm in ('time', 'length', 'mass', 'current', 'temperature', 'amount', 'energy', 'volume', 'concentration'):
        if nm not in out:
            raise ExtractError('dimension constant %s not found' % nm)
    return [(k, out[k]) for k in order]


def _own_units(src, body, env):
    """assignments `default_units.X [= default_units.Y] = expr`, plain or under `if not hasattr(default_units, "X")`"""
    rows = []

    def assign(s):
        names = []
        for t in s.targets:
            if not (isinstance(t, ast.Attribute) and isinstance(t.value, ast.Name) and t.value.id == 'default_units'):
                return False
            names.append(t.attr)
        val = _eval_unit(src, s.value, env)
        if val[0] <= 0:
            raise ExtractError('non-positive unit factor')
        sym = _u_symbol(src, s.value)
        for nm in names:
            env.own[nm] = (val[0], val[1], sym)
            rows.append((nm, True))
        return True

    for s in body:
        if isinstance(s, ast.Assign):
            if assign(s):
                continue
            continue        # other module-level assignments (default_constants, SI_base_registry, ...) are not unit definitions
        if isinstance(s, ast.If):
            t = s.test
            ok = (isinstance(t, ast.UnaryOp) and isinstance(t.op, ast.Not) and isinstance(t.operand, ast.Call)
                  and isinstance(t.operand.func, ast.Name) and t.operand.func.id == 'hasattr' and len(t.operand.args) == 2
                  and seg(src, t.operand.args[0]) == 'default_units' and isinstance(t.operand.args[1], ast.Constant)
                  and not s.orelse and len(s.body) == 1 and isinstance(s.body[0], ast.Assign))
            if not ok:
                raise ExtractError('if-statement outside the subset: %s' % seg(src, s)[:60])
            nm = t.operand.args[1].value
            if env.has(nm):
                if nm not in env.own:
                    rows.append((nm, False))          # quantities already provides it: chempy's definition is skipped
                continue
            if not assign(s.body[0]):
                raise ExtractError('guarded statement is not a default_units assignment')
            continue
    seen, out = set(), []
    for nm, own in rows:
        if nm in seen:
            continue
        seen.add(nm)
        f, d, sym = env.unit(nm)
        out.append((nm, f, d, sym, own))
    return out


def _lstr(s):
    """Lean string literal; non-ASCII characters are written as UTF-8 text (common.lean_str's `\\u{..}` form is not
    accepted by Lean 4.33 for code points given with fewer than 4 hex digits)"""
    out = ['"']
    for ch in s:
        if ch == '"':
            out.append('\\"')
        elif ch == '\\':
            out.append('\\\\')
        elif ord(ch) < 32 or ord(ch) == 127:
            out.append('\\x%02x' % ord(ch))
        else:
            out.append(ch)
    out.append('"')
    return ''.join(out)


# the "standard prefixed units" of the human-readable round trip: attribute names of `quantities` per registry key
# (pm is left out: quantities stores 1.0000000000000002e-12 for it)
HR_STANDARD = {'length': ['m', 'dm', 'cm', 'mm', 'um', 'nm', 'km'], 'mass': ['kg', 'g', 'mg'], 'time': ['s', 'ms', 'us', 'ns', 'min', 'h', 'd'],
               'current': ['A', 'mA', 'uA', 'nA'], 'temperature': ['K', 'mK', 'uK'], 'luminous_intensity': ['cd'],
               'amount': ['mol', 'mmol', 'umol']}


# named derived / non-SI units of `quantities` whose `.simplified` chempy relies on (get_physical_dimensionality, unit_of(simplified=True), registries)
NAMED_DERIVED = ['L', 'mL', 'J', 'cal', 'N', 'Pa', 'kPa', 'bar', 'W', 'C', 'V', 'mV', 'Hz', 'mK']


def _named_units(env):
    out = []
    for n in NAMED_DERIVED:
        o = getattr(env.pq, n, None)
        if o is None:
            raise ExtractError('quantities has no unit %s' % n)
        f, d, _ = env.leaf(o)
        out.append((n, f, d))
    return out


def _hr_tables(env):
    """(units, parse): units = [(key index, name, plain symbol, factor, dims)] read from the installed `quantities`;
    parse = for each of those symbols what the third-party unit-string parser returns, `pq.Quantity(0, symbol).dimensionality`,
    as [(symbol of the unit object, factor, dims, exponent)] — the `lookup` of the model's `fromHuman`"""
    units, parse = [], []
    for k, names in HR_STANDARD.items():
        if k not in env.keys:
            raise ExtractError('registry key %s vanished' % k)
        for n in names:
            o = getattr(env.pq, n, None)
            if o is None:
                raise ExtractError('quantities has no unit %s' % n)
            f, d, _ = env.leaf(o)
            sym = o.symbol
            if not isinstance(sym, str) or not sym.isascii():
                raise ExtractError('symbol of %s is not plain ASCII' % n)
            units.append((env.keys.index(k), n, sym, f, d))
            try:
                items = list(env.pq.Quantity(0, sym).dimensionality.items())
            except LookupError:
                continue                      # unparseable: no entry (the round-trip theorem then fails to build, as it should)
            ent = []
            for po, pe in items:
                pf, pd, _ = env.leaf(po)
                if int(pe) != pe:
                    raise ExtractError('non-integer exponent from the parser')
                ent.append((po.symbol, pf, pd, int(pe)))
            parse.append((sym, ent))
    return units, parse


def _ilist(v):
    return '[' + ', '.join(str(int(x)) for x in v) + ']'


def generate(repo):
    src, tree = parse(repo, REL)
    body = _module_else_body(tree)
    keys, values = _registry(src, body)
    if len(keys) != 7 or len(set(keys)) != 7:
        raise ExtractError('SI_base_registry no longer has 7 distinct keys')
    mapping = _mapping(src, tree)
    env = _Env(keys, dict(mapping))
    own = _own_units(src, body, env)
    si = []
    for k, v in zip(keys, values):
        f, d = _eval_unit(src, v, env)
        si.append((k, f, d))
    derived = _derived(src, tree, keys)
    consts = _dim_constants(src, tree, keys)

    out = [HEADER % REL,
           '-- leaves not defined in units.py come from the installed third-party `quantities` (x.simplified; factor = repr-decimal of the float64)',
           'namespace ChemModel.Gen.Units\n']
    out.append('/-- keys of `SI_base_registry` in dict order: the order of every exponent vector below -/')
    out.append('def registryKeys : List String := %s\n' % lean_str_list(keys))
    out.append('/-- `SI_base_registry`: key, factor relative to SI as (numerator, denominator), exponent vector -/')
    out.append('def siRegistry : List (String × (Int × Nat) × List Int) := [\n%s]\n' % ',\n'.join(
        '  (%s, (%d, %d), %s)' % (lean_str(k), f.numerator, f.denominator, _ilist(d)) for k, f, d in si))
    out.append('/-- `_quantities_mapping` of get_physical_dimensionality: (quantities unit class, registry key) in dict order -/')
    out.append('def quantitiesMapping : List (String × String) := [%s]\n' % ', '.join(
        '(%s, %s)' % (lean_str(a), lean_str(b)) for a, b in mapping))
    out.append('/-- the `derived` dict of get_derived_unit in insertion order: key, exponents over `registryKeys` -/')
    out.append('def derivedTable : List (String × List Int) := [\n%s]\n' % ',\n'.join(
        '  (%s, %s)' % (lean_str(k), _ilist(v)) for k, v in derived))
    out.append('/-- names assigned on `default_units` by units.py: name, factor (num, den), exponents, u_symbol ("" if none),\n'
               '    `true` = defined by chempy, `false` = the `hasattr` guard found it in `quantities` (chempy\'s definition skipped) -/')
    out.append('def ownUnits : List (String × (Int × Nat) × List Int × String × Bool) := [\n%s]\n' % ',\n'.join(
        '  (%s, (%d, %d), %s, %s, %s)' % (lean_str(nm), f.numerator, f.denominator, _ilist(d), _lstr(sym or ''),
                                         'true' if o else 'false') for nm, f, d, sym, o in own))
    out.append('/-- the ArithmeticDict dimension constants of units.py (time … concentration) as exponent vectors -/')
    out.append('def dimConstants : List (String × List Int) := [\n%s]\n' % ',\n'.join(
        '  (%s, %s)' % (lean_str(k), _ilist(v)) for k, v in consts))
    hr_units, hr_parse = _hr_tables(env)
    out.append('/-- standard prefixed units of the installed `quantities` (third party): registry key index, attribute name, plain `symbol`,\n'
               '    factor relative to SI (num, den), exponent vector -/')
    out.append('def hrUnits : List (Nat × String × String × (Int × Nat) × List Int) := [\n%s]\n' % ',\n'.join(
        '  (%d, %s, %s, (%d, %d), %s)' % (i, lean_str(n), lean_str(sym), f.numerator, f.denominator, _ilist(d)) for i, n, sym, f, d in hr_units))
    out.append('/-- what the unit-string parser of `quantities` returns for each of those symbols (`pq.Quantity(0, symbol).dimensionality`):\n'
               '    symbol ↦ [(symbol of the unit object, factor, exponent vector, exponent)] -/')
    out.append('def hrParse : List (String × List (String × (Int × Nat) × List Int × Int)) := [\n%s]\n' % ',\n'.join(
        '  (%s, [%s])' % (lean_str(sym), ', '.join('(%s, (%d, %d), %s, %d)' % (lean_str(ps), pf.numerator, pf.denominator, _ilist(pd), pe)
                                                  for ps, pf, pd, pe in ent)) for sym, ent in hr_parse))
    out.append('/-- named derived units of the installed `quantities` (third party) after `.simplified`: attribute name, factor (num, den), exponent vector -/')
    out.append('def namedUnits : List (String × (Int × Nat) × List Int) := [\n%s]\n' % ',\n'.join(
        '  (%s, (%d, %d), %s)' % (lean_str(n), f.numerator, f.denominator, _ilist(d)) for n, f, d in _named_units(env)))
    out.append('end ChemModel.Gen.Units\n')
    return {'Units.lean': '\n'.join(out)}
