"""chempy/kinetics/rates.py (+ util/_dimensionality.py, units.py) -> Gen/Dims.lean

The `args_dimensionality` dictionaries of MassAction, Arrhenius, Eyring and Radiolytic, read from the AST of the
source text (chempy is NOT imported).  Every dictionary value is evaluated symbolically to an integer-linear
function `a*order + b` of `order = reaction.order()`; an entry is emitted as `(key, a, b)`.

* a dict display `{"time": -1, "amount": 1 - order, "length": 3 * (order - 1)}`: entries in display order;
* a name imported from `chempy.units` (`concentration`): the ArithmeticDict constant of units.py, evaluated by the
  units extractor (`extract.units._dim_constants`), non-zero entries in registry-key order;
* Radiolytic: `N = base_registry["amount"]; E = get_derived_unit(base_registry, "energy");
  return (dict(zip(dimension_codes, N / E)),) * self.nargs` is evaluated on exponent vectors over the keys of
  `dimension_codes` (util/_dimensionality.py); `get_derived_unit` exponents come from the units extractor
  (`extract.units._derived`, i.e. from the source of `get_derived_unit`).  One dict (all six keys, zero entries
  included, as `dict(zip(...))` builds it) stands for every argument.

Anything outside this subset raises ExtractError: the Gen file becomes a stub and the dependent theorems fail to build.
"""
import ast
from .common import *
from . import units as _units

REL = 'chempy/kinetics/rates.py'
REL_DIM = 'chempy/util/_dimensionality.py'
REL_UNITS = 'chempy/units.py'
FILES = ['Dims.lean']


def _lin(src, node, has_order):
    """-> (a, b): the value a*order + b"""
    if isinstance(node, ast.Constant) and isinstance(node.value, int) and not isinstance(node.value, bool):
        return (0, node.value)
    if isinstance(node, ast.Name) and node.id == 'order' and has_order:
        return (1, 0)
    if isinstance(node, ast.UnaryOp) and isinstance(node.op, ast.USub):
        a, b = _lin(src, node.operand, has_order)
        return (-a, -b)
    if isinstance(node, ast.UnaryOp) and isinstance(node.op, ast.UAdd):
        return _lin(src, node.operand, has_order)
    if isinstance(node, ast.BinOp):
        l, r = _lin(src, node.left, has_order), _lin(src, node.right, has_order)
        if isinstance(node.op, ast.Add):
            return (l[0] + r[0], l[1] + r[1])
        if isinstance(node.op, ast.Sub):
            return (l[0] - r[0], l[1] - r[1])
        if isinstance(node.op, ast.Mult):
            if l[0] == 0:
                return (l[1] * r[0], l[1] * r[1])
            if r[0] == 0:
                return (r[1] * l[0], r[1] * l[1])
    raise ExtractError('args_dimensionality: exponent outside the integer-linear subset: %s' % seg(src, node))


def _method(cls, name):
    for n in cls.body:
        if isinstance(n, ast.FunctionDef) and n.name == name:
            return n
    raise ExtractError('%s has no method %s' % (cls.name, name))


def _strip_doc(body):
    return [s for s in body if not (isinstance(s, ast.Expr) and isinstance(s.value, ast.Constant))]


def _order_binding(src, stmts):
    """`order = reaction.order()` as first statement (optional) -> (has_order, remaining statements)"""
    if stmts and isinstance(stmts[0], ast.Assign) and len(stmts[0].targets) == 1 \
            and isinstance(stmts[0].targets[0], ast.Name) and stmts[0].targets[0].id == 'order':
        if ''.join(ast.unparse(stmts[0].value).split()) != 'reaction.order()':
            raise ExtractError('args_dimensionality: `order` is no longer reaction.order(): %s' % seg(src, stmts[0]))
        return True, stmts[1:]
    return False, stmts


def _plain_args(src, cls, consts, imported):
    """tuple of dict displays / imported dimension constants"""
    f = _method(cls, 'args_dimensionality')
    has_order, stmts = _order_binding(src, _strip_doc(f.body))
    if len(stmts) != 1 or not isinstance(stmts[0], ast.Return) or not isinstance(stmts[0].value, ast.Tuple):
        raise ExtractError('%s.args_dimensionality: body outside the subset' % cls.name)
    out = []
    for e in stmts[0].value.elts:
        if isinstance(e, ast.Dict):
            row = []
            for k, v in zip(e.keys, e.values):
                if not (isinstance(k, ast.Constant) and isinstance(k.value, str)):
                    raise ExtractError('%s.args_dimensionality: key is not a string literal' % cls.name)
                row.append((k.value,) + _lin(src, v, has_order))
            if len({r[0] for r in row}) != len(row):
                raise ExtractError('%s.args_dimensionality: duplicate key' % cls.name)
            out.append(row)
        elif isinstance(e, ast.Name) and e.id in imported and e.id in consts:
            keys, vec = consts[e.id]
            out.append([(k, 0, x) for k, x in zip(keys, vec) if x != 0])
        else:
            raise ExtractError('%s.args_dimensionality: element outside the subset: %s' % (cls.name, seg(src, e)))
    return out


def _dimension_codes(repo):
    src, tree = parse(repo, REL_DIM)
    v = find_assign(tree, 'dimension_codes')
    # OrderedDict(zip("length mass ...".split(), "L M ...".split()))
    try:
        z = v.args[0]
        assert isinstance(v.func, ast.Name) and v.func.id == 'OrderedDict' and z.func.id == 'zip'
        k = z.args[0]
        assert isinstance(k, ast.Call) and isinstance(k.func, ast.Attribute) and k.func.attr == 'split' and not k.args
        keys = k.func.value.value.split()
        assert all(isinstance(x, str) for x in keys)
    except Exception:
        raise ExtractError('dimension_codes: definition outside the subset')
    # base_registry = {name: DimensionalitySI(**{name: 1}) for name in dimension_codes}
    b = find_assign(tree, 'base_registry')
    if ''.join(ast.unparse(b).split()) != '{name:DimensionalitySI(**{name:1})fornameindimension_codes}':
        raise ExtractError('base_registry: definition changed')
    cls = find_def(tree, 'DimensionalitySI')
    want = {'__mul__': 'returnself.__class__(*(x+yforx,yinzip(self,other)))',
            '__truediv__': 'returnself.__class__(*(x-yforx,yinzip(self,other)))',
            '__pow__': 'returnself.__class__(*(x*expforxinself))'}
    for nm, body in want.items():
        m = _method(cls, nm)
        if ''.join(ast.unparse(m.body[0]).split()) != body or len(m.body) != 1:
            raise ExtractError('DimensionalitySI.%s changed' % nm)
    return keys


def _radiolytic(src, tree, codes, derived):
    f = _method(find_def(tree, '_Radiolytic'), 'args_dimensionality')
    stmts = _strip_doc(f.body)
    env = {}

    def ev(node):
        if isinstance(node, ast.Name) and node.id in env:
            return env[node.id]
        if isinstance(node, ast.Subscript) and isinstance(node.value, ast.Name) and node.value.id == 'base_registry' \
                and isinstance(node.slice, ast.Constant) and node.slice.value in codes:
            return tuple(1 if c == node.slice.value else 0 for c in codes)
        if isinstance(node, ast.Call) and isinstance(node.func, ast.Name) and node.func.id == 'get_derived_unit' \
                and len(node.args) == 2 and isinstance(node.args[0], ast.Name) and node.args[0].id == 'base_registry' \
                and isinstance(node.args[1], ast.Constant) and not node.keywords:
            key = node.args[1].value
            if key in derived:
                keys7, vec = derived[key]
                if any(x != 0 and k not in codes for k, x in zip(keys7, vec)):
                    raise ExtractError('derived unit %s uses a key outside dimension_codes' % key)
                d = dict(zip(keys7, vec))
                return tuple(d.get(c, 0) for c in codes)
            if key in codes:
                return tuple(1 if c == key else 0 for c in codes)
            raise ExtractError('get_derived_unit(base_registry, %r): unknown key' % key)
        if isinstance(node, ast.BinOp):
            if isinstance(node.op, ast.Pow):
                n = _lin(src, node.right, False)[1]
                return tuple(x * n for x in ev(node.left))
            a, b = ev(node.left), ev(node.right)
            if isinstance(node.op, ast.Mult):
                return tuple(x + y for x, y in zip(a, b))
            if isinstance(node.op, ast.Div):
                return tuple(x - y for x, y in zip(a, b))
        raise ExtractError('Radiolytic.args_dimensionality: expression outside the subset: %s' % seg(src, node))

    for s in stmts[:-1]:
        if not (isinstance(s, ast.Assign) and len(s.targets) == 1 and isinstance(s.targets[0], ast.Name)):
            raise ExtractError('Radiolytic.args_dimensionality: statement outside the subset')
        env[s.targets[0].id] = ev(s.value)
    r = stmts[-1]
    # return (dict(zip(dimension_codes, EXPR)),) * self.nargs
    try:
        assert isinstance(r, ast.Return) and isinstance(r.value, ast.BinOp) and isinstance(r.value.op, ast.Mult)
        assert ast.unparse(r.value.right) == 'self.nargs'
        t = r.value.left
        assert isinstance(t, ast.Tuple) and len(t.elts) == 1
        c = t.elts[0]
        assert c.func.id == 'dict' and c.args[0].func.id == 'zip' and c.args[0].args[0].id == 'dimension_codes'
        expr = c.args[0].args[1]
    except Exception:
        raise ExtractError('Radiolytic.args_dimensionality: return statement outside the subset')
    return [(k, 0, x) for k, x in zip(codes, ev(expr))]


def _imported_from_units(tree):
    names = set()
    for n in tree.body:
        if isinstance(n, ast.ImportFrom) and n.module == 'units' and n.level == 2:
            names.update(a.asname or a.name for a in n.names if (a.asname or a.name) == a.name)
    return names


def _row(r):
    return '[' + ', '.join('(%s, %d, %d)' % (lean_str(k), a, b) for k, a, b in r) + ']'


def generate(repo):
    src, tree = parse(repo, REL)
    usrc, utree = parse(repo, REL_UNITS)
    keys7, _ = _units._registry(usrc, _units._module_else_body(utree))
    consts = {k: (keys7, v) for k, v in _units._dim_constants(usrc, utree, keys7)}
    derived = {k: (keys7, v) for k, v in _units._derived(usrc, utree, keys7)}
    codes = _dimension_codes(repo)
    imported = _imported_from_units(tree)
    tabs = {}
    for nm in ('MassAction', 'Arrhenius', 'Eyring'):
        tabs[nm] = _plain_args(src, find_def(tree, nm), consts, imported)
    rad = _radiolytic(src, tree, codes, derived)
    for rows in list(tabs.values()) + [[rad]]:
        for r in rows:
            for k, _, _ in r:
                if k not in keys7:
                    raise ExtractError('args_dimensionality key %r is not a key of SI_base_registry' % k)

    out = [HEADER % (REL + ', ' + REL_DIM + ', ' + REL_UNITS),
           'namespace ChemModel.Gen.Dims\n',
           '/-! `args_dimensionality`: one dict per argument; an entry `(key, a, b)` is the exponent `a*order + b`\n'
           '    of the registry key, `order = reaction.order()` -/\n']
    for nm, lean in (('MassAction', 'massAction'), ('Arrhenius', 'arrhenius'), ('Eyring', 'eyring')):
        out.append('/-- `%s.args_dimensionality` -/' % nm)
        out.append('def %s : List (List (String × Int × Int)) := [\n%s]\n' % (lean, ',\n'.join('  ' + _row(r) for r in tabs[nm])))
    out.append('/-- `Radiolytic.args_dimensionality`: the dict `dict(zip(dimension_codes, N / E))` of EVERY argument -/')
    out.append('def radiolytic : List (String × Int × Int) := %s\n' % _row(rad))
    out.append('/-- keys of `dimension_codes` (util/_dimensionality.py) -/')
    out.append('def dimensionCodes : List String := %s\n' % lean_str_list(codes))
    out.append('end ChemModel.Gen.Dims\n')
    return {'Dims.lean': '\n'.join(out)}
