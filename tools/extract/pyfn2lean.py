"""pyfn2lean -- translate straight-line numeric Python functions (source text, via `ast`) into
Lean 4 `def`s that are generic over the number class of `ChemModel/Basic/Num.lean`.

It is a LIBRARY used by the per-topic extractors (tools/extract/<topic>.py); `run_all.py` skips it.
chempy is never imported.  Anything outside the accepted subset raises `ExtractError` (the topic
extractor lets it propagate, `run_all` then writes a stub Gen file and every dependent theorem
fails to build -- the obligation is reported open instead of being guessed).

INTERFACE
=========
    from .common import parse
    from . import pyfn2lean as P
    src, tree = parse(repo, 'chempy/kinetics/integrated.py')

    ctext, cenv = P.translate_module_constants(src, tree, names=None, prefix='')
        # ctext : Lean `def`s (one per numeric module-level constant: scalar -> `: α`, tuple/list/np.array
        #         of numbers -> `List α`, nested -> `List (List α)`), generic over α.
        # cenv  : {python name: value} to be passed as `const_env=` (constants are INLINED into function
        #         bodies as exact literals; the defs in ctext are for use in theorems / drivers).
        # names=None: every module-level assignment whose right-hand side is in the numeric subset (others are
        #         skipped silently); names=[...]: exactly these, ExtractError if one is missing/untranslatable.
        # handles `A, B, C = 1.1, 2.2, 3.3`, `X = -1.5e-3`, `Y = 2 * X`, tuples/lists, `np.array([...])`.

    d = P.translate_function(src, tree, 'pseudo_rev', lean_name='pseudoRev', const_env=cenv,
                             params=None, objects=(), units_mode=None, fixed=None,
                             backend_names=('be', 'backend', 'math', 'np', 'numpy'),
                             extra_funcs=None, extra_calls=None, cond_hook=None,
                             split_tuple=False, inline_lets=False, doc=None,
                             extra_skipped=None, allow_decorators=())
        # d is a `LeanDef` (a `str` subclass: the Lean source of the def(s), ready to be concatenated) with
        #   d.name        Lean name of the value function
        #   d.args        [lean argument names in order]  (all of type α)
        #   d.pyargs      [the python expressions they stand for: 'T', 'units.Kelvin', ...]
        #   d.classes     ['Add', ..., 'HasExp'] instance binders emitted (arithmetic bundle + only the
        #                 transcendental classes actually used => `Rat` works when none is used)
        #   d.n_results   1, or k when the function returns a k-tuple (Lean type α × α × ...; with
        #                 split_tuple=True instead k defs `<lean_name>_0 .. _{k-1}`, listed in d.names)
        #   d.warn_name   name of the Boolean `<lean_name>Warns` function or None; d.warn_msgs_name the
        #                 `<lean_name>WarnMsgs : List String` function (messages in source order)
        #   d.warn_classes  binders of these two (adds [LT α] [DecidableLT α] / [LE α] [DecidableLE α])
        #   d.unit_args   [(lean argument, python text)] of the object attributes (`units.Kelvin`, `constants.pi`, `self.Ea`),
        #                 SORTED by Lean argument name (never by order of the source lines) -- bind them BY NAME in drivers and
        #                 theorems:  `waterDensityU T (units_Kelvin := K) (units_meter := m) (units_kilogram := kg)`
        #   d.sig_name / d.sig   the SIGNATURE RECORD `<lean_name>Sig : List (String × String)` (see below)
    text = P.wrap_module([ctext, d, ...], source='chempy/kinetics/integrated.py')   # header + namespace ChemModel.Gen

  params      python parameter names that become Lean arguments, in this order.  Default: the parameters
              WITHOUT a default value.  Every other parameter takes its Python default (number -> literal,
              None -> None and is then resolved by the `if x is None: x = ...` idiom, True/False -> static).
              A parameter called `backend`, or used as `get_backend(<it>)`, is the backend module.
  fixed       {param: python literal} overrides of defaults for non-argument parameters, e.g. {'warn': True,
              'just_return_a': False, 'n': 2}.
  objects     names of parameters that are PASSED attribute-objects (`units`, `constants`): `units is None` is
              then False and each `units.<attr>` becomes an extra Lean argument `units_<attr>` (appended after
              `params`, SORTED by name; see d.unit_args).  Not listed => the parameter is None.
              `units_mode=True` is shorthand for objects=('units',).
  const_env   module constants from translate_module_constants (or {name: number | Fraction | tuple}).
  extra_funcs {python attr/function name: (lean function, class name or None)}, e.g.
              {'log10': ('HasLog10.log10', 'HasLog10')}: accepted as `be.log10(x)` / `math.log10(x)`.
  extra_calls {python function name: lean function}: a call `f(a, b)` of a module-level helper becomes
              `(leanf a b)` (positional arguments only; you translate the helper yourself).
  cond_hook   callable(test_node, source_segment) -> True | False | None deciding an `if` test the
              translator cannot decide statically (None = no opinion => ExtractError).
  inline_lets substitute every local instead of emitting `let` (proofs are sometimes easier on `let`-free bodies).

  emit_call_args  e.g. ('exp',): additionally emit `<lean_name>ExpArgs : List α`, the arguments of every `be.exp` call (same lets).
  extra_skipped  list of strings (e.g. ast.dump of code YOUR extractor discarded before calling: `try:` bodies, inlined helpers);
              hashed into the @skipped entry of the signature record.
  allow_decorators  decorator source texts that are acceptable (default none: a decorated function is an ExtractError).

WHAT THE TRANSLATOR REFUSES ALTHOUGH IT IS VALID PYTHON (edits that used to be invisible)
  * the function name is defined more than once anywhere in the tree, or also bound at module level by an assignment / import
    / `global` (find_unique_def -- use `P.find_unique_def` instead of `common.find_def` in your extractor);
  * a decorator on the function; builtin `any(...)` in a range test (TypeError on scalars; `_any` / `np.any` are accepted);
  * translate_module_constants: a constant that is bound more than once, augmented (`B += 1`), deleted, imported or declared
    `global` is not a constant: left out with names=None (using it => "unknown name"), ExtractError when asked for by name.

SIGNATURE RECORD  (one per translate_function call, emitted after the defs)
    def <lean_name>Sig : List (String × String) :=
      [(param, default source text | "<required>") ... in source order,
       ("@decorators", ..), ("@args", "<lean argument list>"), ("@fixed", ..), ("@objects", ..),
       ("@warn", "<tests guarding the call, as written> => warnings.warn(<all arguments>) ;; ..."),
       ("@backend", "get_backend(backend) ; be = get_backend(backend) ; be.exp ; math.log ; atanh = be.atanh if ... ; ..."),
       ("@skipped", "sha1:<16 hex> (<n>)")]     -- branches not taken, code after a taken return, untaken IfExp arms, extra_skipped
  The value functions are specialisations (warn=True, given arguments, one backend-independent text); everything the
  specialisation cannot see is in this record: a changed default (`warn=False`, `T0`, `backend=math` -> None, `n=1` -> 2), a dropped
  `warn and`, `_any` -> `np.any`, an extra argument of warnings.warn, `be.exp` -> `np.exp`, `be = get_backend("sympy")`, an edit inside a
  branch that is not taken.  USERS: state  `theorem <x>Sig_guard : <x>Sig = [ ... ] := by decide`  in Props/Cxx.lean (suffix `_guard`).
  In the range checks themselves the gate and the reduction stay visible: `PyFn.warnGate && (PyFn.anyS (decide (t < ..)) || ..)`
  (`Basic/PyFn.lean`: reducible identities; `simp only [PyFn.warnGate, PyFn.anyS, Bool.true_and]` removes them).

TYPE-SENSITIVE CONSTRUCTS (audit of what the translator accepts; full list with reasons in /verif/notes/C17.md)
  The Lean text is the meaning for plain Python floats.  REFUSED because the pure/scalar reading can be silently wrong:
    `//`, `%`, `==`/`!=`, walrus, lambda, comprehensions, loops, `try`, runtime `if`/conditional expressions (except pure range-check
    trees and the hasattr alias), truthiness of numbers (`if x:`), builtin `any`, keyword arguments of backend functions, slices;
    a float literal that overflows / underflows in Python (`1e400`, `1e-400`); a default value that refers to a parameter
    (`def f(x, y=x)`; defaults are evaluated at def time -- pass defaults_may_use_params=True for synthetic signatures);
    a local variable read before assignment / assigned only in a branch not taken (UnboundLocalError, not the module constant);
    `math` / `np` / `numpy` / `get_backend` / a bare `exp`, `log`, `sqrt`, `abs` ... that the module binds to something else
    (accepted when unbound: extractors pass one-function modules).
  ACCEPTED WITH A RECORD (comment `-- TYPE-SENSITIVE constructs` in Gen, `d.type_notes`; `d.impure` / `…InPlace` for op=):
    `x ** -n` (integer arrays raise), non-integer `**` (negative float base -> complex in Python), chained comparisons and `and`/`or`
    directly on comparisons in range tests (arrays raise), `x op= e` on parameters / aliases (mutates the caller's array).
  ACCEPTED, meaning differs only outside the float domain and is covered by hypotheses / driver guards: `/` by zero (ZeroDivisionError
    vs 0 in ℝ and Rat, inf in Float), `sqrt`/`log`/`atanh` outside their domain (ValueError / nan vs Mathlib junk values).

ACCEPTED PYTHON SUBSET (everything else => ExtractError with line number)
  statements  docstring; `x = e`; `x = y = e` (chained); `x: float = e`; `x op= e` for + - * / ** (read as `x = x op e`;
              when `x` is a parameter or an alias of another name this is NOT what Python does for array arguments:
              such statements are listed in `<lean_name>InPlace`, in d.impure and hashed into @skipped, so the `…_sig_guard`
              opens -- extractors that desugar `op=` themselves should call `P.impure_augassigns(fnode)` and pass the
              result as extra_skipped); `assert ...` (ignored);
              `a, b = e1, e2`; `a = (e1, e2, ...)` (kept symbolic, items let-bound as a_0..);
              `be = get_backend(backend)`; `atanh = be.atanh if hasattr(be, "atanh") else be.arctanh`;
              `if <static test>: ... else: ...` specialised to the branch taken (tests: `x is None`,
              `x is not None`, a static bool such as a defaulted `just_return_a`, `not`, `and`, `or`);
              `if warn and (<comparisons>): warnings.warn(msg)` and nested `if warn:` / `if c: warn.. else: ..`
              trees whose bodies contain only warnings.warn calls -> the `Warns` / `WarnMsgs` functions
              (evaluated as with warn=True; the value function ignores them);
              `return e` / `return (e1, e2)`.
  expressions names; int literals -> `((n : Nat) : α)`; float literals -> `Num.dec m k` EXACTLY from the source
              text (never via a Python float); `+ - * /`, unary `-`/`+`; `x ** n` with n a non-negative int
              literal -> `Num.npow x n`; negative int literal -> `1 / Num.npow x n`; any other exponent ->
              `HasRPow.rpow x y`; tuple/list literals and indexing with a constant (possibly negative) index;
              `be.exp/log/sqrt/tanh/atanh/arctanh(x)` for be in backend_names or obtained from get_backend;
              `abs(x)`, `be.abs(x)`, `math.fabs(x)` -> `HasAbs.abs x` (class in Basic/PyFn.lean; instances Float, Rat, ℝ);
              `be.cos(0)` -> 1; `be.pi ** 0` -> 1; `_any(c)`, `np.any(c)` inside warn tests -> `PyFn.anyS c`;
              comparisons `< <= > >=` (also chained) inside warn tests -> `decide (a < b)`.
  Every Lean sub-expression is fully parenthesised following the Python AST, so operator precedence and
  associativity are those of Python (`-a * b` is `((-a) * b)`).

PROOF SIDE  `lean/ChemModel/Proofs/NumReal.lean` (shared, import it in your Proofs file): instances HasExp/HasLog/HasSqrt/
            HasTanh/HasAtanh/HasRPow for ℝ and the rewriting lemmas
                NumReal.exp_def log_def sqrt_def tanh_def atanh_def rpow_def      (HasExp.exp x = Real.exp x, ...)
                NumReal.npow_eq_pow (Num.npow x n = x ^ n)   NumReal.dec_eq (Num.dec m k = m / 10 ^ k)
                NumReal.ofInt_eq   NumReal.frac_eq           (valid in every Field)
                NumReal.hasDerivAt_tanh, HasDerivAt.tanh     (Mathlib has no derivative of tanh)
            Typical start of a proof:  `simp only [myFn, NumReal.exp_def, NumReal.npow_eq_pow, NumReal.dec_eq, Nat.cast_ofNat,
            Nat.cast_one]` (the `let`s disappear by zeta-reduction), then `norm_num` / `ring` / `HasDerivAt...congr_deriv`.
            Worked example: Proofs/Integrated.lean, Props/C17.lean; extractor: tools/extract/integrated.py.
DRIVER SIDE `Proto.showFloat` (= `toString : Float → String`) prints only 6 decimals.  Print floats as `toString x.toBits`
            (exact IEEE bit pattern) and decode with `struct.unpack('<d', struct.pack('<Q', int(s)))` in the harness
            (see Driver/C17.lean, tools/harness/c17.py).  `Rat` instantiation: guard divisions by zero in the driver
            (Lean's `x / 0 = 0`, Python raises ZeroDivisionError).

SELF-TEST   cd /verif/tools && python3 -m extract.pyfn2lean --selftest [--real]
            (translates synthetic functions covering the subset and, if present, /repo's integrated.py, and
            compiles + evaluates the result at Float and Rat with `lake env lean`; --real also at ℝ / Mathlib)
"""
import ast, hashlib, os, re, subprocess, sys, tempfile
from fractions import Fraction

try:
    from .common import ExtractError, seg, find_def, num_text_to_fraction, lean_str, HEADER
except ImportError:  # executed as a script
    sys.path.insert(0, os.path.dirname(os.path.dirname(os.path.abspath(__file__))))
    from extract.common import ExtractError, seg, find_def, num_text_to_fraction, lean_str, HEADER

ARITH = ['Add', 'Sub', 'Mul', 'Div', 'Neg', 'NatCast']
FUNCS = {
    'exp': ('HasExp.exp', 'HasExp'),
    'log': ('HasLog.log', 'HasLog'),
    'sqrt': ('HasSqrt.sqrt', 'HasSqrt'),
    'tanh': ('HasTanh.tanh', 'HasTanh'),
    'atanh': ('HasAtanh.atanh', 'HasAtanh'),
    'arctanh': ('HasAtanh.atanh', 'HasAtanh'),
    'abs': ('HasAbs.abs', 'HasAbs'),          # builtin abs(x), be.abs(x), np.abs(x)
    'fabs': ('HasAbs.abs', 'HasAbs'),         # math.fabs(x)
}
CLASS_ORDER = ['HasExp', 'HasLog', 'HasSqrt', 'HasTanh', 'HasAtanh', 'HasRPow', 'HasAbs']
LEAN_KEYWORDS = set('''at from fun in do then else if let have show by end open namespace section def theorem
 lemma example instance class structure inductive where with match universe variable axiom import export
 private protected noncomputable partial unsafe mutual macro syntax notation infix infixl infixr prefix postfix
 deriving extends for return mut try catch finally unless nomatch nofun Type Sort Prop calc using at'''.split())


# ----------------------------------------------------------------------------------------------------
# symbolic values
class Sc:
    """a number: `text` is Lean source that is atomic (identifier) or fully parenthesised"""
    def __init__(self, text):
        self.text = text


class Tup:
    def __init__(self, items):
        self.items = list(items)


class NoneV:
    pass


class BoolV:
    def __init__(self, b, gate=False):
        self.b = bool(b)
        self.gate = gate      # the `warn` parameter: kept visible as `PyFn.warnGate` in the generated range checks


class StrV:
    def __init__(self, s):
        self.s = s


class Backend:
    pass


class Obj:
    """a passed attribute object (units / constants): attributes become Lean arguments"""
    def __init__(self, name):
        self.name = name


class Fn:
    def __init__(self, kind):
        self.kind = kind     # key of FUNCS / extra_funcs, or 'cos', 'any', 'get_backend', 'hasattr', ('call', leanfn)


class PiV:
    pass


class LeanDef(str):
    """Lean source text with metadata (see module docstring)"""
    pass


def lean_ident(name):
    if not re.match(r'^[A-Za-z_][A-Za-z0-9_]*$', name):
        raise ExtractError('cannot use %r as a Lean identifier' % name)
    if name in LEAN_KEYWORDS or name == '_':
        return name + '_'
    return name


def nat_lit(n):
    return '((%d : Nat) : α)' % n


def int_lit(n):
    return nat_lit(n) if n >= 0 else '(-%s)' % nat_lit(-n)


def dec_lit_from_fraction(q):
    """exact literal for a rational with a power-of-ten denominator; otherwise Num.frac"""
    q = Fraction(q)
    if q.denominator == 1:
        return int_lit(q.numerator)
    k, d = 0, q.denominator
    while d % 10 == 0:
        d //= 10
        k += 1
    # denominator 2^a 5^b also has a finite decimal expansion
    k2, m = 0, q
    while m.denominator != 1 and k2 < 400:
        m *= 10
        k2 += 1
    if m.denominator == 1:
        return '(Num.dec (%d) %d)' % (m.numerator, k2)
    return '(Num.frac (%d) %d)' % (q.numerator, q.denominator)


def float_lit(text):
    """`Num.dec m k` for the decimal literal exactly as written in the source (e.g. '2.0525', '3.4279e2', '1e-14')"""
    t = text.strip().replace('_', '')
    if not re.match(r'^(\d+\.?\d*|\.\d+)([eE][+-]?\d+)?$', t):
        raise ExtractError('not a decimal literal: %r' % text)
    q = num_text_to_fraction(t)
    k, m = 0, q
    while m.denominator != 1:
        m *= 10
        k += 1
    return '(Num.dec (%d) %d)' % (m.numerator, k)


def strip_outer(text):
    """remove one pair of outer parentheses when they enclose the whole text"""
    if text.startswith('(') and text.endswith(')'):
        depth = 0
        for i, ch in enumerate(text):
            if ch == '(':
                depth += 1
            elif ch == ')':
                depth -= 1
                if depth == 0 and i != len(text) - 1:
                    return text
        inner = text[1:-1]
        depth = 0
        for i, ch in enumerate(inner):       # `((1 : Nat) : α)` is a type ascription: keep its parentheses
            if ch == '(':
                depth += 1
            elif ch == ')':
                depth -= 1
            elif ch == ':' and depth == 0 and inner[i + 1:i + 2] != '=':
                return text
        return inner
    return text


def const_to_val(v):
    if isinstance(v, (Sc, Tup)):
        return v
    if isinstance(v, bool):
        return BoolV(v)
    if isinstance(v, int):
        return Sc(int_lit(v))
    if isinstance(v, Fraction):
        return Sc(dec_lit_from_fraction(v))
    if isinstance(v, float):
        raise ExtractError('const_env must not contain Python floats (pass Fraction or use translate_module_constants)')
    if isinstance(v, (tuple, list)):
        return Tup([const_to_val(x) for x in v])
    raise ExtractError('unsupported constant %r' % (v,))


# ----------------------------------------------------------------------------------------------------
class _Tr:
    def __init__(self, src, const_env, backend_names, extra_funcs, extra_calls, cond_hook, inline_lets):
        self.src = src
        self.env = {}
        self.const_env = {k: const_to_val(v) for k, v in (const_env or {}).items()}
        self.backend_names = set(backend_names)
        self.funcs = dict(FUNCS)
        self.funcs.update(extra_funcs or {})
        self.extra_calls = dict(extra_calls or {})
        self.cond_hook = cond_hook
        self.inline = inline_lets
        self.lets = []            # [(lean name, text)]
        self.classes = set()
        self.cmp_classes = set()
        self.obj_args = []        # [(lean arg, python text)]
        self.warns = []           # [(n_lets, cond text, message)]
        self.used = set()
        self.skipped = []         # ast.dump of every statement / expression the translation did not visit
        self.warn_src = []        # source-level record of every warnings.warn call with its guard chain
        self.modbind = {}         # module-level bindings {name: [kinds]} and import origins (set by translate_function)
        self.modimports = {}      # {local name: 'module' | 'module.attr'} of module-level imports
        self.local_names = set()  # names assigned somewhere in the function body (Python: local for the WHOLE body)
        self.call_args = {}       # {python function name: [Lean text of each argument, in evaluation order]}  (emit_call_args)
        self.type_notes = []      # constructs whose meaning depends on the argument type (see module docstring)
        self.impure = []          # in-place updates that are not pure re-bindings (impure_augassigns)
        self.backend_src = []     # how the backend is obtained and which of its attributes are used (source text, first use)

    def err(self, node, msg):
        raise ExtractError('line %s: %s: `%s`' % (getattr(node, 'lineno', '?'), msg,
                                                 (seg(self.src, node) or '').replace('\n', ' ')[:120]))

    # ---- expressions ---------------------------------------------------------------------------
    def ev(self, n):
        if isinstance(n, ast.Constant):
            v = n.value
            if v is None:
                return NoneV()
            if isinstance(v, bool):
                return BoolV(v)
            if isinstance(v, int):
                return Sc(int_lit(v))
            if isinstance(v, float):
                txt = seg(self.src, n) or repr(v)
                if v in (float('inf'), float('-inf')) or (v == 0.0 and num_text_to_fraction(txt.replace('_', '')) != 0):
                    self.err(n, 'float literal overflows / underflows in Python (inf or 0.0) but is an exact number in Lean')
                return Sc(float_lit(txt))
            if isinstance(v, str):
                return StrV(v)
            self.err(n, 'unsupported literal')
        if isinstance(n, ast.Name):
            if n.id in self.env:
                return self.env[n.id]
            if n.id in self.local_names:
                # assigned somewhere in this function (perhaps in a branch this specialisation does not take): Python treats it
                # as a local everywhere in the body -> reading it here is an UnboundLocalError, not the module constant
                self.err(n, 'local variable read before assignment (UnboundLocalError in Python)')
            if n.id in self.const_env:
                return self.const_env[n.id]
            if n.id in self.backend_names:
                self.check_origin(n, ('math', 'numpy'), module=True)
                return Backend()
            if n.id == 'get_backend':
                self.check_origin(n, ('_util.get_backend', 'chempy._util.get_backend', '.get_backend'))
                return Fn('get_backend')
            if n.id == 'hasattr':
                return Fn('hasattr')
            if n.id == '_any':
                return Fn('any')
            if n.id == 'any':
                self.err(n, 'builtin any() of a scalar comparison raises TypeError (use _any / numpy.any)')
            if n.id in self.extra_calls:
                return Fn(('call', self.extra_calls[n.id]))
            if n.id in self.funcs:      # `from math import exp` / builtin abs
                if n.id != 'abs' or n.id in self.modbind:
                    self.check_origin(n, ('math.' + n.id, 'numpy.' + n.id), required=(n.id != 'abs'))
                return Fn(n.id)
            self.err(n, 'unknown name')
        if isinstance(n, ast.Attribute):
            base = self.ev(n.value)
            if isinstance(base, Backend):
                self.note_backend(ast.unparse(n))
                if n.attr in self.funcs:
                    return Fn(n.attr)
                if n.attr == 'cos':
                    return Fn('cos')
                if n.attr == 'any':
                    return Fn('any')
                if n.attr == 'pi':
                    return PiV()
                self.err(n, 'backend function outside the subset')
            if isinstance(base, Obj):
                arg = lean_ident('%s_%s' % (base.name, n.attr))
                py = '%s.%s' % (base.name, n.attr)
                if (arg, py) not in self.obj_args:
                    self.obj_args.append((arg, py))
                return Sc(arg)
            self.err(n, 'attribute access outside the subset')
        if isinstance(n, ast.UnaryOp):
            if isinstance(n.op, ast.USub):
                return Sc('(-%s)' % self.num(n.operand))
            if isinstance(n.op, ast.UAdd):
                return Sc(self.num(n.operand))
            if isinstance(n.op, ast.Not):
                v = self.ev(n.operand)
                if isinstance(v, BoolV):
                    return BoolV(not v.b)
            self.err(n, 'unsupported unary operator')
        if isinstance(n, ast.BinOp):
            if isinstance(n.op, ast.Pow):
                return self.power(n)
            ops = {ast.Add: '+', ast.Sub: '-', ast.Mult: '*', ast.Div: '/'}
            for k, s in ops.items():
                if isinstance(n.op, k):
                    return Sc('(%s %s %s)' % (self.num(n.left), s, self.num(n.right)))
            self.err(n, 'unsupported binary operator')
        if isinstance(n, (ast.Tuple, ast.List)):
            return Tup([self.ev(e) for e in n.elts])
        if isinstance(n, ast.Subscript):
            base = self.ev(n.value)
            idx = n.slice
            if isinstance(idx, ast.UnaryOp) and isinstance(idx.op, ast.USub) and isinstance(idx.operand, ast.Constant):
                i = -idx.operand.value
            elif isinstance(idx, ast.Constant):
                i = idx.value
            else:
                self.err(n, 'index is not an integer literal')
            if not isinstance(base, Tup) or not isinstance(i, int) or isinstance(i, bool):
                self.err(n, 'indexing outside the subset')
            try:
                return base.items[i]
            except IndexError:
                self.err(n, 'constant index out of range')
        if isinstance(n, ast.IfExp):
            t = self.static(n.test)
            if t is True:
                self.skip([n.orelse])
                return self.ev(n.body)
            if t is False:
                self.skip([n.body])
                return self.ev(n.orelse)
            # alias idiom: f = be.atanh if hasattr(be, "atanh") else be.arctanh
            if (isinstance(n.test, ast.Call) and isinstance(self.try_ev(n.test.func), Fn)
                    and self.try_ev(n.test.func).kind == 'hasattr'):
                a, b = self.ev(n.body), self.ev(n.orelse)
                if isinstance(a, Fn) and isinstance(b, Fn) and a.kind in self.funcs and b.kind in self.funcs \
                        and self.funcs[a.kind] == self.funcs[b.kind]:
                    return a
            self.err(n, 'conditional expression outside the subset')
        if isinstance(n, ast.Call):
            return self.call(n)
        self.err(n, 'expression outside the subset')

    def check_origin(self, n, allowed, module=False, required=False):
        """a bare name that the translator gives a fixed meaning (math / np / get_backend / exp ...) must not be bound to something
        else at module level.  Unbound is accepted (extractors pass one-function modules without the imports) unless required."""
        kinds = self.modbind.get(n.id)
        if not kinds:
            if required and self.modbind.get('__has_imports__'):
                self.err(n, 'bare function name that is not imported from math / numpy in this module')
            return
        org = self.modimports.get(n.id)
        ok = kinds == ['import'] and org is not None and (
            (module and org in allowed) or (not module and any(org == a or org.endswith(a) for a in allowed)))
        if not ok:
            self.err(n, 'the module binds `%s` to something the translator does not know (%s%s)'
                     % (n.id, ', '.join(kinds), '' if org is None else ': ' + org))

    def note_type(self, text):
        if text not in self.type_notes:
            self.type_notes.append(text)

    def note_backend(self, text):
        if text not in self.backend_src:
            self.backend_src.append(text)

    def skip(self, nodes):
        for x in nodes:
            self.skipped.append(ast.dump(x))

    def try_ev(self, n):
        try:
            return self.ev(n)
        except ExtractError:
            return None

    def num(self, n):
        v = self.ev(n)
        if not isinstance(v, Sc):
            self.err(n, 'a number is required here')
        return v.text

    def power(self, n):
        base_v = self.ev(n.left)
        e = n.right
        if isinstance(base_v, PiV):
            if isinstance(e, ast.Constant) and e.value == 0 and isinstance(e.value, int):
                return Sc(nat_lit(1))
            self.err(n, 'be.pi only allowed as `be.pi ** 0`')
        if not isinstance(base_v, Sc):
            self.err(n, 'a number is required as base')
        b = base_v.text
        if isinstance(e, ast.Constant) and isinstance(e.value, int) and not isinstance(e.value, bool):
            return Sc('(Num.npow %s %d)' % (b, e.value))
        if (isinstance(e, ast.UnaryOp) and isinstance(e.op, ast.USub) and isinstance(e.operand, ast.Constant)
                and isinstance(e.operand.value, int) and not isinstance(e.operand.value, bool)):
            self.note_type('line %s: `%s`: negative integer exponent -- ValueError for integer numpy arrays, ZeroDivisionError for 0'
                           % (getattr(n, 'lineno', '?'), ast.unparse(n)))
            return Sc('(%s / (Num.npow %s %d))' % (nat_lit(1), b, e.operand.value))
        self.note_type('line %s: `%s`: non-integer power -- a negative float base gives a COMPLEX number in Python (nan in Float, a real '
                       'junk value in ℝ): state base ≥ 0 in theorems' % (getattr(n, 'lineno', '?'), ast.unparse(n)))
        self.classes.add('HasRPow')
        return Sc('(HasRPow.rpow %s %s)' % (b, self.num(e)))

    def call(self, n):
        f = self.ev(n.func)
        if not isinstance(f, Fn):
            self.err(n, 'call outside the subset')
        if n.keywords:
            self.err(n, 'keyword arguments are outside the subset')
        if f.kind == 'get_backend':
            self.note_backend(ast.unparse(n))
            return Backend()
        if f.kind == 'cos':
            a = n.args
            if len(a) == 1 and isinstance(a[0], ast.Constant) and a[0].value == 0 and not isinstance(a[0].value, bool):
                return Sc(nat_lit(1))
            self.err(n, 'cos only allowed as cos(0)')
        if isinstance(f.kind, tuple) and f.kind[0] == 'call':
            return Sc('(%s %s)' % (f.kind[1], ' '.join(self.num(a) for a in n.args)))
        if f.kind in self.funcs:
            if len(n.args) != 1:
                self.err(n, 'one argument expected')
            lf, cls = self.funcs[f.kind]
            if cls:
                self.classes.add(cls)
            argtext = self.num(n.args[0])
            self.call_args.setdefault(lf, []).append((len(self.lets), argtext))
            return Sc('(%s %s)' % (lf, argtext))
        self.err(n, 'call outside the subset')

    # ---- conditions ----------------------------------------------------------------------------
    def static(self, n):
        """True / False when the test is decided at translation time, else None"""
        if isinstance(n, ast.Compare) and len(n.ops) == 1 and isinstance(n.ops[0], (ast.Is, ast.IsNot)):
            right = n.comparators[0]
            if isinstance(right, ast.Constant) and right.value is None:
                v = self.try_ev(n.left)
                if v is None:
                    return None
                r = isinstance(v, NoneV)
                return r if isinstance(n.ops[0], ast.Is) else not r
            return None
        if isinstance(n, ast.Constant) and (isinstance(n.value, bool) or n.value is None):
            return bool(n.value)
        if isinstance(n, ast.Name):
            v = self.try_ev(n)
            if isinstance(v, BoolV):
                return v.b
            if isinstance(v, NoneV):
                return False
            return None
        if isinstance(n, ast.UnaryOp) and isinstance(n.op, ast.Not):
            r = self.static(n.operand)
            return None if r is None else not r
        if isinstance(n, ast.BoolOp):
            rs = [self.static(v) for v in n.values]
            if isinstance(n.op, ast.And):
                if any(r is False for r in rs):
                    return False
                return True if all(r is True for r in rs) else None
            if any(r is True for r in rs):
                return True
            return False if all(r is False for r in rs) else None
        return None

    def has_gate(self, n):
        for x in ast.walk(n):
            if isinstance(x, ast.Name):
                v = self.env.get(x.id)
                if isinstance(v, BoolV) and v.gate and v.b:
                    return True
        return False

    def cond(self, n):
        """Lean Bool text of a run-time test made of comparisons (statically decided parts folded)"""
        if isinstance(n, ast.Name):
            v = self.try_ev(n)
            if isinstance(v, BoolV) and v.gate:
                return 'PyFn.warnGate' if v.b else 'false'
        s = self.static(n)
        if s is not None and not self.has_gate(n):
            return 'true' if s else 'false'
        if isinstance(n, ast.BoolOp):
            if any(isinstance(v, ast.Compare) and not isinstance(v.ops[0], (ast.Is, ast.IsNot)) for v in n.values):
                self.note_type('line %s: `%s`: and/or directly on comparisons -- scalar meaning only (ValueError for arrays; '
                               'wrap each comparison in _any)' % (getattr(n, 'lineno', '?'), ast.unparse(n)))
            parts = [self.cond(v) for v in n.values]
            if isinstance(n.op, ast.And):
                if 'false' in parts:
                    return 'false'
                parts = [p for p in parts if p != 'true'] or ['true']
                return parts[0] if len(parts) == 1 else '(' + ' && '.join(parts) + ')'
            if 'true' in parts:
                return 'true'
            parts = [p for p in parts if p != 'false'] or ['false']
            return parts[0] if len(parts) == 1 else '(' + ' || '.join(parts) + ')'
        if isinstance(n, ast.UnaryOp) and isinstance(n.op, ast.Not):
            return '(!%s)' % self.cond(n.operand)
        if isinstance(n, ast.Call):
            f = self.try_ev(n.func)
            if isinstance(f, Fn) and f.kind == 'any' and len(n.args) == 1 and not n.keywords:
                c = self.cond(n.args[0])
                return c if c in ('true', 'false') else '(PyFn.anyS %s)' % c
            self.err(n, 'test outside the subset')
        if isinstance(n, ast.Compare):
            ops = {ast.Lt: ('<', 'LT'), ast.Gt: ('>', 'LT'), ast.LtE: ('≤', 'LE'), ast.GtE: ('≥', 'LE')}
            terms = [n.left] + list(n.comparators)
            if len(n.ops) > 1:
                self.note_type('line %s: `%s`: chained comparison -- scalar meaning only (ValueError for arrays)'
                               % (getattr(n, 'lineno', '?'), ast.unparse(n)))
            parts = []
            for i, op in enumerate(n.ops):
                for k, (s_, cls) in ops.items():
                    if isinstance(op, k):
                        self.cmp_classes.add(cls)
                        parts.append('(decide (%s %s %s))' % (self.num(terms[i]), s_, self.num(terms[i + 1])))
                        break
                else:
                    self.err(n, 'comparison operator outside the subset')
            return parts[0] if len(parts) == 1 else '(' + ' && '.join(parts) + ')'
        self.err(n, 'test outside the subset')

    # ---- statements ----------------------------------------------------------------------------
    def bind(self, name, v, node):
        if isinstance(v, Sc):
            ln = lean_ident(name)
            if self.inline:
                self.env[name] = v
            else:
                self.lets.append((ln, strip_outer(v.text)))
                self.env[name] = Sc(ln)
        elif isinstance(v, Tup):
            items = []
            for i, it in enumerate(v.items):
                if isinstance(it, Sc) and not self.inline and not re.match(r'^[A-Za-z_][A-Za-z0-9_]*$', it.text):
                    ln = lean_ident('%s_%d' % (name, i))
                    self.lets.append((ln, strip_outer(it.text)))
                    items.append(Sc(ln))
                else:
                    items.append(it)
            self.env[name] = Tup(items)
        elif isinstance(v, (Backend, Fn, NoneV, BoolV, Obj)):
            if isinstance(v, (Backend, Fn)) and getattr(node, 'value', None) is not None:
                self.note_backend('%s = %s' % (name, ast.unparse(node.value)))
            self.env[name] = v
        else:
            self.err(node, 'cannot bind this value')

    def is_warn_call(self, st):
        return (isinstance(st, ast.Expr) and isinstance(st.value, ast.Call)
                and isinstance(st.value.func, ast.Attribute) and st.value.func.attr == 'warn'
                and isinstance(st.value.func.value, ast.Name) and st.value.func.value.id == 'warnings')

    def only_warns(self, body):
        for st in body:
            if self.is_warn_call(st) or isinstance(st, ast.Pass):
                continue
            if isinstance(st, ast.If) and self.only_warns(st.body) and self.only_warns(st.orelse):
                continue
            return False
        return True

    def warn_tree(self, body, path, spath=()):
        for st in body:
            if isinstance(st, ast.Pass):
                continue
            if self.is_warn_call(st):
                a = st.value.args
                msg = a[0].value if a and isinstance(a[0], ast.Constant) and isinstance(a[0].value, str) \
                    else (ast.unparse(a[0]) if a else '')
                extra = [ast.unparse(x) for x in a[1:]] + ['%s=%s' % (k.arg, ast.unparse(k.value)) for k in st.value.keywords]
                if extra:                       # category, stacklevel, ...: part of the message record
                    msg = msg + ' [' + ', '.join(extra) + ']'
                c = [p for p in path if p != 'true']
                ctext = 'true' if not c else (c[0] if len(c) == 1 else '(' + ' && '.join(c) + ')')
                self.warn_src.append(' and '.join(spath) + ' => ' + ast.unparse(st.value))
                if 'false' not in path:
                    self.warns.append((len(self.lets), ctext, msg))
            else:
                c = self.cond(st.test)
                stext = '(' + ast.unparse(st.test) + ')'
                self.warn_tree(st.body, path + [c], tuple(spath) + (stext,))
                if st.orelse:
                    nc = 'false' if c == 'true' else 'true' if c == 'false' else '(!%s)' % c
                    self.warn_tree(st.orelse, path + [nc], tuple(spath) + ('not ' + stext,))

    def block(self, body):
        """returns the returned value if a `return` was executed, else None"""
        for i, st in enumerate(body):
            if isinstance(st, ast.Expr) and isinstance(st.value, ast.Constant) and isinstance(st.value.value, str):
                continue
            if isinstance(st, ast.Pass):
                continue
            if isinstance(st, ast.Assert):
                continue       # ignored (a failing assert shows up in the correspondence as AssertionError)
            if isinstance(st, ast.AnnAssign):
                if st.value is None:
                    continue
                if not isinstance(st.target, ast.Name) or not st.simple:
                    self.err(st, 'annotated assignment target outside the subset')
                self.bind(st.target.id, self.ev(st.value), st)
                continue
            if isinstance(st, ast.AugAssign):
                ops = {ast.Add: '+', ast.Sub: '-', ast.Mult: '*', ast.Div: '/'}
                if not isinstance(st.target, ast.Name):
                    self.err(st, 'augmented assignment target outside the subset')
                load = ast.copy_location(ast.Name(id=st.target.id, ctx=ast.Load()), st.target)
                if isinstance(st.op, ast.Pow):
                    v = self.power(ast.copy_location(ast.BinOp(left=load, op=st.op, right=st.value), st))
                elif type(st.op) in ops:
                    v = Sc('(%s %s %s)' % (self.num(load), ops[type(st.op)], self.num(st.value)))
                else:
                    self.err(st, 'augmented assignment operator outside the subset')
                self.bind(st.target.id, v, st)
                continue
            if isinstance(st, ast.Assign) and len(st.targets) > 1:
                # chained assignment `K = m = kg = 1`: the value is evaluated once, targets are bound left to right
                if not all(isinstance(tg, ast.Name) for tg in st.targets):
                    self.err(st, 'chained assignment to non-names')
                v = self.ev(st.value)
                for tg in st.targets:
                    self.bind(tg.id, v, st)
                continue
            if isinstance(st, ast.Assign):
                tg = st.targets[0]
                if isinstance(tg, ast.Name):
                    self.bind(tg.id, self.ev(st.value), st)
                elif isinstance(tg, (ast.Tuple, ast.List)) and all(isinstance(e, ast.Name) for e in tg.elts):
                    v = self.ev(st.value)
                    if not isinstance(v, Tup) or len(v.items) != len(tg.elts):
                        self.err(st, 'tuple unpacking of a non-tuple / wrong length')
                    if self.inline:
                        for e, it in zip(tg.elts, v.items):
                            self.bind(e.id, it, st)
                    else:
                        # python evaluates the whole right-hand side first: go through temporaries when a target
                        # name occurs on the right (a, b = b, a)
                        names = {e.id for e in tg.elts}
                        rhs_names = {x.id for x in ast.walk(st.value) if isinstance(x, ast.Name)}
                        if names & rhs_names:
                            tmp = []
                            for e, it in zip(tg.elts, v.items):
                                if isinstance(it, Sc):
                                    t_ = lean_ident('tmp_%s' % e.id)
                                    self.lets.append((t_, strip_outer(it.text)))
                                    tmp.append(Sc(t_))
                                else:
                                    tmp.append(it)
                            v = Tup(tmp)
                        for e, it in zip(tg.elts, v.items):
                            self.bind(e.id, it, st)
                else:
                    self.err(st, 'assignment target outside the subset')
                continue
            if isinstance(st, ast.If):
                t = self.static(st.test)
                has_warn = any(self.is_warn_call(x) for x in ast.walk(st) if isinstance(x, ast.Expr))
                if has_warn and self.only_warns(st.body) and self.only_warns(st.orelse) and (t is None or self.has_gate(st.test)):
                    self.warn_tree([st], [])
                    continue
                if t is None and self.cond_hook is not None:
                    t = self.cond_hook(st.test, seg(self.src, st.test) or ast.unparse(st.test))
                if t is None:
                    self.err(st.test, 'test is neither static nor a pure range check')
                if t and self.only_warns(st.body) and any(self.is_warn_call(x) or isinstance(x, ast.If) for x in st.body):
                    self.skip(st.orelse)
                    self.warn_tree(st.body, [], ('(' + ast.unparse(st.test) + ')',))
                    continue
                self.skip(st.orelse if t else st.body)       # the branch not taken is hashed into the signature record
                r = self.block(st.body if t else st.orelse)
                if r is not None:
                    self.skip(body[i + 1:])                  # statements after a return that was taken
                    return r
                continue
            if isinstance(st, ast.Return):
                if st.value is None:
                    self.err(st, 'bare return')
                self.skip(body[i + 1:])
                return self.ev(st.value)
            self.err(st, 'statement outside the subset')
        return None


def _binders(classes):
    return ' '.join('[%s α]' % c for c in classes)


def _module_scope(body):
    """statements executed at module level (control flow entered, function / class bodies not)"""
    for st in body:
        yield st
        for fld in ('body', 'orelse', 'finalbody'):
            sub = getattr(st, fld, None)
            if isinstance(sub, list) and not isinstance(st, (ast.FunctionDef, ast.AsyncFunctionDef, ast.ClassDef)):
                yield from _module_scope(sub)
        for h in getattr(st, 'handlers', []) or []:
            yield from _module_scope(h.body)


def _bound_names(st):
    """names (re)bound by one statement: [(name, kind)]"""
    out = []

    def tg(t, kind):
        if isinstance(t, ast.Name):
            out.append((t.id, kind))
        elif isinstance(t, (ast.Tuple, ast.List)):
            for e in t.elts:
                tg(e, kind)
        elif isinstance(t, ast.Starred):
            tg(t.value, kind)
    if isinstance(st, ast.Assign):
        for t in st.targets:
            tg(t, 'assign')
    elif isinstance(st, ast.AugAssign):
        tg(st.target, 'augassign')
    elif isinstance(st, ast.AnnAssign) and st.value is not None:
        tg(st.target, 'assign')
    elif isinstance(st, (ast.For, ast.AsyncFor)):
        tg(st.target, 'for')
    elif isinstance(st, (ast.With, ast.AsyncWith)):
        for it in st.items:
            if it.optional_vars is not None:
                tg(it.optional_vars, 'with')
    elif isinstance(st, (ast.Import, ast.ImportFrom)):
        for a in st.names:
            out.append(((a.asname or a.name).split('.')[0], 'import'))
    elif isinstance(st, (ast.FunctionDef, ast.AsyncFunctionDef, ast.ClassDef)):
        out.append((st.name, 'def'))
    elif isinstance(st, ast.Delete):
        for t in st.targets:
            tg(t, 'del')
    return out


def module_bindings(tree):
    """{name: [kinds]} of every module-level binding, plus `global x` declarations inside functions"""
    b = {}
    for st in _module_scope(tree.body):
        for nm, kind in _bound_names(st):
            b.setdefault(nm, []).append(kind)
    for n in ast.walk(tree):
        if isinstance(n, ast.Global):
            for nm in n.names:
                b.setdefault(nm, []).append('global')
    return b


def find_unique_def(tree, name):
    """the ONE `def`/`class` called `name` anywhere in `tree`.  ExtractError when there is none, when there are
    several (Python uses the last one executed, a reader the first), or when the name is also bound in another way at module
    level (assignment, import, `global`)."""
    found = [n for n in ast.walk(tree) if isinstance(n, (ast.FunctionDef, ast.AsyncFunctionDef, ast.ClassDef)) and n.name == name]
    if not found:
        raise ExtractError('no def %s' % name)
    if len(found) > 1:
        raise ExtractError('%s is defined %d times (lines %s): which one Python uses depends on execution order'
                           % (name, len(found), ', '.join(str(n.lineno) for n in found)))
    kinds = module_bindings(tree).get(name, [])
    if found[0] in tree.body or any(found[0] is st for st in _module_scope(tree.body)):
        other = [k for k in kinds if k != 'def']
        if other:
            raise ExtractError('%s is also bound at module level by: %s' % (name, ', '.join(other)))
    return found[0]


def impure_augassigns(f):
    """Augmented assignments of function `f` that are NOT equivalent to `x = x op e` for every argument type.
    `x op= e` mutates the object bound to `x` in place when that object is mutable (numpy array, list): if the same object is
    reachable under another name -- `x` is a PARAMETER (the caller's array is modified) or `x` was bound by plain aliasing
    (`x = y`, `x = y[i]`, `x = obj.attr`, a conditional expression / tuple element that is such a name) -- the pure reading that the
    translator (and every extractor that desugars `op=` itself) emits is wrong for array arguments.  A name is *fresh* when its
    last binding is the value of an arithmetic expression, a call or a literal.  Returns ['line N: `t -= t0` (t is a parameter)', ...].
    Conservative, flow-insensitive over branches (statements are visited in source order)."""
    params = {a.arg for a in f.args.posonlyargs + f.args.args + f.args.kwonlyargs}
    if f.args.vararg:
        params.add(f.args.vararg.arg)
    if f.args.kwarg:
        params.add(f.args.kwarg.arg)
    fresh, why, out = set(), {p_: 'a parameter' for p_ in params}, []

    def is_fresh(v):
        if isinstance(v, (ast.BinOp, ast.UnaryOp, ast.Call, ast.Constant, ast.Compare, ast.BoolOp, ast.JoinedStr)):
            return True, None
        if isinstance(v, ast.IfExp):
            for br in (v.body, v.orelse):
                ok, w = is_fresh(br)
                if not ok:
                    return False, w
            return True, None
        if isinstance(v, ast.Name):
            if v.id in fresh:
                return False, 'an alias of %s' % v.id       # the two names now share one object
            return False, 'an alias of %s' % v.id
        return False, 'an alias of `%s`' % ast.unparse(v)

    def bind(t, v):
        if isinstance(t, ast.Name):
            ok, w = is_fresh(v) if v is not None else (False, 'bound by a loop / with')
            if ok:
                fresh.add(t.id)
                why.pop(t.id, None)
            else:
                fresh.discard(t.id)
                why[t.id] = w
                if isinstance(v, ast.Name):          # aliasing is symmetric: the source name is shared from now on
                    if v.id in fresh:
                        fresh.discard(v.id)
                        why[v.id] = 'aliased by %s' % t.id
        elif isinstance(t, (ast.Tuple, ast.List)):
            elts = v.elts if isinstance(v, (ast.Tuple, ast.List)) and len(v.elts) == len(t.elts) else [None] * len(t.elts)
            for te, ve in zip(t.elts, elts):
                bind(te, ve)

    def visit(stmts):
        for st in stmts:
            if isinstance(st, ast.Assign):
                for t in st.targets:
                    bind(t, st.value)
                if len(st.targets) > 1:              # x = y = expr : x and y share one object
                    for t in st.targets:
                        if isinstance(t, ast.Name):
                            fresh.discard(t.id)
                            why[t.id] = 'bound together with %s' % ', '.join(x.id for x in st.targets if isinstance(x, ast.Name) and x is not t)
            elif isinstance(st, ast.AnnAssign) and st.value is not None:
                bind(st.target, st.value)
            elif isinstance(st, ast.AugAssign):
                if isinstance(st.target, ast.Name):
                    if st.target.id not in fresh:
                        out.append('line %d: `%s` (%s is %s)' % (st.lineno, ast.unparse(st), st.target.id,
                                                                  why.get(st.target.id, 'not bound to a fresh value')))
                else:
                    out.append('line %d: `%s` (in-place update of a container element / attribute)' % (st.lineno, ast.unparse(st)))
            elif isinstance(st, (ast.For, ast.AsyncFor)):
                bind(st.target, None)
            for fld in ('body', 'orelse', 'finalbody'):
                sub = getattr(st, fld, None)
                if isinstance(sub, list) and not isinstance(st, (ast.FunctionDef, ast.AsyncFunctionDef, ast.ClassDef)):
                    visit(sub)
            for h in getattr(st, 'handlers', []) or []:
                visit(h.body)
    visit(f.body)
    return out


def _sig_record(f, src, tr, largs, fixed, objects, extra_skipped):
    """[(key, text)]: every parameter with the source text of its default ('<required>' if none), then
    @decorators, @args (the Lean argument list), @fixed/@objects (the specialisation), @warn (every warnings.warn call with the
    source text of the tests guarding it), @backend (`be = get_backend(backend)`, `be.exp`, `math.log`, the atanh alias ...: the
    Lean text is the same for every backend spelling, the record is not), @skipped (sha1 over the statements / expressions that this translation did not visit:
    branches not taken, code after a return, plus what the calling extractor reports as discarded)."""
    a = f.args
    rec = []
    pos = a.posonlyargs + a.args
    nd = len(a.defaults)
    for i, x in enumerate(pos):
        j = i - (len(pos) - nd)
        rec.append((x.arg, ast.unparse(a.defaults[j]) if j >= 0 else '<required>'))
    for x, d in zip(a.kwonlyargs, a.kw_defaults):
        rec.append((x.arg, ast.unparse(d) if d is not None else '<required>'))
    rec.append(('@decorators', ', '.join(ast.unparse(d) for d in f.decorator_list)))
    rec.append(('@args', ' '.join(largs)))
    rec.append(('@fixed', ', '.join('%s=%r' % (k, fixed[k]) for k in sorted(fixed))))
    rec.append(('@objects', ', '.join(sorted(objects))))
    rec.append(('@warn', ' ;; '.join(tr.warn_src)))
    rec.append(('@backend', ' ; '.join(tr.backend_src)))
    sk = list(tr.skipped) + [str(x) for x in (extra_skipped or [])] + ['inplace ' + x for x in tr.impure]
    rec.append(('@skipped', ('sha1:' + hashlib.sha1('\n'.join(sk).encode()).hexdigest()[:16] + ' (%d)' % len(sk)) if sk else ''))
    return rec


def translate_function(src, tree, funcname, *, lean_name=None, const_env=None, params=None, objects=(),
                       units_mode=None, fixed=None, backend_names=('be', 'backend', 'math', 'np', 'numpy'),
                       extra_funcs=None, extra_calls=None, cond_hook=None, split_tuple=False,
                       inline_lets=False, doc=None, extra_skipped=None, allow_decorators=(), defaults_may_use_params=False,
                       emit_call_args=()):
    f = find_unique_def(tree, funcname)
    if not isinstance(f, ast.FunctionDef):
        raise ExtractError('%s is not a function' % funcname)
    decos = [ast.unparse(d) for d in f.decorator_list]
    if any(d not in allow_decorators for d in decos):
        raise ExtractError('%s is decorated (%s): the decorated object is not the function body' % (funcname, ', '.join(decos)))
    a = f.args
    if a.vararg or a.kwarg or a.posonlyargs:
        raise ExtractError('%s: *args/**kwargs/positional-only parameters are outside the subset' % funcname)
    lean_name = lean_name or lean_ident(funcname)
    objects = set(objects)
    if units_mode:
        objects.add('units')
    fixed = dict(fixed or {})
    tr = _Tr(src, const_env, backend_names, extra_funcs, extra_calls, cond_hook, inline_lets)
    allp = [x.arg for x in a.args] + [x.arg for x in a.kwonlyargs]
    defaults = {}
    nd = len(a.defaults)
    for x, d in zip(a.args[len(a.args) - nd:], a.defaults):
        defaults[x.arg] = d
    for x, d in zip(a.kwonlyargs, a.kw_defaults):
        if d is not None:
            defaults[x.arg] = d
    if params is None:
        params = [p for p in allp if p not in defaults and p not in objects and p not in fixed]
    for p in list(params) + list(objects) + list(fixed):
        if p not in allp:
            raise ExtractError('%s has no parameter %s' % (funcname, p))
    used_names = {x.id for x in ast.walk(f) if isinstance(x, ast.Name)}
    tr.modbind = dict(module_bindings(tree))
    tr.modbind.pop(funcname, None)
    for st in _module_scope(tree.body):
        if isinstance(st, ast.Import):
            for al in st.names:
                tr.modimports[(al.asname or al.name).split('.')[0]] = al.name
        elif isinstance(st, ast.ImportFrom):
            for al in st.names:
                tr.modimports[al.asname or al.name] = '%s%s.%s' % ('.' * st.level, st.module or '', al.name)
    if tr.modimports:
        tr.modbind['__has_imports__'] = ['yes']
    # evaluate the defaults FIRST, in an environment without the parameters (Python evaluates them once, at `def` time, in the
    # module namespace: `def f(x, y=x)` does not mean "y defaults to the argument x")
    default_vals = {}
    largs, pyargs = [], []
    for p in params:
        largs.append(lean_ident(p))
        pyargs.append(p)
        tr.env[p] = Sc(lean_ident(p))
    pre = []
    for p in allp:
        if p in params:
            continue
        if p in objects:
            tr.env[p] = Obj(p)
        elif p in fixed:
            tr.env[p] = const_to_val(fixed[p]) if fixed[p] is not None else NoneV()
        elif p == 'warn':
            tr.env[p] = BoolV(True, gate=True)      # `…Warns` describes warn=True; the default is in the signature record
        elif p not in defaults:
            raise ExtractError('%s: parameter %s has no default and is not an argument' % (funcname, p))
        elif p in tr.backend_names and isinstance(defaults[p], ast.Constant) and defaults[p].value is None:
            tr.env[p] = NoneV()    # `get_backend(backend)` ignores its argument; `backend.f` is resolved by name
        else:
            if defaults_may_use_params:
                v = tr.ev(defaults[p])
            else:
                saved, tr.env = tr.env, {}
                try:
                    v = tr.ev(defaults[p])
                finally:
                    tr.env = saved
            if isinstance(v, Sc) and p in used_names:
                tr.bind(p, v, defaults[p])
            elif not isinstance(v, Sc):
                tr.env[p] = v
    # a `backend`-like parameter that is None still names the backend when used as `backend.log`
    for p in allp:
        if p in tr.backend_names and isinstance(tr.env.get(p), NoneV):
            del tr.env[p]
    all_params = set(allp)
    tr.local_names = {nm for st in ast.walk(f) for nm, _ in (_bound_names(st) if isinstance(st, ast.stmt) and st is not f else [])
                      if nm not in all_params}
    tr.local_names -= set(tr.env)          # defaulted parameters bound above
    _orig_bind = tr.bind

    def _bind(name, v, node):
        tr.local_names.discard(name)
        return _orig_bind(name, v, node)
    tr.bind = _bind
    ret = tr.block(f.body)
    if ret is None:
        raise ExtractError('%s: no return statement reached' % funcname)
    unit_args = sorted(tr.obj_args)          # deterministic: by Lean argument name, NOT by first use in the source
    largs += [x for x, _ in unit_args]
    pyargs += [y for _, y in unit_args]
    classes = ARITH + [c for c in CLASS_ORDER if c in tr.classes] + sorted(c for c in tr.classes if c not in CLASS_ORDER)
    argtxt = (' (%s : α)' % ' '.join(largs)) if largs else ''
    head = '{α : Type} %s%s' % (_binders(classes), argtxt)

    def body(lets, result):
        return ''.join('  let %s := %s\n' % l for l in lets) + '  ' + result + '\n'

    docs = doc or ('`%s` of the source, translated by pyfn2lean (arguments: %s)' % (funcname, ', '.join(pyargs)))
    out, names = [], []
    if isinstance(ret, Tup):
        comps = []
        for it in ret.items:
            if not isinstance(it, Sc):
                raise ExtractError('%s: returned tuple must consist of numbers' % funcname)
            comps.append(strip_outer(it.text))
        nres = len(comps)
        if split_tuple:
            for i, ctext in enumerate(comps):
                nm = '%s_%d' % (lean_name, i)
                names.append(nm)
                out.append('/-- component %d of %s -/\ndef %s %s : α :=\n%s' % (i, docs, nm, head, body(tr.lets, ctext)))
        else:
            names.append(lean_name)
            out.append('/-- %s -/\ndef %s %s : %s :=\n%s' % (docs, lean_name, head, ' × '.join(['α'] * nres),
                                                            body(tr.lets, '(' + ', '.join(comps) + ')')))
    elif isinstance(ret, Sc):
        nres = 1
        names.append(lean_name)
        out.append('/-- %s -/\ndef %s %s : α :=\n%s' % (docs, lean_name, head, body(tr.lets, strip_outer(ret.text))))
    else:
        raise ExtractError('%s: returned value is not a number or tuple of numbers' % funcname)
    warn_name = msgs_name = None
    wclasses = []
    if tr.warns:
        warn_name, msgs_name = lean_name + 'Warns', lean_name + 'WarnMsgs'
        nl = max(w[0] for w in tr.warns)
        wtext = ' '.join(t_ for _, t_ in tr.lets[:nl]) + ' ' + ' '.join(w[1] for w in tr.warns)
        fn2cls = {lf: cls for lf, cls in tr.funcs.values() if cls}
        fn2cls['HasRPow.rpow'] = 'HasRPow'
        wneeded = {cls for lf, cls in fn2cls.items() if (lf + ' ') in wtext}
        wclasses = ARITH + [c for c in classes if c in wneeded]   # only what the range checks themselves use
        if 'LT' in tr.cmp_classes:
            wclasses += ['LT', 'DecidableLT']
        if 'LE' in tr.cmp_classes:
            wclasses += ['LE', 'DecidableLE']
        whead = '{α : Type} %s%s' % (_binders(wclasses), argtxt)
        conds = [w[1] for w in tr.warns]
        out.append('/-- true iff `%s(..., warn=True)` calls warnings.warn at least once -/\ndef %s %s : Bool :=\n%s'
                   % (funcname, warn_name, whead, body(tr.lets[:nl], ' || '.join(conds))))
        out.append('/-- the messages `%s(..., warn=True)` passes to warnings.warn, in order -/\ndef %s %s : List String :=\n%s'
                   % (funcname, msgs_name, whead,
                      body(tr.lets[:nl], ' ++ '.join('(if %s then [%s] else [])' % (c, lean_str(m)) for _, c, m in tr.warns))))
    for pyfn in emit_call_args:
        # `<lean_name>ExpArgs : List α` = every argument the function passes to be.exp (same let-chain), so that theorems can say
        # e.g. "no exponential grows on the documented domain" (float overflow is invisible to the value theorems)
        lf = tr.funcs[pyfn][0]
        items = tr.call_args.get(lf, [])
        an = '%s%sArgs' % (lean_name, pyfn[:1].upper() + pyfn[1:])
        acls = ARITH + [c for c in classes if c not in ARITH]
        out.append('/-- the arguments of every `%s` call of `%s`, in evaluation order -/\ndef %s %s : List α :=\n%s'
                   % (pyfn, funcname, an, head, body(tr.lets[:max([k for k, _ in items] + [0])],
                                                      '[' + ', '.join(strip_outer(t_) for _, t_ in items) + ']')))
    if tr.type_notes:
        out.append('-- TYPE-SENSITIVE constructs of `%s` (the Lean text has the SCALAR FLOAT meaning; see pyfn2lean "TYPE-SENSITIVE"):\n%s\n'
                   % (funcname, '\n'.join('--   ' + x.replace('\n', ' ') for x in tr.type_notes)))
    tr.impure = impure_augassigns(f)
    if tr.impure:
        # the pure text above is NOT what the Python does for array arguments: say so in Gen (and in @skipped, which opens the guard)
        out.append('/-- IN-PLACE updates of `%s` that the translation above reads as pure re-bindings (`x = x op e`): they modify a\n'
                   'caller\'s array / an aliased temporary when the arguments are numpy arrays.  Their presence changes `@skipped`. -/\n'
                   'def %sInPlace : List String := [%s]\n' % (funcname, lean_name, ', '.join(lean_str(x) for x in tr.impure)))
    sig = _sig_record(f, src, tr, largs, fixed, objects, extra_skipped)
    sig_name = lean_name + 'Sig'
    out.append('/-- signature record of `%s` as specialised for `%s`: (parameter, default) pairs in source order, then\n'
               '@decorators, @args, @fixed, @objects, @warn (guard chain => call of every warnings.warn), @backend (how the backend\n'
               'module is obtained and which of its attributes are called, as written), @skipped (hash of the code\n'
               'this specialisation did not visit).  Pin it with a `…_guard` theorem: a changed default, gate or dead branch opens it. -/\n'
               'def %s : List (String × String) :=\n  [%s]\n'
               % (funcname, lean_name, sig_name, ',\n   '.join('(%s, %s)' % (lean_str(k), lean_str(v)) for k, v in sig)))
    d = LeanDef('\n'.join(out))
    d.sig_name, d.sig, d.unit_args, d.impure, d.type_notes = sig_name, sig, unit_args, tr.impure, list(tr.type_notes)
    d.name, d.names, d.args, d.pyargs, d.classes = lean_name, names, largs, pyargs, classes
    d.n_results, d.warn_name, d.warn_msgs_name, d.warn_classes, d.pyname = nres, warn_name, msgs_name, wclasses, funcname
    return d


# ----------------------------------------------------------------------------------------------------
def translate_module_constants(src, tree, names=None, prefix=''):
    tr = _Tr(src, {}, ('np', 'numpy'), None, None, None, True)
    found = {}

    def try_bind(name, node):
        try:
            if (isinstance(node, ast.Call) and isinstance(node.func, ast.Attribute) and node.func.attr == 'array'
                    and isinstance(node.func.value, ast.Name) and node.func.value.id in ('np', 'numpy') and len(node.args) == 1):
                node = node.args[0]
            v = tr.ev(node)
        except ExtractError:
            return
        if isinstance(v, (Sc, Tup)) and _numeric(v):
            tr.env[name] = v
            found[name] = v

    bindings = module_bindings(tree)
    rebound = {nm for nm, kinds in bindings.items() if len(kinds) > 1 or kinds[0] != 'assign'}
    for st in tree.body:
        if isinstance(st, ast.AnnAssign) and st.value is not None and isinstance(st.target, ast.Name):
            if st.target.id not in rebound:
                try_bind(st.target.id, st.value)
        if isinstance(st, ast.Assign):
            for tg in st.targets:           # also `X = Y = 1.5`
                if isinstance(tg, ast.Name):
                    if tg.id not in rebound:
                        try_bind(tg.id, st.value)
                elif isinstance(tg, ast.Tuple) and isinstance(st.value, (ast.Tuple, ast.List)) and len(tg.elts) == len(st.value.elts):
                    for e, vnode in zip(tg.elts, st.value.elts):
                        if isinstance(e, ast.Name) and e.id not in rebound:
                            try_bind(e.id, vnode)
    # a constant that is assigned more than once / augmented / deleted / declared global somewhere is NOT a constant:
    # it is left out (a function using it then fails with "unknown name"); asked for by name => error
    if names is not None:
        bad = [n for n in names if n in rebound]
        if bad:
            raise ExtractError('module constants bound more than once or modified (%s)'
                               % '; '.join('%s: %s' % (n, ', '.join(bindings[n])) for n in bad))
        missing = [n for n in names if n not in found]
        if missing:
            raise ExtractError('module constants missing or outside the numeric subset: %s' % ', '.join(missing))
        found = {n: found[n] for n in names}
    out = []
    hd = '{α : Type} %s' % _binders(ARITH)
    for name, v in found.items():
        ln = lean_ident(prefix + name)
        depth = _depth(v)
        if depth == 0:
            out.append('/-- module constant `%s` -/\ndef %s %s : α := %s\n' % (name, ln, hd, strip_outer(v.text)))
        elif depth in (1, 2) and _rect(v):
            ty = 'List α' if depth == 1 else 'List (List α)'
            out.append('/-- module constant `%s` -/\ndef %s %s : %s := %s\n' % (name, ln, hd, ty, _list_text(v)))
        # deeper / ragged nestings are available through const_env only
    t = LeanDef('\n'.join(out))
    t.names = list(found)
    return t, found


def _numeric(v):
    return isinstance(v, Sc) or (isinstance(v, Tup) and all(_numeric(x) for x in v.items))


def _depth(v):
    return 0 if isinstance(v, Sc) else 1 + max([_depth(x) for x in v.items] or [0])


def _rect(v):
    if isinstance(v, Sc):
        return True
    ds = {_depth(x) for x in v.items}
    return len(ds) <= 1 and all(_rect(x) for x in v.items)


def _list_text(v):
    return strip_outer(v.text) if isinstance(v, Sc) else '[' + ', '.join(_list_text(x) for x in v.items) + ']'


def wrap_module(parts, source, namespace='ChemModel.Gen', imports=('ChemModel.Basic.Num',), opens=('ChemModel',)):
    if 'ChemModel.Basic.PyFn' not in imports:
        imports = tuple(imports) + ('ChemModel.Basic.PyFn',)      # PyFn.warnGate / PyFn.anyS / HasAbs
    out = [HEADER % source]
    out += ['import %s' % i for i in imports]
    out.append('set_option linter.unusedVariables false')
    out.append('namespace %s' % namespace)
    if opens:
        out.append('open %s' % ' '.join(opens))
    out.append('')
    out += [str(p) for p in parts]
    out.append('end %s\n' % namespace)
    return '\n'.join(out)


# ----------------------------------------------------------------------------------------------------
SELFTEST_SRC = '''
import warnings
A, B, C = 1.1709, 0.001827, 89.93
eta20_cP = 1.0020
gamma = 2.063
TAB = (1.5, -2e-3, 3)
GRID = [[1, 2.5], [3, 4e1]]
name = "not a number"

def visc(T=None, eta20=None, units=None, warn=True):
    """docstring"""
    if units is None:
        cP = 1
        K = 1
    else:
        cP = units.centipoise
        K = units.kelvin
    if T is None:
        T = 298.15 * K
    if eta20 is None:
        eta20 = eta20_cP * cP
    t = T - 273.15 * K
    if warn and (_any(t < 0 * K) or _any(t > 100 * K)):
        warnings.warn("Temperature is outside range (0-100 degC)")
    return eta20 * 10 ** ((A * (20 * K - t) - B / K * (t - 20 * K) ** 2) / (t + C * K))

def dens(T=None, T0=None, units=None, a=None, just_return_a=False, warn=True):
    if units is None:
        K = 1
        m = 1
        kg = 1
    else:
        K = units.Kelvin
        m = units.meter
        kg = units.kilogram
    if T is None:
        T = 298.15 * K
    m3 = m ** 3
    if a is None:
        a = (-3.983035 * K, 301.797 * K, 522528.9 * K * K, 69.34881 * K, 999.974950 * kg / m3)
    if just_return_a:
        return a
    if T0 is None:
        T0 = 273.15 * K
    t = T - T0
    if warn:
        if _any(t < 0 * K) or _any(t > 40 * K):
            warnings.warn("outside")
        else:
            if t >= 39 * K:
                warnings.warn("close")
    return a[4] * (1 - ((t + a[0]) ** 2 * (t + a[1])) / (a[2] * (t + a[-2])))

def cstr(t, k, r, fv, n=1, backend=None):
    be = get_backend(backend)
    atanh = be.atanh if hasattr(be, "atanh") else be.arctanh
    three = 3 * be.cos(0)
    one = be.pi ** 0
    x, y = r, k
    x, y = y, x
    u = atanh(fv ** (three / 2) / (one + x * y)) + TAB[1] * k ** -2 + fv ** 0.5 + (r / k) ** gamma
    return (be.tanh(u) * n, -be.exp(-t * k) + be.log(k) / be.sqrt(r), math.exp(t))

def poly(x, y=2):
    return (x ** 3 - y * x + TAB[2]) / (x + 1) + GRID[1][1]

def harmless(x, units=None, warn=True):
    if units is None:
        K = m = kg = 1
    else:
        m = units.meter
        K = units.Kelvin
        kg = units.kilogram
    assert x is not None
    t: float = x * K - 3 * K
    t += 1 * K
    t *= 2
    if warn and _any(abs(t) > 10 * K):
        warnings.warn("far", UserWarning, stacklevel=2)
    return abs(t) * kg / m
'''

SELFTEST_BAD = [
    'def f(x):\n    for i in range(3):\n        x = x + i\n    return x\n',
    'def f(x):\n    return x if x > 0 else -x\n',
    'def f(x, be=None):\n    return be.sin(x)\n',
    'def f(x):\n    y = x // 2\n    return y\n',
    'def f(x, *a):\n    return x\n',
    'def f(x):\n    if x > 1:\n        x = 2 * x\n    return x\n',
    'def f(x):\n    return g(x)\n',
    'def f(x):\n    return 1e400j * x\n',
    'def f(x):\n    return x\ndef f(x):\n    return 2 * x\n',                       # defined twice
    'import functools\n@functools.lru_cache\ndef f(x):\n    return x\n',          # decorated
    'def f(x):\n    return x\nf = abs\n',                                        # rebound at module level
    'def f(x, warn=True):\n    if warn and any(x < 0):\n        warnings.warn("m")\n    return x\n',   # builtin any
    'B = 2.0\nB += 1\ndef f(x):\n    return B * x\n',                            # modified module constant
    'B = 2.0\nB = 3.0\ndef f(x):\n    return B * x\n',                           # module constant assigned twice
    'def f(x, y=x):\n    return x * y\n',                                         # default refers to a parameter
    'def f(x):\n    return 1e400 * x\n',                                          # literal overflows to inf in Python
    'def f(x):\n    return 1e-400 + x\n',                                         # literal underflows to 0.0 in Python
    'B = 2.0\ndef f(x, units=None):\n    if units is not None:\n        B = 3.0\n    return B * x\n',   # UnboundLocalError
    'def exp(x):\n    return x\ndef f(x):\n    return exp(x)\n',                  # module-level exp is not math.exp
    'import cupy as np\ndef f(x):\n    return np.exp(x)\n',                       # np is not numpy
    'def get_backend(b):\n    return b\ndef f(x, backend=None):\n    be = get_backend(backend)\n    return be.exp(x)\n',
    'def f(x):\n    return (y := x) * y\n',                                       # walrus
    'def f(x):\n    return x // 2 + x % 3\n',
]


def selftest(real=False, repo='/repo'):
    tree = ast.parse(SELFTEST_SRC)
    ctext, cenv = translate_module_constants(SELFTEST_SRC, tree)
    assert set(cenv) == {'A', 'B', 'C', 'eta20_cP', 'gamma', 'TAB', 'GRID'}, sorted(cenv)
    parts = [ctext]
    d_visc = translate_function(SELFTEST_SRC, tree, 'visc', const_env=cenv, params=['T'])
    d_viscu = translate_function(SELFTEST_SRC, tree, 'visc', lean_name='viscU', const_env=cenv, params=['T', 'eta20'], units_mode=True)
    d_dens = translate_function(SELFTEST_SRC, tree, 'dens', const_env=cenv, params=['T'])
    d_cstr = translate_function(SELFTEST_SRC, tree, 'cstr', const_env=cenv)
    d_cstr2 = translate_function(SELFTEST_SRC, tree, 'cstr', lean_name='cstrI', const_env=cenv, inline_lets=True, split_tuple=True, fixed={'n': 2})
    d_poly = translate_function(SELFTEST_SRC, tree, 'poly', const_env=cenv)
    d_h = translate_function(SELFTEST_SRC, tree, 'harmless', const_env=cenv)
    d_hu = translate_function(SELFTEST_SRC, tree, 'harmless', lean_name='harmlessU', const_env=cenv, units_mode=True)
    # unit arguments are sorted by name, not by the order of the source lines; the signature record sees defaults,
    # the warn gate, the reduction, extra arguments of warnings.warn and the branch not taken
    assert d_hu.args == ['x', 'units_Kelvin', 'units_kilogram', 'units_meter'], d_hu.args
    assert [a for a, _ in d_hu.unit_args] == d_hu.args[1:] and d_hu.unit_args[0][1] == 'units.Kelvin'
    sig = dict(d_h.sig)
    assert sig['warn'] == 'True' and sig['units'] == 'None' and sig['x'] == '<required>', sig
    assert "(warn and _any(abs(t) > 10 * K)) => warnings.warn('far', UserWarning, stacklevel=2)" == sig['@warn'], sig['@warn']
    assert sig['@skipped'].startswith('sha1:') and dict(d_hu.sig)['@skipped'] != sig['@skipped']
    assert 'PyFn.warnGate && (PyFn.anyS' in d_h and '"far [UserWarning, stacklevel=2]"' in d_h, d_h
    assert d_h.impure == [] and 'InPlace' not in d_h, d_h.impure          # t is fresh (`t: float = x * K - 3 * K`)
    isrc2 = 'def g(t, t0, k):\n    t -= t0\n    x3 = -k * t\n    x4 = x3\n    x4 -= k\n    y = t * 2\n    y *= 3\n    return x4 + y\n'
    d_g = translate_function(isrc2, ast.parse(isrc2), 'g')
    assert len(d_g.impure) == 2 and 't is a parameter' in d_g.impure[0] and 'x4 is an alias of x3' in d_g.impure[1], d_g.impure
    assert 'gInPlace' in d_g and dict(d_g.sig)['@skipped'].startswith('sha1:')
    for old, new in (('warn=True', 'warn=False'), ('if warn and _any(abs', 'if _any(abs'), ('_any(abs(t)', 'np.any(abs(t)'),
                     ('"far", UserWarning', '"far", DeprecationWarning'), ('K = units.Kelvin', 'K = units.kelvin')):
        src2 = SELFTEST_SRC.replace(old, new)
        assert src2 != SELFTEST_SRC
        d2 = translate_function(src2, ast.parse(src2), 'harmless', const_env=cenv)
        assert d2.sig != d_h.sig, (old, new)
    assert d_viscu.args == ['T', 'eta20', 'units_centipoise', 'units_kelvin'], d_viscu.args
    assert d_visc.warn_name == 'viscWarns' and d_poly.warn_name is None
    assert 'HasRPow' in d_visc.classes and d_poly.classes == ARITH, (d_visc.classes, d_poly.classes)
    assert d_cstr.n_results == 3 and d_cstr2.names == ['cstrI_0', 'cstrI_1', 'cstrI_2']
    assert '(Num.dec (11709) 4)' in d_visc and '(Num.dec (27315) 2)' in d_visc
    parts += [d_visc, d_viscu, d_dens, d_cstr, d_cstr2, d_poly, d_h, d_hu]
    for bad in SELFTEST_BAD:
        try:
            btree = ast.parse(bad)
            translate_function(bad, btree, 'f', const_env=translate_module_constants(bad, btree)[1])
        except ExtractError:
            continue
        raise AssertionError('accepted a function outside the subset:\n' + bad)
    have_repo = os.path.exists(os.path.join(repo, 'chempy/kinetics/integrated.py'))
    if have_repo:
        isrc = open(os.path.join(repo, 'chempy/kinetics/integrated.py')).read()
        itree = ast.parse(isrc)
        for fn in ('dimerization_irrev', 'pseudo_irrev', 'pseudo_rev', 'binary_irrev', 'binary_rev', 'unary_irrev_cstr', 'binary_irrev_cstr'):
            parts.append(translate_function(isrc, itree, fn, lean_name='i_' + fn))
    text = wrap_module(parts, 'pyfn2lean selftest', namespace='SelfTest')
    import math
    T = 300.0
    t = T - 273.15
    want_visc = 1.0020 * 10 ** ((1.1709 * (20 - t) - 0.001827 * (t - 20) ** 2) / (t + 89.93))
    x = Fraction(7, 3)
    want_poly = (x ** 3 - 2 * x + 3) / (x + 1) + 40
    tt, k, r, fv = 0.5, 2.0, 3.0, 0.25
    xx, yy = k, r
    u = math.atanh(fv ** 1.5 / (1 + xx * yy)) + (-2e-3) * k ** -2 + fv ** 0.5 + (r / k) ** 2.063
    want_cstr = (math.tanh(u) * 1, -math.exp(-tt * k) + math.log(k) / math.sqrt(r), math.exp(tt))
    text += '''
open SelfTest ChemModel
#eval (visc (300.0 : Float)).toBits
#eval (viscU (300.0 : Float) 1.002 1.0 1.0).toBits
#eval (viscWarns (300.0 : Float), viscWarns (263.0 : Float), viscWarns (400.0 : Float), viscWarns (300 : Rat))
#eval (densWarnMsgs (300.0 : Float), densWarnMsgs (312.5 : Float), densWarnMsgs (270 : Rat))
#eval (poly ((7 : Rat) / 3))
#eval (dens (300 : Rat))
#eval (let r := cstr (0.5 : Float) 2.0 3.0 0.25; [r.1.toBits, r.2.1.toBits, r.2.2.toBits])
#eval [(cstrI_0 (0.5 : Float) 2.0 3.0 0.25).toBits, (cstrI_2 (0.5 : Float) 2.0 3.0 0.25).toBits]
#eval (TAB : List Rat)
#eval (GRID : List (List Float))
#eval (harmless (10 : Rat), harmlessU (10 : Rat) 2 3 5, harmlessWarns (10 : Rat), harmlessWarns (5 : Rat), harmlessWarnMsgs (-9 : Rat))
#eval harmlessSig.length
'''
    if have_repo:
        text += '#eval (i_dimerization_irrev (1 : Rat) 2 3)\n#eval (i_binary_irrev_cstr (0.5 : Float) 2.0 0.1 0.2 3.0 0.3 0.25)\n'
    d = tempfile.mkdtemp(prefix='pyfn2lean_')
    p = os.path.join(d, 'SelfTest.lean')
    open(p, 'w').write(text)
    lean_dir = os.path.join(os.path.dirname(os.path.dirname(os.path.dirname(os.path.abspath(__file__)))), 'lean')
    r_ = subprocess.run(['lake', 'env', 'lean', p], cwd=lean_dir, stdout=subprocess.PIPE, stderr=subprocess.STDOUT, text=True)
    out = [l for l in r_.stdout.splitlines() if 'conda.cli.condarc' not in l]
    if r_.returncode != 0 or any('error' in l for l in out):
        print('\n'.join(out))
        raise AssertionError('generated Lean does not compile: ' + p)
    vals = [l for l in out if l.strip()]

    def close(a, b):
        return abs(a - b) <= 1e-9 * max(abs(a), abs(b))
    import struct

    def bits(x):
        return struct.unpack('<d', struct.pack('<Q', int(x)))[0]
    assert close(bits(vals[0]), want_visc), (vals[0], want_visc)
    assert close(bits(vals[1]), want_visc), (vals[1], want_visc)
    assert vals[2] == '(false, true, true, false)', vals[2]
    assert vals[3] == '([], ["close"], ["outside"])', vals[3]
    assert vals[4] == '(%d : Rat)/%d' % (want_poly.numerator, want_poly.denominator), (vals[4], want_poly)
    tq = Fraction(300) - Fraction('273.15')
    a = [Fraction('-3.983035'), Fraction('301.797'), Fraction('522528.9'), Fraction('69.34881'), Fraction('999.974950')]
    wd = a[4] * (1 - ((tq + a[0]) ** 2 * (tq + a[1])) / (a[2] * (tq + a[3])))
    assert vals[5] == '(%d : Rat)/%d' % (wd.numerator, wd.denominator), (vals[5], wd)
    got = [bits(x) for x in vals[6].strip('[]').split(',')]
    assert all(close(g, w) for g, w in zip(got, want_cstr)), (got, want_cstr)
    got2 = [bits(x) for x in vals[7].strip('[]').split(',')]
    assert close(got2[0], 2 * want_cstr[0]) and close(got2[1], want_cstr[2]), (got2, want_cstr)
    assert vals[8].replace(' ', '') == '[(3:Rat)/2,(-1:Rat)/500,3]', vals[8]
    assert vals[10] == '(16, (96 : Rat)/5, true, false, ["far [UserWarning, stacklevel=2]"])', vals[10]
    assert vals[11] == '10', vals[11]
    print('selftest: %d defs compiled, Float/Rat evaluations agree with Python (%s)' % (len(parts) - 1, p))
    if real:
        subprocess.run(['lake', 'build', 'ChemModel.Proofs.NumReal'], cwd=lean_dir, stdout=subprocess.PIPE, stderr=subprocess.STDOUT)
        rt = text.split('open SelfTest ChemModel')[0]
        rt = rt.replace('import ChemModel.Basic.Num', 'import ChemModel.Proofs.NumReal')
        rt += '''
open SelfTest ChemModel
noncomputable example (T : ℝ) : ℝ := visc T
noncomputable example (t k r fv : ℝ) : ℝ × ℝ × ℝ := cstr t k r fv
example (x : ℝ) : poly x = (x ^ 3 - 2 * x + 3) / (x + 1) + 40 := by
  simp only [poly, NumReal.npow_eq_pow, NumReal.dec_eq]; norm_num
example (T : ℝ) : visc T = 1.002 * (10 : ℝ) ^ ((1.1709 * (20 - (T - 273.15)) - 0.001827 * ((T - 273.15) - 20) ^ 2) / ((T - 273.15) + 89.93)) := by
  simp only [visc, NumReal.npow_eq_pow, NumReal.dec_eq, NumReal.rpow_def]; norm_num
'''
        p2 = os.path.join(d, 'SelfTestReal.lean')
        open(p2, 'w').write(rt)
        r_ = subprocess.run(['lake', 'env', 'lean', p2], cwd=lean_dir, stdout=subprocess.PIPE, stderr=subprocess.STDOUT, text=True)
        out = [l for l in r_.stdout.splitlines() if 'conda.cli.condarc' not in l and l.strip()]
        if r_.returncode != 0 or any('error' in l for l in out):
            print('\n'.join(out))
            raise AssertionError('instantiation at ℝ failed: ' + p2)
        print('selftest: instantiates at ℝ (Mathlib)')
    return 0


if __name__ == '__main__':
    if '--selftest' in sys.argv:
        sys.exit(selftest(real='--real' in sys.argv))
    print(__doc__)
