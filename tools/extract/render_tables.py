"""chempy/util/parsing.py (+ printing/{pretty,web,tex}.py) -> Gen/Render.lean   (property C13)

Presentation tables of `formula_to_latex / _unicode / _html`, read from the source text (chempy is NOT imported):

* `_greek_letters`, `_greek_u`, the three prefix maps (`_latex_mapping`, `_unicode_mapping`, `_html_mapping`) *as dicts in
  insertion order*, the three infix maps, `_unicode_sub`, `_unicode_sup`.  They are obtained by executing exactly the
  module-level statements of parsing.py that assign to names starting with `_greek`, `_latex_`, `_unicode_`, `_html_`
  (and the `for` loops filling `_unicode_sub/_sup`) in an empty namespace with no builtins but `zip`, `enumerate`, `str`.
* the sub / sup lambdas handed to `_formula_to_format` by the three public functions: a `"<pre>%s<post>" % x` template or
  the `"".join(<table>[str(_)] for _ in x)` character map; the expression passed as `formula` (LaTeX brace escaping) is
  emitted as text (guard, the escaping itself is hand-modelled);
* the defaults `prefixes=None -> <map>`, `infixes=None -> <map>`, the default `suffixes` of `_formula_to_format`;
* the digit-run regex of `_formula_to_format` and the literal passed to `_subs` for the hydrate infix (guards);
* which attribute each printer's `_print_Substance` shows (`latex_name` / `unicode_name` / `html_name`).
Texts are emitted as `List Char` literals so that `decide` can compute with them in the kernel.
"""
import ast
from .common import *

FILES = ['Render.lean']
REL = 'chempy/util/parsing.py'
PRINTERS = [('tex', 'chempy/printing/tex.py', 'LatexPrinter'),
            ('pretty', 'chempy/printing/pretty.py', 'UnicodePrinter'),
            ('web', 'chempy/printing/web.py', 'HTMLPrinter')]
TABLE_PREFIXES = ('_greek', '_latex_', '_unicode_', '_html_')


def lean_char(ch):
    o = ord(ch)
    if ch == "'":
        return "'\\''"
    if ch == '\\':
        return "'\\\\'"
    if o < 32 or o > 126:
        return "'\\u%04x'" % o if o <= 0xFFFF else '(Char.ofNat %d)' % o
    return "'%s'" % ch


def lean_chars(s):
    return '[' + ', '.join(lean_char(c) for c in s) + ']'


class _Alpha(ast.NodeTransformer):
    """rename the parameters of every lambda to canonical names `_a0, _a1, …` (numbered by nesting order), so that source guards are
    insensitive to the choice of bound names"""

    def __init__(self):
        self.scopes = []
        self.n = 0

    def visit_Lambda(self, node):
        a = node.args
        params = [x.arg for x in a.posonlyargs + a.args + a.kwonlyargs] + ([a.vararg.arg] if a.vararg else []) + ([a.kwarg.arg] if a.kwarg else [])
        mapping = {}
        for name in params:
            mapping[name] = '_a%d' % self.n
            self.n += 1
        for x in a.posonlyargs + a.args + a.kwonlyargs + ([a.vararg] if a.vararg else []) + ([a.kwarg] if a.kwarg else []):
            x.arg = mapping[x.arg]
        a.defaults = [self.visit(d) for d in a.defaults]          # defaults are evaluated in the enclosing scope
        a.kw_defaults = [self.visit(d) if d is not None else None for d in a.kw_defaults]
        self.scopes.append(mapping)
        node.body = self.visit(node.body)
        self.scopes.pop()
        return node

    def visit_Name(self, node):
        for m in reversed(self.scopes):
            if node.id in m:
                return ast.copy_location(ast.Name(id=m[node.id], ctx=node.ctx), node)
        return node


def canon_src(src, node):
    """canonical text of an expression: parsed again from its own source segment (so the tree of the module is not touched), lambda parameters
    alpha-renamed, printed by ast.unparse (layout, quote style, raw-string prefixes and redundant parentheses do not matter)"""
    tree = ast.parse(seg(src, node).strip(), mode='eval')
    return ast.unparse(_Alpha().visit(tree))


def _target_names(node):
    out = []
    for t in (node.targets if isinstance(node, ast.Assign) else [node.target]):
        while isinstance(t, ast.Subscript):
            t = t.value
        if isinstance(t, ast.Name):
            out.append(t.id)
    return out


def _touches_tables(node):
    if isinstance(node, ast.Assign):
        return any(n.startswith(TABLE_PREFIXES) for n in _target_names(node))
    if isinstance(node, ast.For):
        return any(isinstance(s, ast.Assign) and any(n.startswith(TABLE_PREFIXES) for n in _target_names(s)) for s in node.body)
    return False


def tables(tree):
    """execute the table-building statements of the module, nothing else"""
    nodes = [n for n in tree.body if _touches_tables(n)]
    for n in tree.body:     # any other kind of statement mentioning a table at module level is refused
        if n not in nodes and not isinstance(n, (ast.FunctionDef, ast.ClassDef, ast.Import, ast.ImportFrom)):
            names = {x.id for x in ast.walk(n) if isinstance(x, ast.Name)}
            if any(x.startswith(TABLE_PREFIXES) for x in names):
                raise ExtractError('unsupported module-level statement touching a presentation table (line %d)' % n.lineno)
    mod = ast.Module(body=nodes, type_ignores=[])
    ns = {'__builtins__': {'zip': zip, 'enumerate': enumerate, 'str': str}}
    try:
        exec(compile(mod, '<presentation tables of parsing.py>', 'exec'), ns)
    except Exception as e:
        raise ExtractError('table statements could not be evaluated: %s: %s' % (type(e).__name__, e))
    return ns


def _str_dict(ns, name):
    d = ns.get(name)
    if not isinstance(d, dict) or not all(isinstance(k, str) and isinstance(v, str) for k, v in d.items()):
        raise ExtractError('%s is not a dict str -> str' % name)
    return list(d.items())


def _lambda_shape(node, what):
    """-> ('tmpl', pre, post) | ('map', tablename)"""
    if not isinstance(node, ast.Lambda) or len(node.args.args) != 1:
        raise ExtractError('%s is not a one-argument lambda' % what)
    x = node.args.args[0].arg
    b = node.body
    if (isinstance(b, ast.BinOp) and isinstance(b.op, ast.Mod) and isinstance(b.left, ast.Constant) and isinstance(b.left.value, str)
            and isinstance(b.right, ast.Name) and b.right.id == x):
        t = b.left.value
        if t.count('%') != 1 or t.count('%s') != 1:
            raise ExtractError('%s: template %r is not of the form <pre>%%s<post>' % (what, t))
        pre, post = t.split('%s')
        return ('tmpl', pre, post)
    # "".join(TABLE[str(_)] for _ in x)
    if (isinstance(b, ast.Call) and isinstance(b.func, ast.Attribute) and b.func.attr == 'join'
            and isinstance(b.func.value, ast.Constant) and b.func.value.value == '' and len(b.args) == 1
            and isinstance(b.args[0], ast.GeneratorExp) and len(b.args[0].generators) == 1):
        g = b.args[0]
        c = g.generators[0]
        if (isinstance(c.iter, ast.Name) and c.iter.id == x and not c.ifs and isinstance(c.target, ast.Name)
                and isinstance(g.elt, ast.Subscript) and isinstance(g.elt.value, ast.Name)):
            v = c.target.id
            sl = g.elt.slice
            if (isinstance(sl, ast.Call) and isinstance(sl.func, ast.Name) and sl.func.id == 'str' and len(sl.args) == 1
                    and isinstance(sl.args[0], ast.Name) and sl.args[0].id == v):
                return ('map', g.elt.value.id)
    raise ExtractError('%s has an unsupported body' % what)


def public_fn(src, tree, name):
    """-> dict(sub=..., sup=..., formula_arg=text, prefixes=mapname, infixes=mapname)"""
    fn = find_def(tree, name)
    calls = [n for n in ast.walk(fn) if isinstance(n, ast.Call) and isinstance(n.func, ast.Name) and n.func.id == '_formula_to_format']
    if len(calls) != 1:
        raise ExtractError('%s: expected exactly one call of _formula_to_format' % name)
    c = calls[0]
    if len(c.args) != 5 or [k.arg for k in c.keywords] != [None]:
        raise ExtractError('%s: call of _formula_to_format has another argument shape' % name)
    if not (isinstance(c.args[3], ast.Name) and c.args[3].id == 'prefixes' and isinstance(c.args[4], ast.Name) and c.args[4].id == 'infixes'):
        raise ExtractError('%s: prefixes / infixes are not passed on unchanged' % name)
    body = ''.join(seg(src, fn).split())
    defaults = {}
    for arg in ('prefixes', 'infixes'):
        found = None
        for n in fn.body:
            if (isinstance(n, ast.If) and ''.join(seg(src, n.test).split()) == arg + 'isNone' and len(n.body) == 1 and not n.orelse
                    and isinstance(n.body[0], ast.Assign) and isinstance(n.body[0].value, ast.Name)
                    and _target_names(n.body[0]) == [arg]):
                found = n.body[0].value.id
        if found is None:
            raise ExtractError('%s: `if %s is None: %s = <table>` not found' % (name, arg, arg))
        defaults[arg] = found
    a = fn.args
    if [x.arg for x in a.args] != ['formula', 'prefixes', 'infixes'] or a.vararg is not None or a.kwarg is None:
        raise ExtractError('%s: signature changed' % name)
    return dict(sub=_lambda_shape(c.args[0], name + ' sub'), sup=_lambda_shape(c.args[1], name + ' sup'),
                formula_arg=canon_src(src, c.args[2]), prefixes=defaults['prefixes'], infixes=defaults['infixes'])


def print_attr(repo, rel, clsname):
    src, tree = parse(repo, rel)
    cls = next((n for n in tree.body if isinstance(n, ast.ClassDef) and n.name == clsname), None)
    if cls is None:
        raise ExtractError('no class %s' % clsname)
    fn = next((n for n in cls.body if isinstance(n, ast.FunctionDef) and n.name == '_print_Substance'), None)
    if fn is None or len(fn.body) != 1 or not isinstance(fn.body[0], ast.Return):
        raise ExtractError('%s._print_Substance is not a single return' % clsname)
    v = fn.body[0].value
    s = fn.args.args[1].arg
    if (isinstance(v, ast.BoolOp) and isinstance(v.op, ast.Or) and len(v.values) == 2
            and all(isinstance(x, ast.Attribute) and isinstance(x.value, ast.Name) and x.value.id == s for x in v.values)
            and v.values[1].attr == 'name'):
        return v.values[0].attr
    raise ExtractError('%s._print_Substance is not `s.<attr> or s.name`' % clsname)


def emit_map(out, name, doc, items):
    out.append('/-- %s -/' % doc)
    out.append('def %s : List (List Char × List Char) := [' % name)
    out.append(',\n'.join('  (%s, %s)' % (lean_chars(k), lean_chars(v)) for k, v in items) + ']\n')


def generate(repo):
    src, tree = parse(repo, REL)
    ns = tables(tree)
    greek = ns.get('_greek_letters')
    greek_u = ns.get('_greek_u')
    if not isinstance(greek, tuple) or not all(isinstance(g, str) for g in greek) or not isinstance(greek_u, str):
        raise ExtractError('_greek_letters / _greek_u have an unexpected type')
    fns = {k: public_fn(src, tree, 'formula_to_' + k) for k in ('latex', 'unicode', 'html')}
    f2f = find_def(tree, '_formula_to_format')
    if [a.arg for a in f2f.args.args] != ['sub', 'sup', 'formula', 'prefixes', 'infixes', 'suffixes']:
        raise ExtractError('_formula_to_format: signature changed')
    suff = f2f.args.defaults[-1]
    if not isinstance(suff, ast.Tuple) or not all(isinstance(e, ast.Constant) and isinstance(e.value, str) for e in suff.elts):
        raise ExtractError('_formula_to_format: default suffixes is not a tuple of literals')
    suff = [e.value for e in suff.elts]
    subs = [n for n in ast.walk(f2f) if isinstance(n, ast.Call) and isinstance(n.func, ast.Attribute) and n.func.attr == 'sub'
            and isinstance(n.func.value, ast.Name) and n.func.value.id == 're']
    if len(subs) != 1 or not isinstance(subs[0].args[0], ast.Constant):
        raise ExtractError('_formula_to_format: expected one re.sub(<literal>, ...)')
    digit_regex = subs[0].args[0].value
    digit_repl = canon_src(src, subs[0].args[1])
    infix_calls = [n for n in ast.walk(f2f) if isinstance(n, ast.Call) and isinstance(n.func, ast.Name) and n.func.id == '_subs'
                   and isinstance(n.args[0], ast.Constant)]
    if len(infix_calls) != 1 or not (isinstance(infix_calls[0].args[1], ast.Name) and infix_calls[0].args[1].id == 'infixes'):
        raise ExtractError('_formula_to_format: `_subs(<literal>, infixes)` not found')
    infix_src = infix_calls[0].args[0].value

    out = [HEADER % (REL + ', chempy/printing/{tex,pretty,web}.py'), 'namespace ChemModel.Gen.Render\n']
    out.append('/-- `_greek_letters` -/')
    out.append('def greekLetters : List (List Char) := [' + ', '.join(lean_chars(g) for g in greek) + ']')
    out.append('/-- `_greek_u` -/')
    out.append('def greekU : List Char := %s\n' % lean_chars(greek_u))
    for lean_name, py in (('latexMap', '_latex_mapping'), ('unicodeMap', '_unicode_mapping'), ('htmlMap', '_html_mapping'),
                          ('latexInfixMap', '_latex_infix_mapping'), ('unicodeInfixMap', '_unicode_infix_mapping'),
                          ('htmlInfixMap', '_html_infix_mapping')):
        emit_map(out, lean_name, '`%s` as (key, value) pairs in dict insertion order' % py, _str_dict(ns, py))
    for lean_name, py in (('unicodeSub', '_unicode_sub'), ('unicodeSup', '_unicode_sup')):
        items = _str_dict(ns, py)
        single = [(k, v) for k, v in items if len(k) == 1 and len(v) == 1]
        multi = [(k, v) for k, v in items if not (len(k) == 1 and len(v) == 1)]
        out.append('/-- `%s` restricted to one-character keys (the lambda looks up `str(ch)` for every character) -/' % py)
        out.append('def %s : List (Char × Char) := [' % lean_name + ', '.join('(%s, %s)' % (lean_char(k), lean_char(v)) for k, v in single) + ']')
        out.append('/-- its other entries (never hit by a one-character lookup) -/')
        out.append('def %sOther : List (List Char × List Char) := [' % lean_name + ', '.join('(%s, %s)' % (lean_chars(k), lean_chars(v)) for k, v in multi) + ']\n')
    for k in ('latex', 'unicode', 'html'):
        d = fns[k]
        for which in ('sub', 'sup'):
            sh = d[which]
            nm = k + which.capitalize()
            if sh[0] == 'tmpl':
                out.append('/-- `formula_to_%s`: the %s lambda is `"%%s" %% x` with this text before / after -/' % (k, which))
                out.append('def %sIsTemplate : Bool := true' % nm)
                out.append('def %sPre : List Char := %s' % (nm, lean_chars(sh[1])))
                out.append('def %sPost : List Char := %s' % (nm, lean_chars(sh[2])))
                out.append('def %sTable : String := ""' % nm)
            else:
                out.append('/-- `formula_to_%s`: the %s lambda maps every character through this table -/' % (k, which))
                out.append('def %sIsTemplate : Bool := false' % nm)
                out.append('def %sPre : List Char := []' % nm)
                out.append('def %sPost : List Char := []' % nm)
                out.append('def %sTable : String := %s' % (nm, lean_str(sh[1])))
        out.append('/-- the expression `formula_to_%s` passes as `formula` (guard) -/' % k)
        out.append('def %sFormulaArg : String := %s' % (k, lean_str(d['formula_arg'])))
        out.append('/-- the tables used when `prefixes` / `infixes` are None -/')
        out.append('def %sDefaultPrefixes : String := %s' % (k, lean_str(d['prefixes'])))
        out.append('def %sDefaultInfixes : String := %s\n' % (k, lean_str(d['infixes'])))
    out.append('/-- `_formula_to_format`: default `suffixes` -/')
    out.append('def formatSuffixesL : List (List Char) := [' + ', '.join(lean_chars(s) for s in suff) + ']')
    out.append('/-- `_formula_to_format`: the digit-run regex and its replacement callback (guards) -/')
    out.append('def digitRunRegex : String := %s' % lean_str(digit_regex))
    out.append('def digitRunRepl : String := %s' % lean_str(digit_repl))
    out.append('/-- `_formula_to_format`: the text handed to `_subs(…, infixes)` between hydrate parts -/')
    out.append('def infixSource : List Char := %s\n' % lean_chars(infix_src))
    for short, rel, cls in PRINTERS:
        out.append('/-- `%s._print_Substance` returns `s.<this> or s.name` -/' % cls)
        out.append('def %sNameAttr : String := %s' % (short, lean_str(print_attr(repo, rel, cls))))
    out.append('\nend ChemModel.Gen.Render\n')
    return {'Render.lean': '\n'.join(out)}
