"""chempy/equilibria.py -> Gen/EqSolveDefaults.lean: the default tolerances of EqSystem._result_is_sane / _fw_cond_factory (C08)"""
import ast
from .common import *

REL = 'chempy/equilibria.py'
FILES = ['EqSolveDefaults.lean']


def _default(src, cls, fn, arg):
    f = next((n for n in cls.body if isinstance(n, ast.FunctionDef) and n.name == fn), None)
    if f is None:
        raise ExtractError('no method %s' % fn)
    pos = f.args.args
    names = [a.arg for a in pos]
    if arg not in names:
        raise ExtractError('%s has no argument %s' % (fn, arg))
    i = names.index(arg) - (len(pos) - len(f.args.defaults))
    if i < 0:
        raise ExtractError('%s.%s has no default' % (fn, arg))
    d = f.args.defaults[i]
    if not (isinstance(d, ast.Constant) and isinstance(d.value, (int, float)) and not isinstance(d.value, bool)):
        raise ExtractError('default of %s.%s is not a numeric literal' % (fn, arg))
    return num_text_to_fraction(seg(src, d))


def generate(repo):
    src, tree = parse(repo, REL)
    cls = find_def(tree, 'EqSystem')
    sane = _default(src, cls, '_result_is_sane', 'rtol')
    fw = _default(src, cls, '_fw_cond_factory', 'rtol')
    out = [HEADER % REL, 'namespace ChemModel.Gen.EqSolveDefaults\n',
           '/-- default `rtol` of `EqSystem._result_is_sane` as written in the source (exact value of the literal): numerator, denominator -/',
           'def saneRtolNum : Int := %d' % sane.numerator, 'def saneRtolDen : Nat := %d\n' % sane.denominator,
           '/-- default `rtol` of `EqSystem._fw_cond_factory` -/',
           'def fwRtolNum : Int := %d' % fw.numerator, 'def fwRtolDen : Nat := %d\n' % fw.denominator,
           'end ChemModel.Gen.EqSolveDefaults\n']
    return {FILES[0]: '\n'.join(out)}
